// xkvlint: repository-specific static analyser deciding the structural clauses of C01..C20 for xixi-kv.
package main

import (
	"encoding/json"
	"flag"
	"fmt"
	"os"
	"os/exec"
	"path/filepath"
	"runtime/debug"
	"sort"
	"strconv"
	"strings"
	"sync"
	"time"

	"xkvverif/internal/core"
	"xkvverif/internal/rules"
)

type workerOut struct {
	Context string             `json:"context"`
	Report  *core.Report       `json:"report"`
	Obls    []*core.Obligation `json:"obls"`
	Info    map[string]int     `json:"info"`
	Failure string             `json:"failure,omitempty"`
}

type mutant struct {
	ID        string   `json:"id"`
	Props     []string `json:"props"`
	File      string   `json:"file"`
	Find      string   `json:"find"`
	Replace   string   `json:"replace"`
	Rule      string   `json:"rule"`
	Construct string   `json:"construct_contains"`
	Note      string   `json:"note,omitempty"`
	Edits     []edit   `json:"edits,omitempty"`   // further edits (same or other files), all must apply
	Control   bool     `json:"control,omitempty"` // behaviour-preserving edit: every check must stay silent
	All       bool     `json:"all,omitempty"`
}

type edit struct {
	File    string `json:"file"`
	Find    string `json:"find"`
	Replace string `json:"replace"`
	All     bool   `json:"all,omitempty"` // replace every occurrence (renames)
}

func main() {
	prop := flag.String("prop", "", "property id (C01..C20)")
	tier := flag.String("tier", "quick", "quick|thorough")
	repo := flag.String("repo", "/repo", "repository root")
	verif := flag.String("verif", "/verif", "verification root")
	worker := flag.String("worker", "", "internal: run one context (arch/graph) and print JSON")
	overlay := flag.String("overlay", "", "internal: mutant json (file,find,replace)")
	replay := flag.String("replay", "", "replay file: re-analyse and print that obligation's derivation")
	selftest := flag.Bool("selftest", false, "run the self-validation corpus for -prop (or all) and report")
	flag.Parse()

	if *prop == "matrix" {
		// development aid: one load, every property; prints the failing obligations per property (no evidence)
		os.Exit(runMatrix(*repo, *overlay))
	}
	if *worker != "" {
		runWorker(*prop, *repo, *worker, *overlay)
		return
	}
	if *selftest {
		os.Exit(runSelftestCmd(*prop, *repo, *verif))
	}
	if _, ok := rules.Registry[*prop]; !ok {
		fmt.Fprintf(os.Stderr, "unknown property %q\n", *prop)
		os.Exit(2)
	}
	os.Exit(runCheck(*prop, *tier, *repo, *verif, *replay))
}

func analyse(prop, repo, ctx string, ov map[string][]byte) (out workerOut) {
	out.Context = ctx
	defer func() {
		if r := recover(); r != nil {
			if tf, ok := r.(*core.ToolFailure); ok {
				out.Failure = tf.Msg
			} else {
				out.Failure = fmt.Sprintf("analyser panic: %v\n%s", r, debug.Stack())
			}
		}
	}()
	parts := strings.Split(ctx, "/")
	arch, graph := parts[0], parts[1]
	p := core.Load(core.LoadOpts{Dir: repo, GOARCH: arch, Overlay: ov, CHA: graph == "cha"})
	rep := core.NewReport(prop)
	func() {
		// A vacuity guard ("the rule no longer finds the instances confirmed by hand") is an UNDECIDED obligation:
		// the rule cannot vouch for the clause, so the check fails (exit 1) and names what disappeared. Unresolved
		// roles, load errors and analyser panics remain tool failures (exit 2).
		defer func() {
			if r := recover(); r != nil {
				if tf, ok := r.(*core.ToolFailure); ok && strings.HasPrefix(tf.Msg, "vacuity guard:") {
					rep.Unk("VAC", "vacuity:"+vacKey(tf.Msg), "every rule still finds the instances it was confirmed on", "", tf.Msg+" - a construct the rule ranges over has disappeared; the remaining rules of this property were not evaluated")
					return
				}
				panic(r)
			}
		}()
		rules.Registry[prop](p, rep)
	}()
	edges := 0
	for _, n := range p.CG.Nodes {
		edges += len(n.Out)
	}
	out.Report = rep
	out.Obls = rep.Sorted()
	out.Info = map[string]int{"roots": len(p.Roots), "all": p.AllPkgs, "funcs": p.NumFuncs, "cgnodes": len(p.CG.Nodes), "cgedges": edges, "libfuncs": len(p.LibFuncs())}
	return out
}

func runWorker(prop, repo, ctx, overlay string) {
	var ov map[string][]byte
	if overlay != "" {
		b, err := os.ReadFile(overlay)
		if err != nil {
			fmt.Fprintln(os.Stderr, err)
			os.Exit(2)
		}
		var m mutant
		if err := json.Unmarshal(b, &m); err != nil {
			fmt.Fprintln(os.Stderr, err)
			os.Exit(2)
		}
		ov = map[string][]byte{}
		for _, e := range append([]edit{{m.File, m.Find, m.Replace, m.All}}, m.Edits...) {
			path := filepath.Join(repo, e.File)
			src, ok := ov[path]
			if !ok {
				var err error
				src, err = os.ReadFile(path)
				if err != nil {
					json.NewEncoder(os.Stdout).Encode(workerOut{Context: ctx, Failure: "inapplicable"})
					return
				}
			}
			if !strings.Contains(string(src), e.Find) {
				json.NewEncoder(os.Stdout).Encode(workerOut{Context: ctx, Failure: "inapplicable"})
				return
			}
			cnt := 1
			if e.All {
				cnt = -1
			}
			ov[path] = []byte(strings.Replace(string(src), e.Find, e.Replace, cnt))
		}
	}
	out := analyse(prop, repo, ctx, ov)
	json.NewEncoder(os.Stdout).Encode(out)
}

func spawn(prop, repo, ctx, overlay string) workerOut {
	self, _ := os.Executable()
	args := []string{"-prop", prop, "-repo", repo, "-worker", ctx}
	if overlay != "" {
		args = append(args, "-overlay", overlay)
	}
	cmd := exec.Command(self, args...)
	cmd.Stderr = os.Stderr
	b, err := cmd.Output()
	var out workerOut
	if err != nil {
		out.Context = ctx
		out.Failure = "worker failed: " + err.Error()
		return out
	}
	if err := json.Unmarshal(b, &out); err != nil {
		out.Context = ctx
		out.Failure = "worker output: " + err.Error()
	}
	return out
}

func runCheck(prop, tier, repo, verif, replay string) int {
	t0 := time.Now()
	seed, _ := strconv.Atoi(os.Getenv("VERIF_SEED"))
	contexts := []string{"amd64/vta"}
	if tier == "thorough" {
		contexts = []string{"amd64/vta", "amd64/cha", "386/vta", "386/cha"}
	}
	outs := make([]workerOut, len(contexts))
	if len(contexts) == 1 {
		outs[0] = analyse(prop, repo, contexts[0], nil)
	} else {
		var wg sync.WaitGroup
		for i, c := range contexts {
			wg.Add(1)
			go func(i int, c string) { defer wg.Done(); outs[i] = spawn(prop, repo, c, "") }(i, c)
		}
		wg.Wait()
	}
	for _, o := range outs {
		if o.Failure != "" {
			fmt.Printf("TOOL-FAILURE property=%s context=%s: %s\n", prop, o.Context, o.Failure)
			return 2
		}
	}
	// merge: VTA contexts decide; CHA-only disagreements are imprecision notes
	merged := core.NewReport(prop)
	base := outs[0].Report
	merged.Rules, merged.Tables, merged.Assumptions, merged.NotCovered, merged.Notes, merged.Stats = base.Rules, base.Tables, base.Assumptions, base.NotCovered, base.Notes, base.Stats
	vtaStatus := map[string]string{}
	for _, o := range outs {
		if !strings.HasSuffix(o.Context, "/cha") {
			for _, ob := range o.Obls {
				c := *ob
				if c.Status != core.Discharged {
					c.Context = o.Context
				}
				merged.Add(c)
			}
		}
	}
	for _, ob := range merged.Obls {
		vtaStatus[ob.Rule+"|"+ob.Construct] = ob.Status
	}
	for _, o := range outs {
		if strings.HasSuffix(o.Context, "/cha") {
			for _, ob := range o.Obls {
				k := ob.Rule + "|" + ob.Construct
				st, ok := vtaStatus[k]
				if !ok {
					merged.Notes = append(merged.Notes, fmt.Sprintf("imprecision note (%s): obligation %s exists only on the CHA graph, status %s", o.Context, k, ob.Status))
				} else if st != ob.Status {
					merged.Notes = append(merged.Notes, fmt.Sprintf("imprecision note (%s): %s is %s on CHA but %s on VTA: %s", o.Context, k, ob.Status, st, ob.Detail))
				}
			}
		}
	}

	known := core.LoadKnown(filepath.Join(verif, "known_findings.json"))
	evdir := filepath.Join(verif, "evidence")
	violations, knownHits := 0, 0
	var lines []string
	for _, ob := range merged.Sorted() {
		if ob.Status == core.Discharged {
			continue
		}
		if kf := known.Match(prop, ob); kf != nil && ob.Status == core.Violated {
			knownHits++
			lines = append(lines, fmt.Sprintf("KNOWN-FINDING: property=%s %s %s: %s", prop, ob.Rule, ob.Construct, kf.What))
			continue
		}
		violations++
		rp := core.WriteReplay(evdir, prop, violations, ob)
		fmt.Printf("  %s %s [%s] at %s: %s\n    %s\n", strings.ToUpper(ob.Status), ob.Rule, ob.Construct, ob.Pos, ob.What, ob.Detail)
		for _, s := range ob.Stack {
			fmt.Printf("      via %s\n", s)
		}
		if len(ob.Path) > 0 {
			fmt.Printf("      path %s\n", strings.Join(ob.Path, " -> "))
		}
		lines = append(lines, fmt.Sprintf("VIOLATION property=%s replay=%s", prop, rp))
	}

	ri := core.RunInfo{Tier: tier, Seed: seed, Cmd: "/verif/check " + prop + " " + tier, Contexts: nil,
		Packages: outs[0].Info["roots"], AllPkgs: outs[0].Info["all"], Funcs: outs[0].Info["funcs"], CGNodes: outs[0].Info["cgnodes"], CGEdges: outs[0].Info["cgedges"], LibFuncs: outs[0].Info["libfuncs"]}
	for _, o := range outs {
		ri.Contexts = append(ri.Contexts, "linux/"+o.Context)
	}
	if ri.Packages == 0 || ri.LibFuncs == 0 {
		fmt.Printf("TOOL-FAILURE property=%s: nothing analysed\n", prop)
		return 2
	}
	if tier == "thorough" {
		st := runSelftest(prop, repo, verif)
		ri.Selftest = st
	}
	if replay != "" {
		printReplay(replay, merged)
	}
	ri.WallS = time.Since(t0).Seconds()
	path := core.WriteEvidence(evdir, merged, ri, violations, knownHits)
	dis := 0
	for _, ob := range merged.Obls {
		if ob.Status == core.Discharged {
			dis++
		}
	}
	fmt.Printf("%s %s: %d obligations, %d discharged, %d failing, %d known findings; %d root pkgs, %d lib funcs, contexts %v; evidence %s (%.1fs)\n",
		prop, tier, len(merged.Obls), dis, violations, knownHits, ri.Packages, ri.LibFuncs, ri.Contexts, path, ri.WallS)
	for _, l := range lines {
		fmt.Println(l)
	}
	if violations > 0 {
		return 1
	}
	return 0
}

func printReplay(path string, merged *core.Report) {
	b, err := os.ReadFile(path)
	if err != nil {
		fmt.Printf("replay: %v\n", err)
		return
	}
	var r struct {
		Obligation core.Obligation `json:"obligation"`
	}
	_ = json.Unmarshal(b, &r)
	fmt.Printf("replay of %s [%s] on the current tree:\n", r.Obligation.Rule, r.Obligation.Construct)
	found := false
	for _, ob := range merged.Obls {
		if ob.Rule == r.Obligation.Rule && ob.Construct == r.Obligation.Construct {
			found = true
			fmt.Printf("  status now: %s at %s\n  what: %s\n  detail: %s\n", ob.Status, ob.Pos, ob.What, ob.Detail)
			for _, s := range ob.Stack {
				fmt.Printf("    via %s\n", s)
			}
			for _, s := range ob.Path {
				fmt.Printf("    path %s\n", s)
			}
		}
	}
	if !found {
		fmt.Printf("  obligation no longer exists on the current tree (construct renamed or removed)\n")
	}
}

// ---- self-validation corpus (DESIGN 1.5) ---------------------------------------------------------

func loadMutants(verif string) []mutant {
	var all []mutant
	files, _ := filepath.Glob(filepath.Join(verif, "mutants", "*.json"))
	sort.Strings(files)
	for _, f := range files {
		b, err := os.ReadFile(f)
		if err != nil {
			continue
		}
		var ms []mutant
		if err := json.Unmarshal(b, &ms); err != nil {
			fmt.Fprintf(os.Stderr, "mutants file %s: %v\n", f, err)
			continue
		}
		all = append(all, ms...)
	}
	return all
}

func runSelftest(prop, repo, verif string) map[string]any {
	ms := loadMutants(verif)
	type res struct {
		m      mutant
		status string
		detail string
	}
	var sel []mutant
	for _, m := range ms {
		for _, p := range m.Props {
			if p == prop {
				sel = append(sel, m)
			}
		}
	}
	results := make([]res, len(sel))
	sem := make(chan struct{}, 8)
	var wg sync.WaitGroup
	tmp, _ := os.MkdirTemp("", "xkvmut")
	defer os.RemoveAll(tmp)
	for i, m := range sel {
		wg.Add(1)
		go func(i int, m mutant) {
			defer wg.Done()
			sem <- struct{}{}
			defer func() { <-sem }()
			mf := filepath.Join(tmp, fmt.Sprintf("m%d.json", i))
			b, _ := json.Marshal(m)
			_ = os.WriteFile(mf, b, 0o644)
			out := spawn(prop, repo, "amd64/vta", mf)
			r := res{m: m}
			switch {
			case out.Failure == "inapplicable":
				r.status = "inapplicable"
			case out.Failure != "":
				r.status = "tool-failure"
				r.detail = out.Failure
			case m.Control:
				r.status = "silent-ok"
				for _, ob := range out.Obls {
					if ob.Status != core.Discharged {
						r.status = "false-alarm"
						r.detail += ob.Rule + " [" + ob.Construct + "] "
					}
				}
			default:
				r.status = "missed"
				for _, ob := range out.Obls {
					if ob.Status != core.Discharged && (m.Rule == "" || ob.Rule == m.Rule) && strings.Contains(ob.Construct, m.Construct) {
						r.status = "caught"
						r.detail = ob.Rule + " [" + ob.Construct + "] " + ob.Status
						break
					}
				}
				if r.status == "missed" {
					var others []string
					for _, ob := range out.Obls {
						if ob.Status != core.Discharged {
							others = append(others, ob.Rule+"["+ob.Construct+"]")
						}
					}
					r.detail = "other failing obligations: " + strings.Join(others, ", ")
				}
			}
			results[i] = r
		}(i, m)
	}
	wg.Wait()
	st := map[string]any{}
	counts := map[string]int{}
	var list []map[string]string
	for _, r := range results {
		counts[r.status]++
		list = append(list, map[string]string{"id": r.m.ID, "status": r.status, "rule": r.m.Rule, "detail": r.detail})
	}
	st["variants"] = len(sel)
	st["counts"] = counts
	st["results"] = list
	return st
}

func runSelftestCmd(prop, repo, verif string) int {
	props := []string{prop}
	if prop == "" || prop == "all" {
		props = nil
		for k := range rules.Registry {
			props = append(props, k)
		}
		sort.Strings(props)
	}
	rc := 0
	for _, p := range props {
		st := runSelftest(p, repo, verif)
		for _, r := range st["results"].([]map[string]string) {
			fmt.Printf("%s %-28s %-13s %s\n", p, r["id"], r["status"], r["detail"])
			if r["status"] == "missed" || r["status"] == "tool-failure" || r["status"] == "false-alarm" {
				rc = 1
			}
		}
	}
	return rc
}

func overlayOf(repo, overlay string) (map[string][]byte, bool) {
	if overlay == "" {
		return nil, true
	}
	b, err := os.ReadFile(overlay)
	if err != nil {
		return nil, false
	}
	var m mutant
	if err := json.Unmarshal(b, &m); err != nil {
		return nil, false
	}
	ov := map[string][]byte{}
	for _, e := range append([]edit{{m.File, m.Find, m.Replace, m.All}}, m.Edits...) {
		path := filepath.Join(repo, e.File)
		src, ok := ov[path]
		if !ok {
			var err error
			src, err = os.ReadFile(path)
			if err != nil {
				return nil, false
			}
		}
		if !strings.Contains(string(src), e.Find) {
			return nil, false
		}
		cnt := 1
		if e.All {
			cnt = -1
		}
		ov[path] = []byte(strings.Replace(string(src), e.Find, e.Replace, cnt))
	}
	return ov, true
}

func runMatrix(repo, overlay string) int {
	defer func() {
		if r := recover(); r != nil {
			fmt.Printf("TOOL-FAILURE %v\n", r)
			os.Exit(2)
		}
	}()
	ov, ok := overlayOf(repo, overlay)
	if !ok {
		fmt.Println("INAPPLICABLE")
		return 3
	}
	p := core.Load(core.LoadOpts{Dir: repo, GOARCH: "amd64", Overlay: ov})
	var props []string
	for k := range rules.Registry {
		props = append(props, k)
	}
	sort.Strings(props)
	rc := 0
	for _, pr := range props {
		func() {
			defer func() {
				if r := recover(); r != nil {
					msg := fmt.Sprint(r)
					if tf, ok := r.(*core.ToolFailure); ok {
						msg = tf.Msg
					}
					if strings.HasPrefix(msg, "vacuity guard:") {
						fmt.Printf("%s UNDECIDED VAC [vacuity:%s] %s\n", pr, vacKey(msg), msg)
						if rc == 0 {
							rc = 1
						}
						return
					}
					fmt.Printf("%s TOOL-FAILURE %s\n", pr, msg)
					rc = 2
				}
			}()
			rep := core.NewReport(pr)
			rules.Registry[pr](p, rep)
			for _, ob := range rep.Sorted() {
				if ob.Status != core.Discharged {
					fmt.Printf("%s %s %s [%s] %s\n", pr, strings.ToUpper(ob.Status), ob.Rule, ob.Construct, ob.Pos)
					if rc == 0 {
						rc = 1
					}
				}
			}
		}()
	}
	return rc
}

func vacKey(msg string) string {
	// stable key: the text up to the first digit (counts vary)
	m := strings.TrimPrefix(msg, "vacuity guard: ")
	for i, c := range m {
		if c >= '0' && c <= '9' {
			return strings.TrimSpace(m[:i])
		}
	}
	if len(m) > 60 {
		m = m[:60]
	}
	return m
}
