// mutgen enumerates mechanical one-site variants of the library source (statement deletion, comparison / logical
// operator flips) as overlay descriptions for `xkvlint -prop matrix -overlay`. It is a development aid for measuring
// which mechanical changes no rule notices (DESIGN 10, "mechanical variants"); it decides nothing and is not
// registered. Usage: mutgen -repo /repo -out dir
package main

import (
	"encoding/json"
	"flag"
	"fmt"
	"go/ast"
	"go/parser"
	"go/token"
	"os"
	"path/filepath"
	"strings"
)

type mut struct {
	ID      string `json:"id"`
	Props   []string `json:"props"`
	File    string `json:"file"`
	Find    string `json:"find"`
	Replace string `json:"replace"`
	Kind    string `json:"kind"`
	Line    int    `json:"line"`
	Text    string `json:"text"`
	Func    string `json:"func"`
}

func main() {
	repo := flag.String("repo", "/repo", "")
	out := flag.String("out", "/tmp/mutgen", "")
	flag.Parse()
	os.MkdirAll(*out, 0o755)
	var files []string
	for _, d := range []string{".", "datafile", "fio", "index", "utils", "datatype"} {
		ms, _ := filepath.Glob(filepath.Join(*repo, d, "*.go"))
		for _, f := range ms {
			if !strings.HasSuffix(f, "_test.go") {
				files = append(files, f)
			}
		}
	}
	n := 0
	for _, f := range files {
		src, err := os.ReadFile(f)
		if err != nil {
			continue
		}
		rel, _ := filepath.Rel(*repo, f)
		fset := token.NewFileSet()
		af, err := parser.ParseFile(fset, f, src, parser.ParseComments)
		if err != nil {
			continue
		}
		off := func(p token.Pos) int { return fset.Position(p).Offset }
		emit := func(kind string, start, end int, repl string, fn string) {
			// context: extend to line start, then backwards until unique
			ls := start
			for ls > 0 && src[ls-1] != '\n' {
				ls--
			}
			le := end
			for le < len(src) && src[le] != '\n' {
				le++
			}
			for {
				ctx := string(src[ls:le])
				if strings.Count(string(src), ctx) == 1 {
					break
				}
				if ls == 0 {
					return
				}
				ls--
				for ls > 0 && src[ls-1] != '\n' {
					ls--
				}
			}
			find := string(src[ls:le])
			replace := string(src[ls:start]) + repl + string(src[end:le])
			n++
			m := mut{ID: fmt.Sprintf("%s-%05d", kind, n), Props: []string{}, File: rel, Find: find, Replace: replace, Kind: kind,
				Line: fset.Position(token.Pos(0)).Line, Text: strings.TrimSpace(string(src[start:end])), Func: fn}
			m.Line = fset.File(af.Pos()).Line(fset.File(af.Pos()).Pos(start))
			if len(m.Text) > 160 {
				m.Text = m.Text[:160]
			}
			b, _ := json.Marshal(m)
			os.WriteFile(filepath.Join(*out, m.ID+".json"), b, 0o644)
		}
		for _, d := range af.Decls {
			fd, ok := d.(*ast.FuncDecl)
			if !ok || fd.Body == nil {
				continue
			}
			fn := fd.Name.Name
			if fd.Recv != nil && len(fd.Recv.List) > 0 {
				fn = strings.TrimSpace(string(src[off(fd.Recv.List[0].Type.Pos()):off(fd.Recv.List[0].Type.End())])) + "." + fn
			}
			ast.Inspect(fd.Body, func(nd ast.Node) bool {
				switch t := nd.(type) {
				case *ast.BlockStmt:
					for _, s := range t.List {
						switch st := s.(type) {
						case *ast.ExprStmt, *ast.IncDecStmt, *ast.DeferStmt, *ast.GoStmt:
							emit("del", off(s.Pos()), off(s.End()), "", fn)
						case *ast.AssignStmt:
							if st.Tok != token.DEFINE {
								emit("del", off(s.Pos()), off(s.End()), "", fn)
							}
						case *ast.IfStmt:
							if st.Else == nil {
								emit("delif", off(s.Pos()), off(s.End()), "", fn)
							}
						}
					}
				case *ast.CaseClause:
					for _, s := range t.Body {
						switch st := s.(type) {
						case *ast.ExprStmt, *ast.IncDecStmt:
							emit("del", off(s.Pos()), off(s.End()), "", fn)
						case *ast.AssignStmt:
							if st.Tok != token.DEFINE {
								emit("del", off(s.Pos()), off(s.End()), "", fn)
							}
						}
					}
				case *ast.BinaryExpr:
					flips := map[token.Token][]string{
						token.LSS: {"<="}, token.LEQ: {"<"}, token.GTR: {">="}, token.GEQ: {">"},
						token.EQL: {"!="}, token.NEQ: {"=="}, token.LAND: {"||"}, token.LOR: {"&&"},
					}
					if rs, ok := flips[t.Op]; ok {
						ops := off(t.OpPos)
						for _, r := range rs {
							emit("op", ops, ops+len(t.Op.String()), r, fn)
						}
					}
				}
				return true
			})
		}
	}
	fmt.Println(n, "variants")
}
