// mutgen enumerates mechanical one-site variants of the library source (statement deletion, comparison / logical
// operator flips) as overlay descriptions for `xkvlint -prop matrix -overlay`. It is a development aid for measuring
// which mechanical changes no rule notices (DESIGN 10, "mechanical variants"); it decides nothing and is not
// registered. Usage: mutgen -repo /repo -out dir
package main

import (
	"encoding/json"
	"flag"
	"fmt"
	"go/ast"
	"go/parser"
	"go/token"
	"os"
	"path/filepath"
	"strings"
)

type mut struct {
	ID      string `json:"id"`
	Props   []string `json:"props"`
	File    string `json:"file"`
	Find    string `json:"find"`
	Replace string `json:"replace"`
	Kind    string `json:"kind"`
	Line    int    `json:"line"`
	Text    string `json:"text"`
	Func    string `json:"func"`
}

type rawEdit struct {
	file, kind, fn string
	start, end   int
	repl         string
}

type cedit struct {
	File    string `json:"file"`
	Find    string `json:"find"`
	Replace string `json:"replace"`
}

func main() {
	combine := flag.String("combine", "", "with -equiv: emit combined variants, one per 'kind', 'file' (kind x file) or 'func' (kind x file x function), each applying every non-overlapping edit of its group at once")
	only := flag.String("only", "", "with -combine: restrict to groups whose key contains this text")
	var raws []rawEdit
	repo := flag.String("repo", "/repo", "")
	out := flag.String("out", "/tmp/mutgen", "")
	equiv := flag.Bool("equiv", false, "emit behaviour-preserving variants (mirrored comparisons, swapped if/else, De Morgan, x += y => x = x + y) instead of breaking ones: every check must stay silent on each")
	flag.Parse()
	os.MkdirAll(*out, 0o755)
	var files []string
	for _, d := range []string{".", "datafile", "fio", "index", "utils", "datatype"} {
		ms, _ := filepath.Glob(filepath.Join(*repo, d, "*.go"))
		for _, f := range ms {
			if !strings.HasSuffix(f, "_test.go") {
				files = append(files, f)
			}
		}
	}
	n := 0
	for _, f := range files {
		src, err := os.ReadFile(f)
		if err != nil {
			continue
		}
		rel, _ := filepath.Rel(*repo, f)
		fset := token.NewFileSet()
		af, err := parser.ParseFile(fset, f, src, parser.ParseComments)
		if err != nil {
			continue
		}
		off := func(p token.Pos) int { return fset.Position(p).Offset }
		emit := func(kind string, start, end int, repl string, fn string) {
			if *combine != "" {
				raws = append(raws, rawEdit{rel, kind, fn, start, end, repl})
				return
			}
			// context: extend to line start, then backwards until unique
			ls := start
			for ls > 0 && src[ls-1] != '\n' {
				ls--
			}
			le := end
			for le < len(src) && src[le] != '\n' {
				le++
			}
			for {
				ctx := string(src[ls:le])
				if strings.Count(string(src), ctx) == 1 {
					break
				}
				if ls == 0 {
					return
				}
				ls--
				for ls > 0 && src[ls-1] != '\n' {
					ls--
				}
			}
			find := string(src[ls:le])
			replace := string(src[ls:start]) + repl + string(src[end:le])
			n++
			m := mut{ID: fmt.Sprintf("%s-%05d", kind, n), Props: []string{}, File: rel, Find: find, Replace: replace, Kind: kind,
				Line: fset.Position(token.Pos(0)).Line, Text: strings.TrimSpace(string(src[start:end])), Func: fn}
			m.Line = fset.File(af.Pos()).Line(fset.File(af.Pos()).Pos(start))
			if len(m.Text) > 160 {
				m.Text = m.Text[:160]
			}
			b, _ := json.Marshal(m)
			os.WriteFile(filepath.Join(*out, m.ID+".json"), b, 0o644)
		}
		for _, d := range af.Decls {
			fd, ok := d.(*ast.FuncDecl)
			if !ok || fd.Body == nil {
				continue
			}
			fn := fd.Name.Name
			if fd.Recv != nil && len(fd.Recv.List) > 0 {
				fn = strings.TrimSpace(string(src[off(fd.Recv.List[0].Type.Pos()):off(fd.Recv.List[0].Type.End())])) + "." + fn
			}
			if *equiv {
				txt := func(n ast.Node) string { return string(src[off(n.Pos()):off(n.End())]) }
				hasCall := func(e ast.Expr) bool {
					found := false
					ast.Inspect(e, func(n ast.Node) bool {
						if c, ok := n.(*ast.CallExpr); ok {
							if id, ok := c.Fun.(*ast.Ident); ok && (id.Name == "len" || id.Name == "cap" || id.Name == "uint32" || id.Name == "uint64" || id.Name == "int64" || id.Name == "int" || id.Name == "uint16" || id.Name == "uint") {
								return true
							}
							found = true
						}
						if u, ok := n.(*ast.UnaryExpr); ok && u.Op == token.ARROW {
							found = true
						}
						return true
					})
					return found
				}
				ast.Inspect(fd.Body, func(nd ast.Node) bool {
					switch t := nd.(type) {
					case *ast.BinaryExpr:
						mir := map[token.Token]string{token.LSS: ">", token.LEQ: ">=", token.GTR: "<", token.GEQ: "<=", token.EQL: "==", token.NEQ: "!="}
						if m, ok := mir[t.Op]; ok && !(hasCall(t.X) && hasCall(t.Y)) {
							par := func(e ast.Expr) string {
								if b, ok := e.(*ast.BinaryExpr); ok {
									if _, cmp := mir[b.Op]; cmp {
										return "(" + txt(e) + ")"
									}
								}
								return txt(e)
							}
							emit("mirror", off(t.Pos()), off(t.End()), par(t.Y)+" "+m+" "+par(t.X), fn)
						}
						if t.Op == token.LAND {
							emit("demorgan", off(t.Pos()), off(t.End()), "!(!("+txt(t.X)+") || !("+txt(t.Y)+"))", fn)
						}
						if t.Op == token.LOR {
							emit("demorgan", off(t.Pos()), off(t.End()), "!(!("+txt(t.X)+") && !("+txt(t.Y)+"))", fn)
						}
					case *ast.IfStmt:
						if eb, ok := t.Else.(*ast.BlockStmt); ok {
							init := ""
							if t.Init != nil {
								init = txt(t.Init) + "; "
							}
							emit("ifswap", off(t.Pos()), off(t.End()), "if "+init+"!("+txt(t.Cond)+") "+txt(eb)+" else "+txt(t.Body), fn)
						}
					case *ast.AssignStmt:
						if (t.Tok == token.ADD_ASSIGN || t.Tok == token.SUB_ASSIGN) && len(t.Lhs) == 1 && !hasCall(t.Lhs[0]) {
							op := "+"
							if t.Tok == token.SUB_ASSIGN {
								op = "-"
							}
							emit("opassign", off(t.Pos()), off(t.End()), txt(t.Lhs[0])+" = "+txt(t.Lhs[0])+" "+op+" ("+txt(t.Rhs[0])+")", fn)
						}
					case *ast.IncDecStmt:
						if !hasCall(t.X) {
							op := "+="
							if t.Tok == token.DEC {
								op = "-="
							}
							emit("incdec", off(t.Pos()), off(t.End()), txt(t.X)+" "+op+" 1", fn)
						}
					}
					return true
				})
				continue
			}
			ast.Inspect(fd.Body, func(nd ast.Node) bool {
				switch t := nd.(type) {
				case *ast.BlockStmt:
					for _, s := range t.List {
						switch st := s.(type) {
						case *ast.ExprStmt, *ast.IncDecStmt, *ast.DeferStmt, *ast.GoStmt:
							emit("del", off(s.Pos()), off(s.End()), "", fn)
						case *ast.AssignStmt:
							if st.Tok != token.DEFINE {
								emit("del", off(s.Pos()), off(s.End()), "", fn)
							}
						case *ast.IfStmt:
							if st.Else == nil {
								emit("delif", off(s.Pos()), off(s.End()), "", fn)
							}
						}
					}
				case *ast.CaseClause:
					for _, s := range t.Body {
						switch st := s.(type) {
						case *ast.ExprStmt, *ast.IncDecStmt:
							emit("del", off(s.Pos()), off(s.End()), "", fn)
						case *ast.AssignStmt:
							if st.Tok != token.DEFINE {
								emit("del", off(s.Pos()), off(s.End()), "", fn)
							}
						}
					}
				case *ast.BinaryExpr:
					flips := map[token.Token][]string{
						token.LSS: {"<="}, token.LEQ: {"<"}, token.GTR: {">="}, token.GEQ: {">"},
						token.EQL: {"!="}, token.NEQ: {"=="}, token.LAND: {"||"}, token.LOR: {"&&"},
					}
					if rs, ok := flips[t.Op]; ok {
						ops := off(t.OpPos)
						for _, r := range rs {
							emit("op", ops, ops+len(t.Op.String()), r, fn)
						}
					}
				}
				return true
			})
		}
	}
	if *combine != "" {
		groups := map[string][]rawEdit{}
		var order []string
		for _, r := range raws {
			k := r.kind
			if *combine == "file" || *combine == "func" {
				k += "@" + r.file
			}
			if *combine == "func" {
				k += "@" + r.fn
			}
			if *only != "" && !strings.Contains(k, *only) {
				continue
			}
			if _, ok := groups[k]; !ok {
				order = append(order, k)
			}
			groups[k] = append(groups[k], r)
		}
		for _, k := range order {
			byFile := map[string][]rawEdit{}
			var files []string
			for _, r := range groups[k] {
				if _, ok := byFile[r.file]; !ok {
					files = append(files, r.file)
				}
				byFile[r.file] = append(byFile[r.file], r)
			}
			var edits []cedit
			cnt := 0
			for _, f := range files {
				src, _ := os.ReadFile(filepath.Join(*repo, f))
				es := byFile[f]
				// outermost first (ast.Inspect order), drop edits nested in an already chosen one
				var chosen []rawEdit
				for _, e := range es {
					ok := true
					for _, c := range chosen {
						if e.start < c.end && c.start < e.end {
							ok = false
						}
					}
					if ok {
						chosen = append(chosen, e)
					}
				}
				// apply back to front
				for i := 0; i < len(chosen); i++ {
					for j := i + 1; j < len(chosen); j++ {
						if chosen[j].start > chosen[i].start {
							chosen[i], chosen[j] = chosen[j], chosen[i]
						}
					}
				}
				out := string(src)
				for _, e := range chosen {
					out = out[:e.start] + e.repl + out[e.end:]
					cnt++
				}
				edits = append(edits, cedit{f, string(src), out})
			}
			n++
			id := strings.NewReplacer("/", "_", "@", "-", "*", "", ".", "_", "(", "", ")", "").Replace(k)
			m := map[string]any{"id": fmt.Sprintf("eq-%s", id), "props": []string{}, "file": edits[0].File, "find": edits[0].Find, "replace": edits[0].Replace,
				"edits": edits[1:], "kind": "equiv", "line": 0, "text": fmt.Sprintf("%d edits: %s", cnt, k), "func": k, "control": true}
			b, _ := json.Marshal(m)
			os.WriteFile(filepath.Join(*out, m["id"].(string)+".json"), b, 0o644)
		}
	}
	fmt.Println(n, "variants")
}
