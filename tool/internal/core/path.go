package core

import (
	"fmt"
	"go/constant"
	"go/token"
	"go/types"
	"sort"
	"strings"

	"golang.org/x/tools/go/ssa"
)

// ---------------------------------------------------------------------------------------------------
// E3/E2 common machinery: forward, disjunctive, path-sensitive abstract interpretation of SSA CFGs with
// bottom-up function summaries, error facts, boolean/nil facts, conditional defers and configuration
// specialisation (DESIGN 2.1-2.3). Rules plug in through Hooks.
// ---------------------------------------------------------------------------------------------------

// AState is a rule-defined abstract state in canonical string form.
type AState = string

type ErrClass int

const (
	ClsNone    ErrClass = iota // no error result
	ClsSuccess                 // error result is nil
	ClsFailure                 // error result is non-nil
	ClsUnknown
)

func (c ErrClass) String() string {
	return [...]string{"return", "success-return", "failure-return", "unknown-return"}[c]
}

// Exit is one way a function activation can end.
type Exit struct {
	A         AState
	Cls       ErrClass
	PassParam int // >=0: class is decided by nil-ness of that parameter at the call site
	Ret       *ssa.Return
	Trace     []string // witness path (block list) - diagnosis only
	// For functions with a single bool result (predicate helpers such as `shouldSync()`): Bool is what the result is
	// known to be on this path (0 unknown, 1 true, 2 false); RetBool is the returned expression when it is not known,
	// so that a branch on the call in the caller can be learnt from as a branch on that expression.
	Bool    int8
	RetBool ssa.Value
}

// StepOut is one outcome of an instruction: new abstract state plus an optional fact about the
// instruction's result (Idx -1: the value itself, else tuple element Idx): Truth 1 = true / non-nil, 0 = false / nil.
type StepOut struct {
	A       AState
	Fact    bool
	Idx     int
	Truth   int8
	Descend bool // for calls: continue with the default callee handling from state A
}

type Hooks struct {
	Name    string
	Step    func(x *Exec, in ssa.Instruction, a AState) ([]StepOut, bool)
	Edge    func(x *Exec, iff *ssa.If, taken bool, a AState) (AState, bool)
	Const   func(x *Exec, v ssa.Value, a AState) (constant.Value, bool)
	Follow  func(fn *ssa.Function) bool
	CallCtx func(x *Exec, site ssa.CallInstruction, callee *ssa.Function) string
	// AtReturn is invoked for every exit of every analysed activation (not only the entry point).
	AtReturn func(x *Exec, e *Exit)
	// Learn is invoked for every boolean value whose truth becomes known by following a branch edge: the
	// condition itself, the operand of a negation, and - through phi aliases - the value a boolean variable was
	// assigned on the path taken (needSync := a >= b ... if needSync). It may refine the abstract state.
	Learn func(x *Exec, v ssa.Value, truth bool, a AState) AState
}

type Finding struct {
	Rule      string
	Construct string
	Msg       string
	Pos       string
	Stack     []string
	Trace     []string
}

type Engine struct {
	P        *Prog
	H        Hooks
	sums     map[string][]Exit
	inprog   map[string]bool
	Findings []Finding
	fkeys    map[string]bool
	// statistics
	Activations int
	StatesSeen  int
	Recursive   []string
	fninfo      map[*ssa.Function]*fnInfo
	MaxStates   int
	PhiFilter   func(ph *ssa.Phi) bool // non-boolean phis whose path-taken source is tracked (see Exec.Resolve)
}

func NewEngine(p *Prog, h Hooks) *Engine {
	return &Engine{P: p, H: h, sums: map[string][]Exit{}, inprog: map[string]bool{}, fkeys: map[string]bool{}, fninfo: map[*ssa.Function]*fnInfo{}, MaxStates: 200000}
}

// Exec is one function activation being analysed.
type Exec struct {
	E      *Engine
	Fn     *ssa.Function
	Ctx    string
	Parent *Exec
	Site   ssa.CallInstruction // call site in Parent
	cur    *pstate
	curBlk *ssa.BasicBlock
	Entry  AState
}

func (x *Exec) Stack() []string {
	var out []string
	for e := x; e != nil; e = e.Parent {
		s := FuncKey(e.Fn)
		if e.Site != nil {
			s += " called at " + x.E.P.InstrPos(e.Site)
		}
		out = append(out, s)
	}
	return out
}

// Root returns the outermost activation (the entry point).
func (x *Exec) Root() *Exec {
	e := x
	for e.Parent != nil {
		e = e.Parent
	}
	return e
}

// Report records a finding (deduplicated by rule+construct+pos).
func (x *Exec) Report(rule, construct, msg string, in ssa.Instruction) {
	pos := x.E.P.InstrPos(in)
	k := rule + "|" + construct + "|" + pos
	if x.E.fkeys[k] {
		return
	}
	x.E.fkeys[k] = true
	var tr []string
	if x.cur != nil {
		tr = x.cur.trace(x.E.P)
	}
	x.E.Findings = append(x.E.Findings, Finding{Rule: rule, Construct: construct, Msg: msg, Pos: pos, Stack: x.Stack(), Trace: tr})
}

// FactOf returns the known truth (1/0) of a value in the current state.
func (x *Exec) FactOf(v ssa.Value) (int8, bool) {
	if x.cur == nil {
		return 0, false
	}
	t, ok := x.cur.facts[valKey(v)]
	return t, ok
}

type pstate struct {
	a      AState
	defers []*ssa.Defer
	facts  map[string]int8
	alias  map[string]ssa.Value // phi name -> the (non-constant) boolean value it received on the path taken
	parent *pstate
	blk    *ssa.BasicBlock
}

func (s *pstate) key() string {
	var sb strings.Builder
	sb.WriteString(s.a)
	sb.WriteByte('|')
	for _, d := range s.defers {
		sb.WriteString(d.Block().String())
		sb.WriteByte('.')
		fmt.Fprintf(&sb, "%p,", d)
	}
	sb.WriteByte('|')
	ks := make([]string, 0, len(s.facts))
	for k := range s.facts {
		ks = append(ks, k)
	}
	sort.Strings(ks)
	for _, k := range ks {
		fmt.Fprintf(&sb, "%s=%d,", k, s.facts[k])
	}
	if len(s.alias) > 0 {
		as := make([]string, 0, len(s.alias))
		for k, v := range s.alias {
			as = append(as, k+"~"+v.Name())
		}
		sort.Strings(as)
		sb.WriteByte('|')
		sb.WriteString(strings.Join(as, ","))
	}
	return sb.String()
}

func (s *pstate) clone() *pstate {
	n := &pstate{a: s.a, defers: append([]*ssa.Defer(nil), s.defers...), facts: make(map[string]int8, len(s.facts)), parent: s.parent, blk: s.blk}
	for k, v := range s.facts {
		n.facts[k] = v
	}
	if len(s.alias) > 0 {
		n.alias = make(map[string]ssa.Value, len(s.alias))
		for k, v := range s.alias {
			n.alias[k] = v
		}
	}
	return n
}

func (s *pstate) trace(p *Prog) []string {
	var rev []string
	for e := s; e != nil; e = e.parent {
		if e.blk != nil {
			pos := "-"
			for _, in := range e.blk.Instrs {
				if in.Pos().IsValid() {
					pos = p.Pos(in.Pos())
					break
				}
			}
			rev = append(rev, fmt.Sprintf("b%d(%s)@%s", e.blk.Index, e.blk.Comment, pos))
		}
	}
	out := make([]string, 0, len(rev))
	for i := len(rev) - 1; i >= 0; i-- {
		if len(out) > 0 && out[len(out)-1] == rev[i] {
			continue
		}
		out = append(out, rev[i])
	}
	if len(out) > 40 {
		out = append(out[:20], append([]string{"..."}, out[len(out)-19:]...)...)
	}
	return out
}

func valKey(v ssa.Value) string {
	if e, ok := v.(*ssa.Extract); ok {
		return fmt.Sprintf("%s#%d", e.Tuple.Name(), e.Index)
	}
	return v.Name()
}

type fnInfo struct {
	reach   map[*ssa.BasicBlock]map[*ssa.BasicBlock]bool
	useBlks map[string]map[*ssa.BasicBlock]bool // valKey -> blocks containing a use
}

func (e *Engine) info(fn *ssa.Function) *fnInfo {
	if fi, ok := e.fninfo[fn]; ok {
		return fi
	}
	fi := &fnInfo{reach: map[*ssa.BasicBlock]map[*ssa.BasicBlock]bool{}, useBlks: map[string]map[*ssa.BasicBlock]bool{}}
	for _, b := range fn.Blocks {
		r := map[*ssa.BasicBlock]bool{}
		var walk func(x *ssa.BasicBlock)
		walk = func(x *ssa.BasicBlock) {
			if r[x] {
				return
			}
			r[x] = true
			for _, s := range x.Succs {
				walk(s)
			}
		}
		walk(b)
		fi.reach[b] = r
	}
	add := func(k string, b *ssa.BasicBlock) {
		m := fi.useBlks[k]
		if m == nil {
			m = map[*ssa.BasicBlock]bool{}
			fi.useBlks[k] = m
		}
		m[b] = true
	}
	for _, b := range fn.Blocks {
		for _, in := range b.Instrs {
			var ops []*ssa.Value
			for _, op := range in.Operands(ops) {
				if *op == nil {
					continue
				}
				add(valKey(*op), b)
				// a use of an Extract's consumer chain: "x != nil" uses x; nothing more needed
			}
			if ph, ok := in.(*ssa.Phi); ok {
				// phi operands are used on the incoming edges: attribute to predecessor blocks
				for i, ed := range ph.Edges {
					if i < len(b.Preds) {
						add(valKey(ed), b.Preds[i])
					}
				}
			}
		}
	}
	e.fninfo[fn] = fi
	return fi
}

func (e *Engine) pruneFacts(fn *ssa.Function, b *ssa.BasicBlock, s *pstate) {
	fi := e.info(fn)
	for k := range s.facts {
		live := false
		for ub := range fi.useBlks[k] {
			if fi.reach[b][ub] {
				live = true
				break
			}
		}
		if !live {
			delete(s.facts, k)
		}
	}
}

// TrackPhi: should the engine remember which incoming value a (non-boolean) phi received on the path taken?
func (e *Engine) TrackPhi(ph *ssa.Phi) bool {
	return e.PhiFilter != nil && e.PhiFilter(ph)
}

// Resolve follows phi aliases of the current state: the value a phi actually received on the path taken.
func (x *Exec) Resolve(v ssa.Value) ssa.Value {
	for i := 0; i < 8; i++ {
		ph, ok := v.(*ssa.Phi)
		if !ok || x.cur == nil || x.cur.alias == nil {
			return v
		}
		src, ok := x.cur.alias[valKey(ph)]
		if !ok {
			return v
		}
		v = src
	}
	return v
}

// Run analyses fn as an entry point from abstract state a.
func (e *Engine) Run(fn *ssa.Function, a AState, ctx string) []Exit {
	return e.summary(nil, nil, fn, a, ctx)
}

func (e *Engine) summary(parent *Exec, site ssa.CallInstruction, fn *ssa.Function, a AState, ctx string) []Exit {
	key := fmt.Sprintf("%p|%s|%s", fn, a, ctx)
	if s, ok := e.sums[key]; ok {
		return s
	}
	if e.inprog[key] {
		e.Recursive = append(e.Recursive, FuncKey(fn))
		return nil
	}
	e.inprog[key] = true
	x := &Exec{E: e, Fn: fn, Ctx: ctx, Parent: parent, Site: site, Entry: a}
	exits := x.run(a)
	delete(e.inprog, key)
	e.sums[key] = exits
	e.Activations++
	return exits
}

type workItem struct {
	b *ssa.BasicBlock
	s *pstate
}

func (x *Exec) run(a AState) []Exit {
	fn := x.Fn
	if len(fn.Blocks) == 0 {
		return []Exit{{A: a, Cls: ClsUnknown, PassParam: -1}}
	}
	seen := map[string]bool{}
	var exits []Exit
	exitSeen := map[string]bool{}
	start := &pstate{a: a, facts: map[string]int8{}, blk: fn.Blocks[0]}
	work := []workItem{{fn.Blocks[0], start}}
	seen[fmt.Sprintf("%d|%s", 0, start.key())] = true
	for len(work) > 0 {
		it := work[len(work)-1]
		work = work[:len(work)-1]
		x.E.StatesSeen++
		if x.E.StatesSeen > x.E.MaxStates {
			Failf("path engine %s: state budget exceeded in %s", x.E.H.Name, FuncKey(fn))
		}
		states := []*pstate{it.s}
		b := it.b
		x.curBlk = b
		for idx, in := range b.Instrs {
			if len(states) == 0 {
				break
			}
			switch t := in.(type) {
			case *ssa.If:
				for _, s := range states {
					x.cur = s
					truth, known := x.evalBool(t.Cond, s)
					for _, taken := range []bool{true, false} {
						if known && truth != taken {
							continue
						}
						ns := s.clone()
						x.learn(t.Cond, taken, ns)
						if x.E.H.Edge != nil {
							x.cur = ns
							na, ok := x.E.H.Edge(x, t, taken, ns.a)
							if !ok {
								continue
							}
							ns.a = na
						}
						succ := b.Succs[0]
						if !taken {
							succ = b.Succs[1]
						}
						x.enter(b, succ, ns, &work, seen)
					}
				}
				states = nil
			case *ssa.Jump:
				for _, s := range states {
					x.enter(b, b.Succs[0], s.clone(), &work, seen)
				}
				states = nil
			case *ssa.Return:
				for _, s := range states {
					x.cur = s
					ex := x.classify(t, s)
					ex.Trace = s.trace(x.E.P)
					if x.E.H.AtReturn != nil {
						x.E.H.AtReturn(x, &ex)
					}
					k := fmt.Sprintf("%s|%d|%d|%p|%d", ex.A, ex.Cls, ex.PassParam, ex.Ret, ex.Bool)
					if !exitSeen[k] {
						exitSeen[k] = true
						exits = append(exits, ex)
					}
				}
				states = nil
			case *ssa.Panic:
				states = nil
			case *ssa.Defer:
				for _, s := range states {
					s.defers = append(s.defers, t)
				}
			case *ssa.RunDefers:
				var next []*pstate
				for _, s := range states {
					cur := []*pstate{s}
					ds := s.defers
					for i := len(ds) - 1; i >= 0; i-- {
						var nn []*pstate
						for _, c := range cur {
							c.defers = c.defers[:i]
							nn = append(nn, x.call(ds[i], c)...)
						}
						cur = nn
					}
					next = append(next, cur...)
				}
				states = dedup(next)
			default:
				_ = idx
				var next []*pstate
				// a value that is (re)defined here invalidates facts learnt about its previous incarnation
				// (loop iterations): facts are keyed by value name
				if _, isPhi := in.(*ssa.Phi); isPhi {
					// phi facts are (re)established on block entry
				} else if v, ok := in.(ssa.Value); ok {
					nm := v.Name()
					for _, s := range states {
						for k := range s.facts {
							if k == nm || (len(k) > len(nm) && k[:len(nm)] == nm && k[len(nm)] == '#') {
								delete(s.facts, k)
							}
						}
					}
				}
				for _, s := range states {
					next = append(next, x.step(in, s)...)
				}
				states = dedup(next)
			}
		}
	}
	x.cur = nil
	return exits
}

func dedup(ss []*pstate) []*pstate {
	if len(ss) < 2 {
		return ss
	}
	seen := map[string]bool{}
	var out []*pstate
	for _, s := range ss {
		k := s.key()
		if !seen[k] {
			seen[k] = true
			out = append(out, s)
		}
	}
	return out
}

func (x *Exec) enter(from, to *ssa.BasicBlock, s *pstate, work *[]workItem, seen map[string]bool) {
	// phi facts
	pi := -1
	for i, p := range to.Preds {
		if p == from {
			pi = i
			break
		}
	}
	type upd struct {
		k  string
		t  int8
		ok bool
	}
	var ups []upd
	for _, in := range to.Instrs {
		ph, ok := in.(*ssa.Phi)
		if !ok {
			break
		}
		if pi < 0 || pi >= len(ph.Edges) {
			continue
		}
		ed := ph.Edges[pi]
		x.cur = s
		t, known := x.truthOf(ed, s)
		ups = append(ups, upd{valKey(ph), t, known})
		if isBool(ph.Type()) || x.E.TrackPhi(ph) {
			if _, isConst := ed.(*ssa.Const); !isConst && (!known || !isBool(ph.Type())) {
				if s.alias == nil {
					s.alias = map[string]ssa.Value{}
				}
				s.alias[valKey(ph)] = ed
			} else if s.alias != nil {
				delete(s.alias, valKey(ph))
			}
		}
	}
	for _, u := range ups {
		if u.ok {
			s.facts[u.k] = u.t
		} else {
			delete(s.facts, u.k)
		}
	}
	x.E.pruneFacts(x.Fn, to, s)
	s.parent = &pstate{blk: from, parent: s.parent}
	s.blk = to
	k := fmt.Sprintf("%d|%s", to.Index, s.key())
	if seen[k] {
		return
	}
	seen[k] = true
	*work = append(*work, workItem{to, s})
}

// truthOf: 1 = true / non-nil, 0 = false / nil.
func (x *Exec) truthOf(v ssa.Value, s *pstate) (int8, bool) {
	if c, ok := v.(*ssa.Const); ok {
		if c.Value == nil {
			// nil constant (or zero value of a non-basic type)
			return 0, true
		}
		if c.Value.Kind() == constant.Bool {
			if constant.BoolVal(c.Value) {
				return 1, true
			}
			return 0, true
		}
		return 0, false
	}
	if t, ok := s.facts[valKey(v)]; ok {
		return t, true
	}
	if isBool(v.Type()) {
		if b, ok := x.evalBool(v, s); ok {
			if b {
				return 1, true
			}
			return 0, true
		}
		return 0, false
	}
	return x.nilness(v, s, 0)
}

func isBool(t types.Type) bool {
	b, ok := t.Underlying().(*types.Basic)
	return ok && b.Info()&types.IsBoolean != 0
}

// nilness of a (pointer / interface / error) value: 1 non-nil, 0 nil.
func (x *Exec) nilness(v ssa.Value, s *pstate, depth int) (int8, bool) {
	if depth > 4 {
		return 0, false
	}
	if t, ok := s.facts[valKey(v)]; ok {
		return t, true
	}
	switch u := v.(type) {
	case *ssa.Const:
		if u.Value == nil {
			return 0, true
		}
	case *ssa.MakeInterface, *ssa.Alloc, *ssa.MakeClosure, *ssa.MakeMap, *ssa.MakeSlice, *ssa.MakeChan, *ssa.FieldAddr, *ssa.IndexAddr, *ssa.Function, *ssa.Global:
		return 1, true
	case *ssa.UnOp:
		if u.Op == token.MUL {
			if g, ok := u.X.(*ssa.Global); ok && IsErrorType(u.Type()) && strings.HasPrefix(g.Name(), "Err") {
				// package-level sentinel error variables are initialised non-nil and never reassigned
				return 1, true
			}
		}
	case *ssa.Call:
		if f := u.Common().StaticCallee(); f != nil {
			switch f.String() {
			case "errors.New", "fmt.Errorf":
				return 1, true
			}
		}
	case *ssa.ChangeInterface:
		return x.nilness(u.X, s, depth+1)
	case *ssa.Phi:
		var first int8
		for i, ed := range u.Edges {
			t, ok := x.nilness(ed, s, depth+1)
			if !ok {
				return 0, false
			}
			if i == 0 {
				first = t
			} else if t != first {
				return 0, false
			}
		}
		return first, len(u.Edges) > 0
	}
	if x.E.H.Const != nil {
		if c, ok := x.E.H.Const(x, v, s.a); ok && c != nil && c.Kind() == constant.Bool {
			// rules may declare a pointer-typed value non-nil (true) / nil (false)
			if constant.BoolVal(c) {
				return 1, true
			}
			return 0, true
		}
	}
	return 0, false
}

func (x *Exec) constOf(v ssa.Value, s *pstate) (constant.Value, bool) {
	if x.E.H.Const != nil {
		if c, ok := x.E.H.Const(x, v, s.a); ok {
			return c, true
		}
	}
	switch u := v.(type) {
	case *ssa.Const:
		if u.Value != nil {
			return u.Value, true
		}
	case *ssa.Convert:
		if c, ok := x.constOf(u.X, s); ok {
			return c, true
		}
	case *ssa.ChangeType:
		return x.constOf(u.X, s)
	}
	if isBool(v.Type()) {
		if t, ok := s.facts[valKey(v)]; ok {
			return constant.MakeBool(t == 1), true
		}
	}
	return nil, false
}

func (x *Exec) evalBool(v ssa.Value, s *pstate) (bool, bool) {
	if x.E.H.Const != nil {
		if c, ok := x.E.H.Const(x, v, s.a); ok && c != nil && c.Kind() == constant.Bool {
			return constant.BoolVal(c), true
		}
	}
	if t, ok := s.facts[valKey(v)]; ok {
		return t == 1, true
	}
	switch u := v.(type) {
	case *ssa.Const:
		if u.Value != nil && u.Value.Kind() == constant.Bool {
			return constant.BoolVal(u.Value), true
		}
	case *ssa.UnOp:
		if u.Op == token.NOT {
			if b, ok := x.evalBool(u.X, s); ok {
				return !b, true
			}
		}
	case *ssa.BinOp:
		switch u.Op {
		case token.EQL, token.NEQ:
			var other ssa.Value
			if IsNilConst(u.Y) {
				other = u.X
			} else if IsNilConst(u.X) {
				other = u.Y
			}
			if other != nil {
				if t, ok := x.nilness(other, s, 0); ok {
					nonnil := t == 1
					if u.Op == token.NEQ {
						return nonnil, true
					}
					return !nonnil, true
				}
				return false, false
			}
			fallthrough
		case token.LSS, token.LEQ, token.GTR, token.GEQ:
			a, ok1 := x.constOf(u.X, s)
			b, ok2 := x.constOf(u.Y, s)
			if ok1 && ok2 && a.Kind() != constant.Unknown && b.Kind() != constant.Unknown && a.Kind() != constant.Bool {
				return constant.Compare(a, u.Op, b), true
			}
			if ok1 && ok2 && a.Kind() == constant.Bool && (u.Op == token.EQL || u.Op == token.NEQ) {
				return constant.Compare(a, u.Op, b), true
			}
		}
	}
	return false, false
}

// learn records what following the (taken) edge of cond implies.
func (x *Exec) learn(cond ssa.Value, taken bool, s *pstate) {
	t := int8(0)
	if taken {
		t = 1
	}
	if x.E.H.Learn != nil {
		x.cur = s
		s.a = x.E.H.Learn(x, cond, taken, s.a)
	}
	if cl, ok := cond.(*ssa.Call); ok && s.alias != nil && x.E.H.Learn != nil {
		// a predicate helper returned this expression: the rule learns from the branch as from a branch on it (the rule
		// hook only - engine facts are keyed by value names of the current function)
		if src, ok := s.alias[valKey(cl)]; ok && src != cond {
			x.cur = s
			s.a = x.E.H.Learn(x, src, taken, s.a)
		}
	}
	if ph, ok := cond.(*ssa.Phi); ok && s.alias != nil {
		if src, ok := s.alias[valKey(ph)]; ok && src != cond {
			x.learn(src, taken, s)
		}
	}
	switch u := cond.(type) {
	case *ssa.UnOp:
		if u.Op == token.NOT {
			x.learn(u.X, !taken, s)
			return
		}
	case *ssa.BinOp:
		if u.Op == token.EQL || u.Op == token.NEQ {
			var other ssa.Value
			if IsNilConst(u.Y) {
				other = u.X
			} else if IsNilConst(u.X) {
				other = u.Y
			}
			if other != nil {
				nonnil := taken
				if u.Op == token.EQL {
					nonnil = !taken
				}
				if nonnil {
					s.facts[valKey(other)] = 1
				} else {
					s.facts[valKey(other)] = 0
				}
			}
		}
	}
	if _, isConst := cond.(*ssa.Const); !isConst {
		s.facts[valKey(cond)] = t
	}
}

func (x *Exec) classify(ret *ssa.Return, s *pstate) Exit {
	ex := Exit{A: s.a, Cls: ClsNone, PassParam: -1, Ret: ret}
	if res := x.Fn.Signature.Results(); res.Len() == 1 {
		if bt, ok := res.At(0).Type().Underlying().(*types.Basic); ok && bt.Kind() == types.Bool {
			rv := ReturnOperand(ret, 0)
			if b, known := x.evalBool(rv, s); known {
				ex.Bool = 2
				if b {
					ex.Bool = 1
				}
			} else {
				ex.RetBool = rv
			}
		}
	}
	ei := ErrResultIndex(x.Fn.Signature)
	if ei < 0 {
		return ex
	}
	v := ReturnOperand(ret, ei)
	if p, ok := v.(*ssa.Parameter); ok {
		if _, known := s.facts[valKey(v)]; !known {
			for i, pp := range x.Fn.Params {
				if pp == p {
					ex.PassParam = i
					ex.Cls = ClsUnknown
					return ex
				}
			}
		}
	}
	t, ok := x.nilness(v, s, 0)
	switch {
	case !ok:
		ex.Cls = ClsUnknown
	case t == 0:
		ex.Cls = ClsSuccess
	default:
		ex.Cls = ClsFailure
	}
	return ex
}

func (x *Exec) step(in ssa.Instruction, s *pstate) []*pstate {
	x.cur = s
	if x.E.H.Step != nil {
		outs, handled := x.E.H.Step(x, in, s.a)
		if handled {
			return x.applyOuts(in, s, outs)
		}
	}
	if ci, ok := in.(ssa.CallInstruction); ok {
		if _, isGo := in.(*ssa.Go); isGo {
			return []*pstate{s}
		}
		return x.callDefault(ci, s)
	}
	return []*pstate{s}
}

func (x *Exec) applyOuts(in ssa.Instruction, s *pstate, outs []StepOut) []*pstate {
	var res []*pstate
	for _, o := range outs {
		ns := s.clone()
		ns.a = o.A
		if o.Fact {
			if v, ok := in.(ssa.Value); ok {
				k := v.Name()
				if o.Idx >= 0 {
					k = fmt.Sprintf("%s#%d", v.Name(), o.Idx)
				}
				ns.facts[k] = o.Truth
			}
		}
		if o.Descend {
			if ci, ok := in.(ssa.CallInstruction); ok {
				res = append(res, x.callDefault(ci, ns)...)
				continue
			}
		}
		res = append(res, ns)
	}
	return res
}

// call processes a call instruction (plain or deferred) in state s.
func (x *Exec) call(ci ssa.CallInstruction, s *pstate) []*pstate {
	x.cur = s
	if x.E.H.Step != nil {
		outs, handled := x.E.H.Step(x, ci, s.a)
		if handled {
			return x.applyOuts(ci, s, outs)
		}
	}
	return x.callDefault(ci, s)
}

func (x *Exec) callDefault(ci ssa.CallInstruction, s *pstate) []*pstate {
	callees := x.E.P.Callees(ci)
	var followed []*ssa.Function
	for _, c := range callees {
		if c.Blocks != nil && (x.E.H.Follow == nil || x.E.H.Follow(c)) {
			followed = append(followed, c)
		}
	}
	if len(followed) == 0 {
		return []*pstate{s}
	}
	var res []*pstate
	v, isVal := ci.(ssa.Value)
	for _, c := range followed {
		ctx := ""
		if x.E.H.CallCtx != nil {
			ctx = x.E.H.CallCtx(x, ci, c)
		}
		exits := x.E.summary(x, ci, c, s.a, ctx)
		x.cur = s
		ei := ErrResultIndex(c.Signature)
		for _, ex := range exits {
			ns := s.clone()
			ns.a = ex.A
			cls := ex.Cls
			if ex.PassParam >= 0 {
				args := ci.Common().Args
				ai := ex.PassParam
				if ci.Common().IsInvoke() {
					ai-- // receiver is not in Args for invoke
				}
				cls = ClsUnknown
				if ai >= 0 && ai < len(args) {
					if t, ok := x.nilness(args[ai], s, 0); ok {
						if t == 1 {
							cls = ClsFailure
						} else {
							cls = ClsSuccess
						}
					}
				}
			}
			if isVal && ex.Bool != 0 {
				ns.facts[v.Name()] = 2 - ex.Bool // 1 -> true(1), 2 -> false(0)
			} else if isVal && ex.RetBool != nil {
				if ns.alias == nil {
					ns.alias = map[string]ssa.Value{}
				}
				ns.alias[valKey(v)] = ex.RetBool
			}
			if isVal && ei >= 0 && (cls == ClsSuccess || cls == ClsFailure) {
				k := v.Name()
				if c.Signature.Results().Len() > 1 {
					k = fmt.Sprintf("%s#%d", v.Name(), ei)
				}
				if cls == ClsFailure {
					ns.facts[k] = 1
				} else {
					ns.facts[k] = 0
				}
			}
			res = append(res, ns)
		}
	}
	return dedup(res)
}
