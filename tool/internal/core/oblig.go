package core

import (
	"encoding/json"
	"fmt"
	"os"
	"path/filepath"
	"sort"
	"strings"
)

// Obligation: one rule instance keyed by rule + construct (never by line; positions are diagnosis only).
type Obligation struct {
	Rule       string   `json:"rule"`
	Construct  string   `json:"construct"`
	What       string   `json:"what"`
	Status     string   `json:"status"` // discharged | violated | undecided
	Pos        string   `json:"pos,omitempty"`
	Detail     string   `json:"detail,omitempty"`
	Path       []string `json:"path,omitempty"`
	Stack      []string `json:"stack,omitempty"`
	Nontrivial bool     `json:"nontrivial"`
	Context    string   `json:"context,omitempty"` // build context / graph that produced a non-discharged verdict
}

const (
	Discharged = "discharged"
	Violated   = "violated"
	Undecided  = "undecided"
)

// Report collects the obligations of one property check.
type Report struct {
	Property    string
	Obls        []*Obligation
	byKey       map[string]*Obligation
	Rules       map[string]string // rule -> one-line description
	Tables      []string          // frozen table rows consulted
	Assumptions []string
	NotCovered  []string
	Notes       []string
	Stats       map[string]int
}

func NewReport(prop string) *Report {
	return &Report{Property: prop, byKey: map[string]*Obligation{}, Rules: map[string]string{}, Stats: map[string]int{}}
}

func (r *Report) Rule(name, desc string) { r.Rules[name] = desc }

// Add registers an obligation; a second Add with the same rule+construct merges (worst status wins).
func (r *Report) Add(o Obligation) *Obligation {
	k := o.Rule + "|" + o.Construct
	if old, ok := r.byKey[k]; ok {
		if rank(o.Status) > rank(old.Status) {
			old.Status, old.Detail, old.Pos, old.Path, old.Stack = o.Status, o.Detail, o.Pos, o.Path, o.Stack
		} else if o.Status == old.Status && o.Status != Discharged && o.Detail != "" && !strings.Contains(old.Detail, o.Detail) {
			old.Detail += " ;; " + o.Detail
		}
		old.Nontrivial = old.Nontrivial || o.Nontrivial
		return old
	}
	c := o
	r.byKey[k] = &c
	r.Obls = append(r.Obls, &c)
	return &c
}

func rank(s string) int {
	switch s {
	case Violated:
		return 2
	case Undecided:
		return 1
	}
	return 0
}

func (r *Report) OK(rule, construct, what, pos string, nontrivial bool) {
	r.Add(Obligation{Rule: rule, Construct: construct, What: what, Status: Discharged, Pos: pos, Nontrivial: nontrivial})
}

func (r *Report) Bad(rule, construct, what, pos, detail string) *Obligation {
	return r.Add(Obligation{Rule: rule, Construct: construct, What: what, Status: Violated, Pos: pos, Detail: detail, Nontrivial: true})
}

func (r *Report) Unk(rule, construct, what, pos, detail string) *Obligation {
	return r.Add(Obligation{Rule: rule, Construct: construct, What: what, Status: Undecided, Pos: pos, Detail: detail, Nontrivial: true})
}

// Check adds a discharged or violated obligation depending on ok.
func (r *Report) Check(ok bool, rule, construct, what, pos, detail string, nontrivial bool) {
	if ok {
		r.OK(rule, construct, what, pos, nontrivial)
	} else {
		r.Bad(rule, construct, what, pos, detail)
	}
}

// Vacuity guard: the rule must have found at least n instances matching prefix.
func (r *Report) Require(rule, constructPrefix string, n int, why string) {
	c := 0
	for _, o := range r.Obls {
		if o.Rule == rule && strings.HasPrefix(o.Construct, constructPrefix) {
			c++
		}
	}
	if c < n {
		Failf("vacuity guard: rule %s matched %d instance(s) of %q, expected at least %d (%s)", rule, c, constructPrefix, n, why)
	}
}

func (r *Report) Sorted() []*Obligation {
	out := append([]*Obligation(nil), r.Obls...)
	sort.SliceStable(out, func(i, j int) bool {
		if out[i].Rule != out[j].Rule {
			return out[i].Rule < out[j].Rule
		}
		return out[i].Construct < out[j].Construct
	})
	return out
}

// ---- known findings ---------------------------------------------------------------------------

type KnownFinding struct {
	Property  string `json:"property"`
	Rule      string `json:"rule"`
	Construct string `json:"construct"`
	What      string `json:"what"`
}

type KnownFile struct {
	Comment string         `json:"_comment"`
	Known   []KnownFinding `json:"known"`
	Fixed   []string       `json:"fixed"`
}

func LoadKnown(path string) *KnownFile {
	b, err := os.ReadFile(path)
	if err != nil {
		Failf("known findings file: %v", err)
	}
	var k KnownFile
	if err := json.Unmarshal(b, &k); err != nil {
		Failf("known findings file: %v", err)
	}
	return &k
}

func (k *KnownFile) Match(prop string, o *Obligation) *KnownFinding {
	for i := range k.Known {
		f := &k.Known[i]
		if f.Property == prop && f.Rule == o.Rule && f.Construct == o.Construct {
			return f
		}
	}
	return nil
}

// ---- evidence -----------------------------------------------------------------------------------

type RunInfo struct {
	Tier     string
	Seed     int
	WallS    float64
	Cmd      string
	Contexts []string // "linux/amd64 vta", ...
	Packages int
	AllPkgs  int
	Funcs    int
	CGNodes  int
	CGEdges  int
	LibFuncs int
	Selftest map[string]any
}

// WriteEvidence writes /verif/evidence/<id>.json per EVIDENCE.schema.json (level "other").
func WriteEvidence(dir string, r *Report, ri RunInfo, violations, knownHits int) string {
	if r.Assumptions == nil {
		r.Assumptions = []string{}
	}
	if r.Tables == nil {
		r.Tables = []string{}
	}
	if r.NotCovered == nil {
		r.NotCovered = []string{}
	}
	if r.Notes == nil {
		r.Notes = []string{}
	}
	r.Assumptions = append(r.Assumptions, "the rules decide the structural S-clauses only; a tree on which every check passes can still violate the behavioural B-clauses listed under not_covered",
		"no points-to analysis: object identity is by SSA value + access path; two loads of one location inside a function are taken to see the same value")
	obls := r.Sorted()
	total, dis, nontriv := len(obls), 0, 0
	distinct := map[string]bool{}
	var samples []any
	for _, o := range obls {
		if o.Status == Discharged {
			dis++
		}
		if o.Nontrivial && !distinct[o.Rule+"|"+o.Construct] {
			distinct[o.Rule+"|"+o.Construct] = true
			nontriv++
		}
		samples = append(samples, o)
	}
	var rules []string
	for k, v := range r.Rules {
		rules = append(rules, k+": "+v)
	}
	sort.Strings(rules)
	expl := fmt.Sprintf("Static analysis of the type-checked program (go/packages + go/ssa + %s). Decides the structural S-clauses of %s on every path / call site / sibling implementation the rules range over; the behavioural B-clauses are NOT decided (see not_covered). Rules applied: %s",
		strings.Join(ri.Contexts, ", "), r.Property, strings.Join(rules, " || "))
	cov := map[string]any{
		"explanation":         expl,
		"obligations":         total,
		"discharged":          dis,
		"evaluations":         total,
		"distinct_nontrivial": nontriv,
		"rule":                "one obligation per rule instance (rule + construct: entry point / call site / scenario / sibling implementation); non-trivial = its verdict needed a path, flow, lockset or agreement argument rather than a table lookup; distinct by rule+construct",
		"samples":             samples,
		"exhaustive":          true,
		"checker_cmd":         ri.Cmd,
		"trusted_base":        []string{"go/types, go/ssa, go/callgraph (x/tools v0.29.0)", "the rule implementations in /verif/tool", "frozen dependency/OS facts listed under tables"},
		"rules":               r.Rules,
		"tables":              r.Tables,
		"not_covered":         r.NotCovered,
		"notes":               r.Notes,
		"build_contexts":      ri.Contexts,
		"root_packages":       ri.Packages,
		"packages_with_deps":  ri.AllPkgs,
		"functions":           ri.Funcs,
		"library_functions":   ri.LibFuncs,
		"callgraph_nodes":     ri.CGNodes,
		"callgraph_edges":     ri.CGEdges,
		"stats":               r.Stats,
		"known_finding_hits":  knownHits,
	}
	if ri.Selftest != nil {
		cov["selftest"] = ri.Selftest
	}
	ev := map[string]any{
		"property_id": r.Property,
		"tier":        ri.Tier,
		"seed":        ri.Seed,
		"level":       "other",
		"coverage":    cov,
		"assumptions": r.Assumptions,
		"wall_s":      ri.WallS,
		"violations":  violations,
	}
	_ = os.MkdirAll(dir, 0o755)
	path := filepath.Join(dir, r.Property+".json")
	b, _ := json.MarshalIndent(ev, "", " ")
	if err := os.WriteFile(path, b, 0o644); err != nil {
		Failf("write evidence: %v", err)
	}
	return path
}

// WriteReplay writes a replay file for one failing obligation.
func WriteReplay(dir, prop string, n int, o *Obligation) string {
	d := filepath.Join(dir, "replay")
	_ = os.MkdirAll(d, 0o755)
	path := filepath.Join(d, fmt.Sprintf("%s-%d.json", prop, n))
	b, _ := json.MarshalIndent(map[string]any{"property": prop, "obligation": o}, "", " ")
	_ = os.WriteFile(path, b, 0o644)
	return path
}
