package core

import (
	"go/ast"
	"go/token"
	"go/types"
	"sort"

	"golang.org/x/tools/go/callgraph"
	"golang.org/x/tools/go/packages"
	"golang.org/x/tools/go/ssa"
)

func allPackages(p *Prog) []*packages.Package {
	var out []*packages.Package
	packages.Visit(p.Roots, nil, func(pk *packages.Package) { out = append(out, pk) })
	return out
}

// collectConsts calls f for every constant name declared with declared type typeName (explicitly or by
// iota-group inheritance).
func collectConsts(file *ast.File, typeName string, f func(name string)) {
	for _, d := range file.Decls {
		gd, ok := d.(*ast.GenDecl)
		if !ok || gd.Tok != token.CONST {
			continue
		}
		cur := ""
		for _, s := range gd.Specs {
			vs := s.(*ast.ValueSpec)
			if vs.Type != nil {
				if id, ok := vs.Type.(*ast.Ident); ok {
					cur = id.Name
				} else {
					cur = ""
				}
			} else if len(vs.Values) > 0 {
				cur = "" // untyped new expression breaks the implicit repetition
			}
			if cur == typeName {
				for _, n := range vs.Names {
					if n.Name != "_" {
						f(n.Name)
					}
				}
			}
		}
	}
}

// Callees resolves the possible callees of a call instruction: the static callee, or the call-graph edges.
func (p *Prog) Callees(site ssa.CallInstruction) []*ssa.Function {
	if f := site.Common().StaticCallee(); f != nil {
		return []*ssa.Function{f}
	}
	fn := site.Parent()
	n := p.CG.Nodes[fn]
	if n == nil {
		return nil
	}
	seen := map[*ssa.Function]bool{}
	var out []*ssa.Function
	for _, e := range n.Out {
		if e.Site == site && e.Callee != nil && e.Callee.Func != nil && !seen[e.Callee.Func] {
			seen[e.Callee.Func] = true
			out = append(out, e.Callee.Func)
		}
	}
	sort.Slice(out, func(i, j int) bool { return out[i].String() < out[j].String() })
	return out
}

// IsInvokeOf reports whether the call is an interface-method invocation of method m.
func IsInvokeOf(c *ssa.CallCommon, m *types.Func) bool {
	return c.IsInvoke() && c.Method == m
}

// StaticCalleeIs reports whether the call statically calls the function/method with the given full name
// (as printed by (*ssa.Function).String(), e.g. "(*os.File).Sync", "os.Remove").
func StaticCalleeIs(c *ssa.CallCommon, full string) bool {
	f := c.StaticCallee()
	return f != nil && f.String() == full
}

func CalleeName(c *ssa.CallCommon) string {
	if f := c.StaticCallee(); f != nil {
		return f.String()
	}
	if c.IsInvoke() {
		return "invoke " + c.Method.FullName()
	}
	if b, ok := c.Value.(*ssa.Builtin); ok {
		return "builtin " + b.Name()
	}
	return "dynamic"
}

// FieldOfAddr: if v is &x.f (FieldAddr) returns the field var and base.
func FieldOfAddr(v ssa.Value) (*types.Var, ssa.Value) {
	fa, ok := v.(*ssa.FieldAddr)
	if !ok {
		return nil, nil
	}
	pt, ok := fa.X.Type().Underlying().(*types.Pointer)
	if !ok {
		return nil, nil
	}
	st, ok := pt.Elem().Underlying().(*types.Struct)
	if !ok {
		return nil, nil
	}
	return st.Field(fa.Field), fa.X
}

// LoadedField: if v is a load *(&x.f) or a Field extraction x.f returns the field and base.
func LoadedField(v ssa.Value) (*types.Var, ssa.Value) {
	switch u := v.(type) {
	case *ssa.UnOp:
		if u.Op == token.MUL {
			return FieldOfAddr(u.X)
		}
	case *ssa.Field:
		st, ok := u.X.Type().Underlying().(*types.Struct)
		if ok {
			return st.Field(u.Field), u.X
		}
	}
	return nil, nil
}

// FieldPath returns the chain of fields through which v is loaded from its root, outermost first:
// for *(&(*(&b.db)).activeFile) it returns [Batch.db, DB.activeFile] and the root b.
func FieldPath(v ssa.Value) ([]*types.Var, ssa.Value) {
	var path []*types.Var
	cur := v
	for {
		f, base := LoadedField(cur)
		if f == nil {
			// a bare FieldAddr (address used directly, e.g. &b.mu as receiver)
			f, base = FieldOfAddr(cur)
			if f == nil {
				break
			}
		}
		path = append([]*types.Var{f}, path...)
		cur = base
		// skip address-of-struct-field chains: &x.a.b is FieldAddr(FieldAddr(x,a),b)
	}
	return path, cur
}

// LastField returns the innermost field through which v was loaded (or whose address v is).
func LastField(v ssa.Value) *types.Var {
	if f, _ := LoadedField(v); f != nil {
		return f
	}
	f, _ := FieldOfAddr(v)
	return f
}

// StoreField: if the instruction stores to a struct field returns (field, base, value).
func StoreField(in ssa.Instruction) (*types.Var, ssa.Value, ssa.Value) {
	st, ok := in.(*ssa.Store)
	if !ok {
		return nil, nil, nil
	}
	f, base := FieldOfAddr(st.Addr)
	if f == nil {
		return nil, nil, nil
	}
	return f, base, st.Val
}

// Unwrap strips conversions that preserve identity for our purposes.
func Unwrap(v ssa.Value) ssa.Value {
	for {
		switch u := v.(type) {
		case *ssa.Convert:
			v = u.X
		case *ssa.ChangeType:
			v = u.X
		case *ssa.ChangeInterface:
			v = u.X
		case *ssa.MakeInterface:
			v = u.X
		default:
			return v
		}
	}
}

// IsNilConst reports whether v is the nil constant.
func IsNilConst(v ssa.Value) bool {
	c, ok := v.(*ssa.Const)
	return ok && c.Value == nil
}

// IsErrorType reports whether t is the built-in error interface.
func IsErrorType(t types.Type) bool {
	return types.Identical(t, types.Universe.Lookup("error").Type())
}

// ErrResultIndex returns the index of the (last) error result of sig, or -1.
func ErrResultIndex(sig *types.Signature) int {
	r := sig.Results()
	for i := r.Len() - 1; i >= 0; i-- {
		if IsErrorType(r.At(i).Type()) {
			return i
		}
	}
	return -1
}

// Reaches computes (and caches, per key) the set of functions from which some function/call satisfying
// `hit` is reachable along call-graph edges. hit is evaluated on call instructions.
func (p *Prog) Reaches(key string, hit func(site ssa.CallInstruction) bool) map[*ssa.Function]bool {
	if m, ok := p.reach[key]; ok {
		return m
	}
	direct := map[*ssa.Function]bool{}
	for fn, node := range p.CG.Nodes {
		if fn == nil || fn.Blocks == nil {
			continue
		}
		_ = node
		for _, b := range fn.Blocks {
			for _, in := range b.Instrs {
				if ci, ok := in.(ssa.CallInstruction); ok && hit(ci) {
					direct[fn] = true
				}
			}
		}
	}
	// reverse propagation
	res := map[*ssa.Function]bool{}
	var work []*ssa.Function
	for f := range direct {
		res[f] = true
		work = append(work, f)
	}
	for len(work) > 0 {
		f := work[len(work)-1]
		work = work[:len(work)-1]
		n := p.CG.Nodes[f]
		if n == nil {
			continue
		}
		for _, e := range n.In {
			c := e.Caller.Func
			if c != nil && !res[c] {
				res[c] = true
				work = append(work, c)
			}
		}
	}
	p.reach[key] = res
	return res
}

// ReachableFrom returns the functions reachable from the roots through call-graph edges, restricted by
// follow (nil = all).
func (p *Prog) ReachableFrom(roots []*ssa.Function, follow func(*ssa.Function) bool) map[*ssa.Function]bool {
	res := map[*ssa.Function]bool{}
	var work []*ssa.Function
	for _, r := range roots {
		if r != nil && !res[r] {
			res[r] = true
			work = append(work, r)
		}
	}
	for len(work) > 0 {
		f := work[len(work)-1]
		work = work[:len(work)-1]
		n := p.CG.Nodes[f]
		if n == nil {
			continue
		}
		for _, e := range n.Out {
			c := e.Callee.Func
			if c == nil || res[c] {
				continue
			}
			if follow != nil && !follow(c) {
				continue
			}
			res[c] = true
			work = append(work, c)
		}
		// closures created here are reachable too (they may be called through variables)
		for _, b := range f.Blocks {
			for _, in := range b.Instrs {
				if mc, ok := in.(*ssa.MakeClosure); ok {
					if cf, ok := mc.Fn.(*ssa.Function); ok && !res[cf] && (follow == nil || follow(cf)) {
						res[cf] = true
						work = append(work, cf)
					}
				}
			}
		}
	}
	return res
}

var _ = callgraph.CalleesOf

// SortedFuncs sorts functions by name for deterministic output.
func SortedFuncs(m map[*ssa.Function]bool) []*ssa.Function {
	var out []*ssa.Function
	for f := range m {
		out = append(out, f)
	}
	sort.Slice(out, func(i, j int) bool { return out[i].String() < out[j].String() })
	return out
}

// ReturnOperand resolves the value actually returned as result #i by a Return instruction, looking
// through the named-result spill go/ssa emits in functions with defer:  *t0 = v; rundefers; t = *t0; return t.
func ReturnOperand(ret *ssa.Return, i int) ssa.Value {
	if i < 0 || i >= len(ret.Results) {
		return nil
	}
	v := ret.Results[i]
	u, ok := v.(*ssa.UnOp)
	if !ok || u.Op != token.MUL {
		return v
	}
	al, ok := u.X.(*ssa.Alloc)
	if !ok {
		return v
	}
	b := ret.Block()
	// scan backwards for the last store to the alloc in this block
	seenLoad := false
	for k := len(b.Instrs) - 1; k >= 0; k-- {
		in := b.Instrs[k]
		if in == ssa.Instruction(u) {
			seenLoad = true
			continue
		}
		if !seenLoad {
			continue
		}
		if st, ok := in.(*ssa.Store); ok && st.Addr == ssa.Value(al) {
			return st.Val
		}
	}
	// not in this block: unique store in the whole function?
	var only ssa.Value
	n := 0
	for _, ref := range *al.Referrers() {
		if st, ok := ref.(*ssa.Store); ok && st.Addr == ssa.Value(al) {
			only = st.Val
			n++
		}
	}
	if n == 1 {
		return only
	}
	return v
}

// Returns lists the Return instructions of fn reachable from the entry block (the recover block is not).
func Returns(fn *ssa.Function) []*ssa.Return {
	var out []*ssa.Return
	seen := map[*ssa.BasicBlock]bool{}
	var walk func(b *ssa.BasicBlock)
	walk = func(b *ssa.BasicBlock) {
		if seen[b] {
			return
		}
		seen[b] = true
		if len(b.Instrs) > 0 {
			if r, ok := b.Instrs[len(b.Instrs)-1].(*ssa.Return); ok {
				out = append(out, r)
			}
		}
		for _, s := range b.Succs {
			walk(s)
		}
	}
	if len(fn.Blocks) > 0 {
		walk(fn.Blocks[0])
	}
	return out
}

// ReachableBlocks returns the blocks reachable from the entry (excludes the recover block).
func ReachableBlocks(fn *ssa.Function) []*ssa.BasicBlock {
	var out []*ssa.BasicBlock
	seen := map[*ssa.BasicBlock]bool{}
	var walk func(b *ssa.BasicBlock)
	walk = func(b *ssa.BasicBlock) {
		if seen[b] {
			return
		}
		seen[b] = true
		out = append(out, b)
		for _, s := range b.Succs {
			walk(s)
		}
	}
	if len(fn.Blocks) > 0 {
		walk(fn.Blocks[0])
	}
	sort.Slice(out, func(i, j int) bool { return out[i].Index < out[j].Index })
	return out
}

// Origins resolves v to the set of values it may originate from inside its function, looking through
// phis, identity conversions, type assertions and local cells (a load of an Alloc yields every value
// stored to that Alloc - flow-insensitive store->load forwarding on one object, DESIGN 2.4).
func Origins(v ssa.Value) []ssa.Value {
	seen := map[ssa.Value]bool{}
	var out []ssa.Value
	var walk func(v ssa.Value, depth int)
	walk = func(v ssa.Value, depth int) {
		if v == nil || seen[v] {
			return
		}
		seen[v] = true
		if depth > 12 {
			out = append(out, v)
			return
		}
		switch u := v.(type) {
		case *ssa.Phi:
			for _, e := range u.Edges {
				walk(e, depth+1)
			}
			return
		case *ssa.Convert:
			walk(u.X, depth+1)
			return
		case *ssa.ChangeType:
			walk(u.X, depth+1)
			return
		case *ssa.ChangeInterface:
			walk(u.X, depth+1)
			return
		case *ssa.MakeInterface:
			walk(u.X, depth+1)
			return
		case *ssa.TypeAssert:
			walk(u.X, depth+1)
			return
		case *ssa.UnOp:
			if u.Op == token.MUL {
				if al, ok := u.X.(*ssa.Alloc); ok {
					n := 0
					for _, ref := range *al.Referrers() {
						if st, ok := ref.(*ssa.Store); ok && st.Addr == ssa.Value(al) {
							walk(st.Val, depth+1)
							n++
						}
					}
					if n > 0 {
						return
					}
				}
				if fv, ok := u.X.(*ssa.FreeVar); ok {
					// closure cell: resolve through the enclosing function's binding
					fn := fv.Parent()
					if par := fn.Parent(); par != nil {
						idx := -1
						for i, f := range fn.FreeVars {
							if f == fv {
								idx = i
							}
						}
						found := false
						for _, b := range par.Blocks {
							for _, in := range b.Instrs {
								if mc, ok := in.(*ssa.MakeClosure); ok && mc.Fn == ssa.Value(fn) && idx >= 0 && idx < len(mc.Bindings) {
									if al, ok := mc.Bindings[idx].(*ssa.Alloc); ok {
										for _, ref := range *al.Referrers() {
											if st, ok := ref.(*ssa.Store); ok && st.Addr == ssa.Value(al) {
												walk(st.Val, depth+1)
												found = true
											}
										}
									}
								}
							}
						}
						if found {
							return
						}
					}
				}
			}
		}
		out = append(out, v)
	}
	walk(v, 0)
	return out
}

// AnyOrigin reports whether some origin of v satisfies pred; AllOrigins whether all do.
func AnyOrigin(v ssa.Value, pred func(ssa.Value) bool) bool {
	for _, o := range Origins(v) {
		if pred(o) {
			return true
		}
	}
	return false
}

func AllOrigins(v ssa.Value, pred func(ssa.Value) bool) bool {
	os := Origins(v)
	if len(os) == 0 {
		return false
	}
	for _, o := range os {
		if !pred(o) {
			return false
		}
	}
	return true
}
