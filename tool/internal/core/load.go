// Package core: loading, roles, call graph, path engine, obligations.
package core

import (
	"fmt"
	"go/token"
	"go/types"
	"os"
	"sort"
	"strings"
	"time"

	"golang.org/x/tools/go/callgraph"
	"golang.org/x/tools/go/callgraph/cha"
	"golang.org/x/tools/go/callgraph/vta"
	"golang.org/x/tools/go/packages"
	"golang.org/x/tools/go/ssa"
	"golang.org/x/tools/go/ssa/ssautil"
)

const ModPath = "github.com/XiXi-2024/xixi-kv"

// LoadOpts selects the tree and build context to analyse.
type LoadOpts struct {
	Dir     string            // repository root
	GOARCH  string            // "" = host
	Overlay map[string][]byte // abs path -> content (variants; nothing is written to disk)
	CHA     bool              // use the CHA graph instead of VTA
}

// Prog is the resolved program every rule works on.
type Prog struct {
	Opts     LoadOpts
	Fset     *token.FileSet
	Roots    []*packages.Package
	AllPkgs  int
	SSA      *ssa.Program
	CG       *callgraph.Graph
	Graph    string // "vta" or "cha"
	pkgByPth map[string]*ssa.Package
	R        *Roles
	reach    map[string]map[*ssa.Function]bool
	NumFuncs int
}

// ToolFailure is a failure of the analyser itself (exit 2), never a verdict.
type ToolFailure struct{ Msg string }

func (t *ToolFailure) Error() string { return "tool failure: " + t.Msg }

func Failf(format string, a ...any) { panic(&ToolFailure{Msg: fmt.Sprintf(format, a...)}) }

func Load(o LoadOpts) *Prog {
	env := []string{}
	for _, e := range os.Environ() {
		if strings.HasPrefix(e, "GOWORK=") || strings.HasPrefix(e, "GOFLAGS=") || strings.HasPrefix(e, "GOARCH=") ||
			strings.HasPrefix(e, "GOPROXY=") || strings.HasPrefix(e, "GOSUMDB=") || strings.HasPrefix(e, "GOTOOLCHAIN=") {
			continue
		}
		env = append(env, e)
	}
	env = append(env, "GOFLAGS=-mod=mod", "GOPROXY=off", "GOSUMDB=off", "GOWORK=off", "GOTOOLCHAIN=local", "CGO_ENABLED=0")
	if o.GOARCH != "" {
		env = append(env, "GOARCH="+o.GOARCH)
	}
	cfg := &packages.Config{
		Mode:    packages.LoadAllSyntax,
		Dir:     o.Dir,
		Env:     env,
		Overlay: o.Overlay,
		Tests:   false,
	}
	t0 := time.Now()
	tm := func(what string) {
		if os.Getenv("XKV_TIMING") != "" {
			fmt.Fprintf(os.Stderr, "[timing] %-10s %.1fs\n", what, time.Since(t0).Seconds())
		}
	}
	pkgs, err := packages.Load(cfg, "./...")
	tm("load")
	if err != nil {
		Failf("packages.Load: %v", err)
	}
	if len(pkgs) == 0 {
		Failf("no packages loaded from %s", o.Dir)
	}
	nerr := 0
	var msgs []string
	packages.Visit(pkgs, nil, func(p *packages.Package) {
		for _, e := range p.Errors {
			nerr++
			if len(msgs) < 8 {
				msgs = append(msgs, e.Error())
			}
		}
	})
	if nerr > 0 {
		Failf("%d load/type errors, e.g. %s", nerr, strings.Join(msgs, " | "))
	}
	all := 0
	packages.Visit(pkgs, nil, func(p *packages.Package) { all++ })

	prog, spkgs := ssautil.AllPackages(pkgs, ssa.InstantiateGenerics)
	prog.Build()
	tm("ssa")
	p := &Prog{Opts: o, Fset: pkgs[0].Fset, Roots: pkgs, AllPkgs: all, SSA: prog, pkgByPth: map[string]*ssa.Package{}, reach: map[string]map[*ssa.Function]bool{}}
	for i, sp := range spkgs {
		if sp == nil {
			Failf("no SSA package for %s", pkgs[i].PkgPath)
		}
	}
	for _, sp := range prog.AllPackages() {
		p.pkgByPth[sp.Pkg.Path()] = sp
	}
	fns := ssautil.AllFunctions(prog)
	p.NumFuncs = len(fns)
	canonicaliseComparisons(fns, pkgs)
	chaG := cha.CallGraph(prog)
	if o.CHA {
		p.CG = chaG
		p.Graph = "cha"
	} else {
		p.CG = vta.CallGraph(fns, chaG)
		p.Graph = "vta"
	}
	tm("callgraph")
	p.R = resolveRoles(p)
	return p
}

func (p *Prog) Pkg(path string) *ssa.Package {
	sp := p.pkgByPth[path]
	if sp == nil {
		Failf("package %s not loaded", path)
	}
	return sp
}

// InRepo reports whether fn belongs to the analysed module (library or not).
func (p *Prog) InRepo(fn *ssa.Function) bool {
	if fn == nil {
		return false
	}
	pk := fn.Package()
	if pk == nil {
		if fn.Parent() != nil {
			return p.InRepo(fn.Parent())
		}
		if o := fn.Origin(); o != nil && o != fn {
			return p.InRepo(o)
		}
		return false
	}
	pp := pk.Pkg.Path()
	return pp == ModPath || strings.HasPrefix(pp, ModPath+"/")
}

// LibPkgs are the library packages the properties talk about.
var LibPkgs = []string{ModPath, ModPath + "/datafile", ModPath + "/fio", ModPath + "/index", ModPath + "/utils", ModPath + "/datatype"}

func (p *Prog) InLib(fn *ssa.Function) bool {
	for fn != nil && fn.Package() == nil && fn.Parent() != nil {
		fn = fn.Parent()
	}
	if fn == nil || fn.Package() == nil {
		return false
	}
	pp := fn.Package().Pkg.Path()
	for _, l := range LibPkgs {
		if pp == l {
			return true
		}
	}
	return false
}

// LibFuncs returns every function with a body (incl. closures) of the library packages, sorted by position.
func (p *Prog) LibFuncs() []*ssa.Function {
	var out []*ssa.Function
	for fn := range ssautil.AllFunctions(p.SSA) {
		if fn.Blocks != nil && fn.Synthetic == "" && p.InLib(fn) {
			out = append(out, fn)
		}
	}
	sort.Slice(out, func(i, j int) bool {
		a, b := p.Fset.Position(out[i].Pos()), p.Fset.Position(out[j].Pos())
		if a.Filename != b.Filename {
			return a.Filename < b.Filename
		}
		if a.Line != b.Line {
			return a.Line < b.Line
		}
		return out[i].String() < out[j].String()
	})
	return out
}

// Pos renders a position relative to the repository root.
func (p *Prog) Pos(pos token.Pos) string {
	if !pos.IsValid() {
		return "-"
	}
	ps := p.Fset.Position(pos)
	f := ps.Filename
	if strings.HasPrefix(f, p.Opts.Dir+"/") {
		f = f[len(p.Opts.Dir)+1:]
	}
	return fmt.Sprintf("%s:%d", f, ps.Line)
}

// InstrPos finds a usable position for an instruction (falls back to neighbours / function).
func (p *Prog) InstrPos(in ssa.Instruction) string {
	if in == nil {
		return "-"
	}
	if in.Pos().IsValid() {
		return p.Pos(in.Pos())
	}
	if v, ok := in.(ssa.Value); ok {
		_ = v
	}
	b := in.Block()
	if b != nil {
		idx := -1
		for i, x := range b.Instrs {
			if x == in {
				idx = i
			}
		}
		for d := 1; d < len(b.Instrs); d++ {
			for _, j := range []int{idx - d, idx + d} {
				if j >= 0 && j < len(b.Instrs) && b.Instrs[j].Pos().IsValid() {
					return p.Pos(b.Instrs[j].Pos()) + "~"
				}
			}
		}
		return p.Pos(b.Parent().Pos()) + "~"
	}
	return "-"
}

// Method returns the SSA function of a (pointer-receiver or value) method of a named type.
func (p *Prog) Method(named *types.Named, name string) *ssa.Function {
	for _, t := range []types.Type{types.NewPointer(named), named} {
		ms := p.SSA.MethodSets.MethodSet(t)
		for i := 0; i < ms.Len(); i++ {
			if ms.At(i).Obj().Name() == name {
				return p.SSA.MethodValue(ms.At(i))
			}
		}
	}
	return nil
}

// MustMethod is Method or a tool failure.
func (p *Prog) MustMethod(named *types.Named, name string) *ssa.Function {
	f := p.Method(named, name)
	if f == nil {
		Failf("role unresolved: method %s.%s", named.Obj().Name(), name)
	}
	return f
}

func (p *Prog) Func(pkgPath, name string) *ssa.Function {
	sp := p.pkgByPth[pkgPath]
	if sp == nil {
		return nil
	}
	return sp.Func(name)
}

// canonicaliseComparisons rewrites every comparison of the analysed module's own functions that has a constant on the
// left and a non-constant on the right (`nil != err`, `0 == n`, `7 > used`) into the mirrored form with the constant on
// the right. The two forms mean the same; rules that look at the shape of a comparison are written against the form
// the repository uses throughout, and must not raise an alarm on the other (found by the mirrored-comparison control
// variants of mutgen -equiv). Swapping the two operand fields of one instruction keeps the referrer lists valid.
func canonicaliseComparisons(fns map[*ssa.Function]bool, roots []*packages.Package) {
	own := map[string]bool{}
	for _, r := range roots {
		own[r.PkgPath] = true
	}
	mir := map[token.Token]token.Token{token.LSS: token.GTR, token.LEQ: token.GEQ, token.GTR: token.LSS, token.GEQ: token.LEQ, token.EQL: token.EQL, token.NEQ: token.NEQ}
	for fn := range fns {
		pk := fn.Package()
		for f := fn; pk == nil && f.Parent() != nil; {
			f = f.Parent()
			pk = f.Package()
		}
		if pk == nil || pk.Pkg == nil || !own[pk.Pkg.Path()] {
			continue
		}
		for _, b := range fn.Blocks {
			for _, in := range b.Instrs {
				bo, ok := in.(*ssa.BinOp)
				if !ok {
					continue
				}
				m, cmp := mir[bo.Op]
				if !cmp {
					continue
				}
				_, xc := bo.X.(*ssa.Const)
				_, yc := bo.Y.(*ssa.Const)
				if xc && !yc {
					bo.X, bo.Y = bo.Y, bo.X
					bo.Op = m
				}
			}
		}
	}
}
