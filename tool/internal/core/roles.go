package core

import (
	"go/constant"
	"go/types"
	"strings"

	"golang.org/x/tools/go/ssa"
)

// Roles are the repository's concepts resolved from types and exported surface, never from internal
// helper names (DESIGN 1.2). An unresolved role is a tool failure.
type Roles struct {
	p *Prog

	DB, Batch, Iterator, Options, BatchOptions, Stat *types.Named
	DataFile, DataPos, LogRecord, DataReader         *types.Named
	ShardedIndex, IndexIterator                      *types.Named
	FileIO, MMap                                     *types.Named
	ReadWriter                                       *types.Named // interface
	IndexIface, IterIface                            *types.Named // unexported interfaces of package index

	// fields (identified by their *types.Var)
	DBMu, DBActive, DBOlder, DBIndex, DBFileLock, DBOptions, DBPool                     *types.Var
	BatchDB, BatchMu, BatchCommitted, BatchID, BatchStaged, BatchOpts                   *types.Var
	DFReadWriter, DFID, DFClosed                                                        *types.Var
	LRType, LRKey, LRValue, LRBatchID                                                   *types.Var
	PosFid, PosBlock, PosOffset, PosSize                                                *types.Var
	OptSync, OptBytesPerSync, OptFileSize, OptIOType, OptIndexType, OptShardNum, OptDir *types.Var
	BOptSync                                                                            *types.Var
	MMapMap, MMapFile, FileIOFd                                                         *types.Var
	StatDisk, StatReclaim                                                               *types.Var

	// ReadWriter interface methods
	RWWrite, RWSync, RWRead, RWClose, RWSize *types.Func
}

func (p *Prog) named(pkg, name string) *types.Named {
	sp := p.Pkg(pkg)
	o := sp.Pkg.Scope().Lookup(name)
	if o == nil {
		Failf("role unresolved: type %s.%s", pkg, name)
	}
	tn, ok := o.(*types.TypeName)
	if !ok {
		Failf("role unresolved: %s.%s is not a type", pkg, name)
	}
	n, ok := tn.Type().(*types.Named)
	if !ok {
		Failf("role unresolved: %s.%s is not a named type", pkg, name)
	}
	return n
}

// FieldBy finds the unique field of a struct type satisfying pred.
func FieldBy(n *types.Named, what string, pred func(f *types.Var) bool) *types.Var {
	st, ok := n.Underlying().(*types.Struct)
	if !ok {
		Failf("role unresolved: %s is not a struct", n.Obj().Name())
	}
	var found *types.Var
	for i := 0; i < st.NumFields(); i++ {
		if pred(st.Field(i)) {
			if found != nil {
				Failf("role ambiguous: field %s of %s (%s and %s)", what, n.Obj().Name(), found.Name(), st.Field(i).Name())
			}
			found = st.Field(i)
		}
	}
	if found == nil {
		Failf("role unresolved: field %s of %s", what, n.Obj().Name())
	}
	return found
}

// FieldByUse finds the field of n satisfying pred; when several do, the tie is broken by BEHAVIOUR: the unique
// candidate accessed (loaded / stored / address taken) in every one of the given methods of n (exported API), then -
// as a last resort - by the name hint. Adding an unrelated field of the same type to a struct therefore does not
// break role resolution.
func (p *Prog) FieldByUse(n *types.Named, what string, pred func(f *types.Var) bool, methods []string, nameHint string) *types.Var {
	st, ok := n.Underlying().(*types.Struct)
	if !ok {
		Failf("role unresolved: %s is not a struct", n.Obj().Name())
	}
	var cands []*types.Var
	for i := 0; i < st.NumFields(); i++ {
		if pred(st.Field(i)) {
			cands = append(cands, st.Field(i))
		}
	}
	if len(cands) == 0 {
		Failf("role unresolved: field %s of %s", what, n.Obj().Name())
	}
	if len(cands) == 1 {
		return cands[0]
	}
	used := func(f *types.Var, fn *ssa.Function) bool {
		if fn == nil {
			return false
		}
		for _, b := range fn.Blocks {
			for _, in := range b.Instrs {
				if fa, ok := in.(*ssa.FieldAddr); ok {
					if fv, _ := FieldOfAddr(fa); fv == f {
						return true
					}
				}
				if fl, ok := in.(*ssa.Field); ok {
					if st2, ok := fl.X.Type().Underlying().(*types.Struct); ok && st2.Field(fl.Field) == f {
						return true
					}
				}
			}
		}
		return false
	}
	var byUse []*types.Var
	for _, c := range cands {
		all := len(methods) > 0
		for _, m := range methods {
			if !used(c, p.Method(n, m)) {
				all = false
			}
		}
		if all {
			byUse = append(byUse, c)
		}
	}
	if len(byUse) == 1 {
		return byUse[0]
	}
	pool := byUse
	if len(pool) == 0 {
		pool = cands
	}
	for _, c := range pool {
		if c.Name() == nameHint {
			return c
		}
	}
	var names []string
	for _, c := range cands {
		names = append(names, c.Name())
	}
	Failf("role ambiguous: field %s of %s (%s)", what, n.Obj().Name(), strings.Join(names, ", "))
	return nil
}

func fieldNamed(n *types.Named, name string) *types.Var {
	return FieldBy(n, name, func(f *types.Var) bool { return f.Name() == name })
}

// TypeIs reports whether t prints as s (with full package paths).
func TypeIs(t types.Type, s string) bool { return types.TypeString(t, nil) == s }

func resolveRoles(p *Prog) *Roles {
	r := &Roles{p: p}
	root, df, fio, idx := ModPath, ModPath+"/datafile", ModPath+"/fio", ModPath+"/index"
	r.DB, r.Batch, r.Iterator = p.named(root, "DB"), p.named(root, "Batch"), p.named(root, "Iterator")
	r.Options, r.BatchOptions, r.Stat = p.named(root, "Options"), p.named(root, "BatchOptions"), p.named(root, "Stat")
	r.DataFile, r.DataPos, r.LogRecord, r.DataReader = p.named(df, "DataFile"), p.named(df, "DataPos"), p.named(df, "LogRecord"), p.named(df, "DataReader")
	r.ShardedIndex, r.IndexIterator = p.named(idx, "ShardedIndex"), p.named(idx, "IndexIterator")
	r.FileIO, r.MMap, r.ReadWriter = p.named(fio, "FileIO"), p.named(fio, "MMap"), p.named(fio, "ReadWriter")

	// unexported interfaces of package index: found by shape (interface types declared in the package whose
	// method set is implemented by >= 2 struct types of the package)
	for _, name := range p.Pkg(idx).Pkg.Scope().Names() {
		tn, ok := p.Pkg(idx).Pkg.Scope().Lookup(name).(*types.TypeName)
		if !ok || tn.IsAlias() {
			continue
		}
		n, ok := tn.Type().(*types.Named)
		if !ok {
			continue
		}
		it, ok := n.Underlying().(*types.Interface)
		if !ok {
			continue
		}
		hasPosArg := false // the container interface has a method taking (key []byte, pos *DataPos)
		for i := 0; i < it.NumMethods(); i++ {
			sig := it.Method(i).Type().(*types.Signature)
			if sig.Params().Len() == 2 {
				hasPosArg = true
			}
		}
		if hasPosArg {
			r.IndexIface = n
		} else {
			r.IterIface = n
		}
	}
	if r.IndexIface == nil || r.IterIface == nil {
		Failf("role unresolved: index container / iterator interfaces")
	}

	ptrTo := func(s string) func(*types.Var) bool {
		return func(f *types.Var) bool { return TypeIs(f.Type(), s) }
	}
	r.DBMu = p.FieldByUse(r.DB, "writer lock", func(f *types.Var) bool {
		return TypeIs(f.Type(), "*sync.RWMutex") || TypeIs(f.Type(), "sync.RWMutex")
	}, []string{"Put", "Stat", "Close"}, "mu")
	r.DBActive = p.FieldByUse(r.DB, "active file", ptrTo("*"+df+".DataFile"), []string{"Sync", "Stat", "Close"}, "activeFile")
	r.DBOlder = p.FieldByUse(r.DB, "older files", ptrTo("map[uint32]*"+df+".DataFile"), []string{"Stat", "Close"}, "olderFiles")
	r.DBIndex = p.FieldByUse(r.DB, "index", ptrTo("*"+idx+".ShardedIndex"), []string{"Put", "Get"}, "index")
	r.DBFileLock = p.FieldByUse(r.DB, "dir lock", ptrTo("*github.com/gofrs/flock.Flock"), nil, "fileLock")
	r.DBOptions = p.FieldByUse(r.DB, "options", ptrTo(root+".Options"), []string{"Backup"}, "options")
	r.DBPool = p.FieldByUse(r.DB, "record pool", ptrTo("*sync.Pool"), []string{"Put", "Delete"}, "recordPool")

	r.BatchDB = p.FieldByUse(r.Batch, "db", ptrTo("*"+root+".DB"), []string{"Commit"}, "db")
	r.BatchMu = p.FieldByUse(r.Batch, "mutex", func(f *types.Var) bool {
		return TypeIs(f.Type(), "sync.RWMutex") || TypeIs(f.Type(), "sync.Mutex") || TypeIs(f.Type(), "*sync.RWMutex")
	}, []string{"Put", "Get", "Commit"}, "mu")
	r.BatchCommitted = p.FieldByUse(r.Batch, "committed flag", ptrTo("bool"), []string{"Put", "Get", "Commit"}, "committed")
	// batch id: the Batch field whose value is stored into LogRecord.BatchID by a Batch method (whatever its type)
	r.BatchID = nil
	for _, fn := range p.LibFuncs() {
		if RecvNamed(fn) != r.Batch {
			continue
		}
		for _, b := range fn.Blocks {
			for _, in := range b.Instrs {
				if f, _, val := StoreField(in); f != nil && f.Name() == "BatchID" {
					if bf := LastField(Unwrap(val)); bf != nil {
						st := r.Batch.Underlying().(*types.Struct)
						for i := 0; i < st.NumFields(); i++ {
							if st.Field(i) == bf {
								r.BatchID = bf
							}
						}
					}
				}
			}
		}
	}
	if r.BatchID == nil {
		r.BatchID = p.FieldByUse(r.Batch, "batch id", func(f *types.Var) bool { return f.Name() == "batchID" }, nil, "batchID")
	}
	r.BatchStaged = p.FieldByUse(r.Batch, "staged", ptrTo("[]*"+df+".LogRecord"), []string{"Commit"}, "staged")
	r.BatchOpts = p.FieldByUse(r.Batch, "options", ptrTo(root+".BatchOptions"), nil, "options")

	r.DFReadWriter = fieldNamed(r.DataFile, "ReadWriter")
	r.DFID = fieldNamed(r.DataFile, "ID")
	r.DFClosed = p.FieldByUse(r.DataFile, "closed flag", ptrTo("bool"), []string{"Close", "Sync", "ReadRecordValue", "WriteLogRecord"}, "closed")
	r.LRType, r.LRKey, r.LRValue, r.LRBatchID = fieldNamed(r.LogRecord, "Type"), fieldNamed(r.LogRecord, "Key"), fieldNamed(r.LogRecord, "Value"), fieldNamed(r.LogRecord, "BatchID")
	r.PosFid, r.PosBlock, r.PosOffset, r.PosSize = fieldNamed(r.DataPos, "Fid"), fieldNamed(r.DataPos, "BlockID"), fieldNamed(r.DataPos, "Offset"), fieldNamed(r.DataPos, "Size")
	r.OptSync, r.OptBytesPerSync, r.OptFileSize = fieldNamed(r.Options, "SyncStrategy"), fieldNamed(r.Options, "BytesPerSync"), fieldNamed(r.Options, "DataFileSize")
	r.OptIOType, r.OptIndexType, r.OptShardNum, r.OptDir = fieldNamed(r.Options, "FileIOType"), fieldNamed(r.Options, "IndexType"), fieldNamed(r.Options, "ShardNum"), fieldNamed(r.Options, "DirPath")
	r.BOptSync = fieldNamed(r.BatchOptions, "Sync")
	r.MMapMap = p.FieldByUse(r.MMap, "mapping", ptrTo("github.com/edsrzf/mmap-go.MMap"), []string{"Sync", "Read", "Write"}, "activeMap")
	r.MMapFile = p.FieldByUse(r.MMap, "file", ptrTo("*os.File"), []string{"Close"}, "file")
	r.FileIOFd = p.FieldByUse(r.FileIO, "fd", ptrTo("*os.File"), []string{"Sync", "Close", "Write"}, "fd")
	r.StatDisk, r.StatReclaim = fieldNamed(r.Stat, "DiskSize"), fieldNamed(r.Stat, "ReclaimableSize")

	it := r.ReadWriter.Underlying().(*types.Interface)
	for i := 0; i < it.NumMethods(); i++ {
		m := it.Method(i)
		switch m.Name() {
		case "Write":
			r.RWWrite = m
		case "Sync":
			r.RWSync = m
		case "Read":
			r.RWRead = m
		case "Close":
			r.RWClose = m
		case "Size":
			r.RWSize = m
		}
	}
	if r.RWWrite == nil || r.RWSync == nil || r.RWRead == nil || r.RWClose == nil || r.RWSize == nil {
		Failf("role unresolved: ReadWriter methods")
	}
	return r
}

// Impls returns the concrete named types of the library that implement iface.
func (r *Roles) Impls(iface *types.Named) []*types.Named {
	var out []*types.Named
	it := iface.Underlying().(*types.Interface)
	for _, path := range LibPkgs {
		sp := r.p.pkgByPth[path]
		if sp == nil {
			continue
		}
		sc := sp.Pkg.Scope()
		for _, name := range sc.Names() {
			tn, ok := sc.Lookup(name).(*types.TypeName)
			if !ok || tn.IsAlias() {
				continue
			}
			n, ok := tn.Type().(*types.Named)
			if !ok || n == iface {
				continue
			}
			if _, isI := n.Underlying().(*types.Interface); isI {
				continue
			}
			if types.Implements(types.NewPointer(n), it) || types.Implements(n, it) {
				out = append(out, n)
			}
		}
	}
	return out
}

// ConstsOf returns the constants declared (in pkg) with the given declared type name. Because most enum
// types of the repository are aliases (type X = byte), the declared type is taken from the declaration
// syntax: "const A T = ..." / iota groups whose first spec names T.
func (p *Prog) ConstsOf(pkgPath, typeName string) map[string]constant.Value {
	out := map[string]constant.Value{}
	var pk = (*ssa.Package)(nil)
	pk = p.Pkg(pkgPath)
	for _, rp := range allPackages(p) {
		if rp.PkgPath != pkgPath {
			continue
		}
		for _, f := range rp.Syntax {
			collectConsts(f, typeName, func(name string) {
				if c, ok := pk.Pkg.Scope().Lookup(name).(*types.Const); ok {
					out[name] = c.Val()
				}
			})
		}
	}
	if len(out) == 0 {
		Failf("role unresolved: constants of type %s.%s", pkgPath, typeName)
	}
	return out
}

// IsMethodOf reports whether fn is method `name` of named type n (pointer or value receiver).
func IsMethodOf(fn *ssa.Function, n *types.Named, name string) bool {
	if fn == nil || fn.Signature.Recv() == nil || fn.Name() != name {
		return false
	}
	return recvNamed(fn) == n
}

func recvNamed(fn *ssa.Function) *types.Named {
	if fn == nil || fn.Signature.Recv() == nil {
		return nil
	}
	t := fn.Signature.Recv().Type()
	if pt, ok := t.(*types.Pointer); ok {
		t = pt.Elem()
	}
	n, _ := t.(*types.Named)
	return n
}

// RecvNamed exposes the receiver's named type.
func RecvNamed(fn *ssa.Function) *types.Named { return recvNamed(fn) }

// FuncKey is a stable printable name of a function: (*T).M, pkg.F, or Parent$n for closures.
func FuncKey(fn *ssa.Function) string {
	if fn == nil {
		return "<nil>"
	}
	s := fn.String()
	s = strings.ReplaceAll(s, ModPath+"/", "")
	s = strings.ReplaceAll(s, ModPath, "xixi_kv")
	return s
}
