package rules

import (
	"fmt"
	"go/token"
	"go/types"
	"sort"
	"strings"

	"golang.org/x/tools/go/ssa"

	"xkvverif/internal/core"
)

// list1Deque (C19): the list is a window of consecutive slot numbers between two cursors that start equal. Each of
// the four operations (grow / shrink at either cursor) names one slot relative to the cursor it moves. The four
// choices are consistent only as one of the two half-open conventions:
//
//	[lo, hi)  slot = cursor + min(delta, 0)   (grow-left writes lo-1, shrink-left reads lo, grow-right writes hi, shrink-right reads hi-1)
//	(lo, hi]  slot = cursor + max(delta, 0)
//
// Any mixture makes the first element pushed at one end share a slot with, or be invisible from, the other end
// (cursors start equal), although each end on its own still behaves like a stack - which is all single-ended
// tests see. The rule reads the four (slot offset, cursor delta) pairs from the code and checks that one
// convention explains all of them. It decides this structural clause, not the popped values themselves.
func list1Deque(p *core.Prog, rep *core.Report) {
	rep.Rule("LIST1", "deque window convention: every site that derives a slot number from a cursor field it also moves by +-1 uses slot = cursor + min(delta,0) at all sites, or slot = cursor + max(delta,0) at all sites; both cursors are initialised to the same constant")
	inPkg := func(fn *ssa.Function) bool {
		return fn.Package() != nil && fn.Package().Pkg.Path() == core.ModPath+"/datatype"
	}
	// leaf: v == load(field) + c
	type leaf struct {
		f    *types.Var
		c    int64
		load *ssa.UnOp
	}
	var leaves func(v ssa.Value, d int) []leaf
	leaves = func(v ssa.Value, d int) []leaf {
		if d > 6 {
			return nil
		}
		switch t := v.(type) {
		case *ssa.Phi:
			var out []leaf
			for _, e := range t.Edges {
				out = append(out, leaves(e, d+1)...)
			}
			return out
		case *ssa.UnOp:
			if f, _ := core.LoadedField(t); f != nil && t.Op == token.MUL {
				return []leaf{{f, 0, t}}
			}
		case *ssa.BinOp:
			if t.Op != token.ADD && t.Op != token.SUB {
				return nil
			}
			if k, ok := constInt(t.Y); ok {
				var out []leaf
				for _, l := range leaves(t.X, d+1) {
					if t.Op == token.SUB {
						l.c -= k
					} else {
						l.c += k
					}
					out = append(out, l)
				}
				return out
			}
			if k, ok := constInt(t.X); ok && t.Op == token.ADD {
				var out []leaf
				for _, l := range leaves(t.Y, d+1) {
					l.c += k
					out = append(out, l)
				}
				return out
			}
		}
		return nil
	}
	isU64 := func(t types.Type) bool {
		b, ok := t.Underlying().(*types.Basic)
		return ok && (b.Kind() == types.Uint64 || b.Kind() == types.Int64)
	}
	// 1. cursor fields: 64-bit fields of a struct of package datatype that are moved both by +1 and by -1
	type upd struct {
		st    *ssa.Store
		delta int64
	}
	updates := map[*types.Var][]upd{}
	inits := map[*types.Var][]int64{}
	for _, fn := range p.LibFuncs() {
		if !inPkg(fn) {
			continue
		}
		for _, b := range fn.Blocks {
			for _, in := range b.Instrs {
				st, ok := in.(*ssa.Store)
				if !ok {
					continue
				}
				f, _, val := core.StoreField(in)
				if f == nil || !isU64(f.Type()) {
					continue
				}
				if k, ok := constInt(val); ok {
					inits[f] = append(inits[f], k)
					continue
				}
				for _, l := range leaves(val, 0) {
					if l.f == f && (l.c == 1 || l.c == -1) {
						updates[f] = append(updates[f], upd{st, l.c})
					}
				}
			}
		}
	}
	var cursors []*types.Var
	for f, us := range updates {
		up, down := false, false
		for _, u := range us {
			if u.delta > 0 {
				up = true
			} else {
				down = true
			}
		}
		if up && down {
			cursors = append(cursors, f)
		}
	}
	sort.Slice(cursors, func(i, j int) bool { return cursors[i].Pos() < cursors[j].Pos() })
	if len(cursors) != 2 {
		rep.Unk("LIST1", "cursor-fields", "two cursor fields (each moved by +1 and by -1) expected in package datatype", "", fmt.Sprintf("found %d", len(cursors)))
		return
	}
	isCursor := map[*types.Var]bool{cursors[0]: true, cursors[1]: true}
	// 2. slot sites: stores of cursor+c into a field that is not a cursor
	type site struct {
		fn     *ssa.Function
		cursor *types.Var
		off    int64
		delta  int64
		pos    string
	}
	var sites []site
	var bad []string
	for _, fn := range p.LibFuncs() {
		if !inPkg(fn) {
			continue
		}
		for _, b := range fn.Blocks {
			for _, in := range b.Instrs {
				f, _, val := core.StoreField(in)
				if f == nil || isCursor[f] || !isU64(f.Type()) {
					continue
				}
				for _, l := range leaves(val, 0) {
					if !isCursor[l.f] {
						continue
					}
					// the move of the same cursor in this function; if it happens before the load the slot is relative to the moved cursor
					var ds []upd
					for _, u := range updates[l.f] {
						if u.st.Parent() == fn {
							ds = append(ds, u)
						}
					}
					if len(ds) == 0 {
						bad = append(bad, fmt.Sprintf("%s derives a slot from %s at %s but never moves that cursor", core.FuncKey(fn), l.f.Name(), p.InstrPos(in)))
						continue
					}
					delta := ds[0].delta
					for _, u := range ds {
						if u.delta != delta {
							bad = append(bad, fmt.Sprintf("%s moves %s in both directions: the slot at %s cannot be matched to one move", core.FuncKey(fn), l.f.Name(), p.InstrPos(in)))
						}
					}
					off := l.c
					if before(ds[0].st, l.load) {
						off += delta
					}
					sites = append(sites, site{fn, l.f, off, delta, p.InstrPos(in)})
				}
			}
		}
	}
	if len(sites) < 4 {
		rep.Unk("LIST1", "slot-sites", "four slot sites (grow / shrink at both cursors) expected", "", fmt.Sprintf("found %d", len(sites)))
		return
	}
	min0 := func(d int64) int64 {
		if d < 0 {
			return d
		}
		return 0
	}
	max0 := func(d int64) int64 {
		if d > 0 {
			return d
		}
		return 0
	}
	allMin, allMax := true, true
	var desc []string
	for _, s := range sites {
		if s.off != min0(s.delta) {
			allMin = false
		}
		if s.off != max0(s.delta) {
			allMax = false
		}
		desc = append(desc, fmt.Sprintf("%s: slot=%s%+d with %s%+d at %s", core.FuncKey(s.fn), s.cursor.Name(), s.off, s.cursor.Name(), s.delta, s.pos))
	}
	sort.Strings(desc)
	if !allMin && !allMax {
		bad = append(bad, "the slot sites follow neither half-open convention consistently: "+strings.Join(desc, "; "))
	}
	rep.Check(len(bad) == 0, "LIST1", "window-convention", fmt.Sprintf("%d slot sites over cursors %s/%s follow one half-open convention", len(sites), cursors[0].Name(), cursors[1].Name()), "", strings.Join(bad, " | "), true)
	// 3. both cursors start equal
	a, b := inits[cursors[0]], inits[cursors[1]]
	okInit := len(a) > 0 && len(b) > 0
	for _, x := range a {
		for _, y := range b {
			if x != y {
				okInit = false
			}
		}
	}
	rep.Check(okInit, "LIST1", "cursors-start-equal", "both cursors are initialised to the same constant (empty window)", "", fmt.Sprintf("initial constants %v vs %v", a, b), true)
}

// before: instruction a executes before b on every path reaching b (same function).
func before(a, b ssa.Instruction) bool {
	if a.Block() == b.Block() {
		for _, in := range a.Block().Instrs {
			if in == a {
				return true
			}
			if in == b {
				return false
			}
		}
	}
	return a.Block().Dominates(b.Block())
}

// dt1ExistenceByError (C19): whether a field / member / element exists is answered by the engine's error
// (ErrKeyNotFound), never by the shape of the value: empty values are legal (set members are stored with a nil value,
// a hash field may hold ""), and the engine returns nil for them. A reply flag computed from `value == nil` or
// `len(value) == 0` is wrong exactly for those.
func dt1ExistenceByError(p *core.Prog, rep *core.Report) {
	rep.Rule("DT1", "existence is decided by the error: in package datatype the value returned by DB.Get / Batch.Get is never compared with nil, and - unless the function takes the value apart as an encoding (indexing, slicing, decoder call), where a length test is a bounds guard - its length is never compared with 0")
	getters := map[*ssa.Function]bool{p.MustMethod(p.R.DB, "Get"): true, p.MustMethod(p.R.Batch, "Get"): true}
	// decoded: the value is an encoding the function takes apart (indexed, sliced or handed to a decoder): a length
	// test on it is a bounds guard, not an existence test
	decoded := func(v ssa.Value) bool {
		for _, u := range *v.Referrers() {
			switch t := u.(type) {
			case *ssa.IndexAddr, *ssa.Slice, *ssa.Index:
				return true
			case *ssa.Call:
				if _, isB := t.Call.Value.(*ssa.Builtin); !isB {
					return true
				}
			}
		}
		return false
	}
	var bad []string
	n := 0
	for _, fn := range p.LibFuncs() {
		if fn.Package() == nil || fn.Package().Pkg.Path() != core.ModPath+"/datatype" {
			continue
		}
		for _, b := range fn.Blocks {
			for _, in := range b.Instrs {
				c, ok := in.(*ssa.Call)
				if !ok || !getters[c.Common().StaticCallee()] {
					continue
				}
				n++
				for _, r := range *c.Referrers() {
					ex, ok := r.(*ssa.Extract)
					if !ok || ex.Index != 0 {
						continue
					}
					vals := []ssa.Value{ex}
					for k := 0; k < len(vals); k++ {
						for _, u := range *vals[k].Referrers() {
							switch t := u.(type) {
							case *ssa.Phi:
								if len(vals) < 16 {
									vals = append(vals, t)
								}
							case *ssa.BinOp:
								if (t.Op == token.EQL || t.Op == token.NEQ) && (core.IsNilConst(t.X) || core.IsNilConst(t.Y)) {
									bad = append(bad, fmt.Sprintf("%s compares the value returned by Get with nil at %s", core.FuncKey(fn), p.InstrPos(t)))
								}
							case *ssa.Call:
								if bi, ok := t.Call.Value.(*ssa.Builtin); ok && bi.Name() == "len" && !decoded(vals[k]) {
									for _, lu := range *t.Referrers() {
										if bo, ok := lu.(*ssa.BinOp); ok {
											other := bo.X
											if other == ssa.Value(t) {
												other = bo.Y
											}
											if k, isC := constInt(other); isC && k == 0 {
												bad = append(bad, fmt.Sprintf("%s compares the length of the value returned by Get with 0 at %s", core.FuncKey(fn), p.InstrPos(bo)))
											}
										}
									}
								}
							}
						}
					}
				}
			}
		}
	}
	if n < 1 {
		rep.Unk("VAC", "DT1", "expected >= 5 engine Get calls in package datatype", "", fmt.Sprintf("found %d", n))
		return
	}
	rep.Check(len(bad) == 0, "DT1", "existence-by-error", fmt.Sprintf("none of the %d engine Get calls of package datatype has its value tested for nil / emptiness", n), "", strings.Join(sortedStr(bad), "; ")+": an existing entry with an empty value is reported as absent", true)
}
