package rules

import (
	"strings"

	"xkvverif/internal/core"
)

// ---- DT5: internal-key / metadata encoders build their output in memory of their own ------------------------------
//
// Seed C19-L (round 6): `binary.LittleEndian.AppendUint64(hk.key, version)` - the encoder appended to the CALLER's key
// slice. With spare capacity behind the key (the command front end hands out sub-slices of one network buffer) the
// version bytes overwrite the field argument before it is copied: the element is stored under a garbage field.
func dt5EncodersFresh(p *core.Prog, rep *core.Report) {
	rep.Rule("DT5", "encoders own their output: every []byte returned by an encode method of a key / metadata struct of package datatype originates, on every path and through every callee, from an allocation made during the call (make, append to nil or to such a buffer); a buffer that starts as a field of the receiver (the user's key, field, member) is caller-owned memory - appending to it writes behind the caller's slice")
	f := &fresher{p: p}
	n := 0
	for _, fn := range p.LibFuncs() {
		if fn.Package() == nil || fn.Package().Pkg.Path() != core.ModPath+"/datatype" || !strings.HasPrefix(fn.Name(), "encode") {
			continue
		}
		if core.RecvNamed(fn) == nil {
			continue
		}
		res := fn.Signature.Results()
		for i := 0; i < res.Len(); i++ {
			if !isByteSliceOrString(res.At(i).Type()) {
				continue
			}
			var why []string
			for _, r := range core.Returns(fn) {
				why = append(why, f.nonFresh(fn, core.ReturnOperand(r, i), 0, nil)...)
			}
			n++
			rep.Check(len(why) == 0, "DT5", "encoder-output-fresh:"+core.FuncKey(fn), "the encoded bytes live in a buffer allocated by the encoder", p.Pos(fn.Pos()), strings.Join(sortedStr(why), "; "), true)
		}
	}
	if n == 0 {
		rep.Unk("DT5", "vacuity:encoders", "at least one encode method of package datatype returns bytes", "", "no encoder found")
	}
}
