package rules

import (
	"fmt"
	"go/token"
	"go/types"
	"strings"

	"golang.org/x/tools/go/ssa"

	"xkvverif/internal/core"
)

// ---- DT5: internal-key / metadata encoders build their output in memory of their own ------------------------------
//
// Seed C19-L (round 6): `binary.LittleEndian.AppendUint64(hk.key, version)` - the encoder appended to the CALLER's key
// slice. With spare capacity behind the key (the command front end hands out sub-slices of one network buffer) the
// version bytes overwrite the field argument before it is copied: the element is stored under a garbage field.
func dt5EncodersFresh(p *core.Prog, rep *core.Report) {
	rep.Rule("DT5", "encoders own their output: every []byte returned by an encode method of a key / metadata struct of package datatype originates, on every path and through every callee, from an allocation made during the call (make, append to nil or to such a buffer); a buffer that starts as a field of the receiver (the user's key, field, member) is caller-owned memory - appending to it writes behind the caller's slice")
	f := &fresher{p: p}
	n := 0
	for _, fn := range p.LibFuncs() {
		if fn.Package() == nil || fn.Package().Pkg.Path() != core.ModPath+"/datatype" || !strings.HasPrefix(fn.Name(), "encode") {
			continue
		}
		if core.RecvNamed(fn) == nil {
			continue
		}
		res := fn.Signature.Results()
		for i := 0; i < res.Len(); i++ {
			if !isByteSliceOrString(res.At(i).Type()) {
				continue
			}
			var why []string
			for _, r := range core.Returns(fn) {
				why = append(why, f.nonFresh(fn, core.ReturnOperand(r, i), 0, nil)...)
			}
			n++
			rep.Check(len(why) == 0, "DT5", "encoder-output-fresh:"+core.FuncKey(fn), "the encoded bytes live in a buffer allocated by the encoder", p.Pos(fn.Pos()), strings.Join(sortedStr(why), "; "), true)
		}
	}
	if n == 0 {
		rep.Unk("DT5", "vacuity:encoders", "at least one encode method of package datatype returns bytes", "", "no encoder found")
	}
}

// ---- FID1: a new data file continues the id sequence of the active file ---------------------------------------------
//
// Seeds C02-L and C03-L (round 6, two agents independently): `fileID := uint32(len(db.olderFiles))`. Ids are dense only
// until the first adopted merge; afterwards the next rotation creates a file whose id lies BELOW files holding older
// data, and recovery - which replays files in ascending id order - lets stale values win.
func fid1IdsFromActive(p *core.Prog, rep *core.Report) {
	R := p.R
	rep.Rule("FID1", "file ids continue from the active file: in every function of the engine that opens a data file and stores it into the active-file field, the id handed to the constructor is, on every path, a constant (first file), the active file's own id plus a constant, or an id handed in / listed by the caller (loading); an id computed from anything else (a count of files, a length) falls below existing ids once a merge has left gaps, and recovery replays files in id order")
	n := 0
	for _, fn := range p.LibFuncs() {
		if !inRootPkg(fn) {
			continue
		}
		storesActive := false
		for _, b := range fn.Blocks {
			for _, in := range b.Instrs {
				if f, _, _ := core.StoreField(in); f == R.DBActive {
					storesActive = true
				}
			}
		}
		if !storesActive {
			continue
		}
		for _, b := range fn.Blocks {
			for _, in := range b.Instrs {
				c, ok := in.(*ssa.Call)
				if !ok {
					continue
				}
				callee := c.Common().StaticCallee()
				if callee == nil || callee.Package() == nil || callee.Package().Pkg.Path() != core.ModPath+"/datafile" {
					continue
				}
				res := callee.Signature.Results()
				if res.Len() == 0 {
					continue
				}
				pt, isPtr := res.At(0).Type().(*types.Pointer)
				if !isPtr {
					continue
				}
				if nn, ok := pt.Elem().(*types.Named); !ok || nn != R.DataFile {
					continue
				}
				// the id argument: the uint32 parameter
				for i, a := range c.Common().Args {
					bt, ok := a.Type().Underlying().(*types.Basic)
					if !ok || bt.Kind() != types.Uint32 || i >= callee.Signature.Params().Len() {
						continue
					}
					n++
					var bad []string
					seen := map[ssa.Value]bool{}
					var walk func(v ssa.Value, d int)
					walk = func(v ssa.Value, d int) {
						if v == nil || seen[v] || d > 8 {
							return
						}
						seen[v] = true
						switch t := v.(type) {
						case *ssa.Const, *ssa.Parameter:
						case *ssa.Phi:
							for _, e := range t.Edges {
								walk(e, d+1)
							}
						case *ssa.Convert:
							walk(t.X, d+1)
						case *ssa.ChangeType:
							walk(t.X, d+1)
						case *ssa.BinOp:
							_, xc := t.X.(*ssa.Const)
							_, yc := t.Y.(*ssa.Const)
							switch {
							case t.Op == token.ADD && yc:
								walk(t.X, d+1)
							case t.Op == token.ADD && xc:
								walk(t.Y, d+1)
							default:
								bad = append(bad, "computed by "+t.Op.String()+" at "+p.InstrPos(t))
							}
						case *ssa.UnOp:
							if f, base := core.LoadedField(t); f == R.DFID {
								okBase := false
								if bf, _ := core.LoadedField(base); bf == R.DBActive {
									okBase = true
								}
								for _, o := range core.Origins(base) {
									if bf, _ := core.LoadedField(o); bf == R.DBActive {
										okBase = true
									}
								}
								if !okBase {
									bad = append(bad, "id of a file other than the active one at "+p.InstrPos(t))
								}
								return
							}
							if _, isIdx := t.X.(*ssa.IndexAddr); isIdx {
								return // element of an id list (loading)
							}
							if al, isAl := t.X.(*ssa.Alloc); isAl {
								for _, o := range core.Origins(al) {
									if o != ssa.Value(al) {
										walk(o, d+1)
									}
								}
								return
							}
							bad = append(bad, "loaded from memory at "+p.InstrPos(t))
						case *ssa.Extract:
							if _, isNext := t.Tuple.(*ssa.Next); isNext {
								return // range over an id list / map of files
							}
							bad = append(bad, "result of a call at "+p.InstrPos(t))
						case *ssa.Call:
							bad = append(bad, "result of "+core.CalleeName(t.Common())+" at "+p.InstrPos(t))
						default:
							bad = append(bad, fmt.Sprintf("%T at %s", v, p.InstrPos(v.(ssa.Instruction))))
						}
					}
					walk(a, 0)
					rep.Check(len(bad) == 0, "FID1", "new-file-id:"+core.FuncKey(fn), "the id of a newly opened active file continues the active file's id", p.InstrPos(in), "the id passed to "+callee.Name()+" is "+strings.Join(sortedStr(bad), "; ")+": after a merge has left gaps in the id sequence the new file sorts below files that hold older data, and the restart scan (ascending ids) resurrects stale values", true)
				}
			}
		}
	}
	if n == 0 {
		rep.Unk("FID1", "vacuity:new-file-id", "a function that opens a data file and makes it the active one exists", "", "none found")
	}
}
