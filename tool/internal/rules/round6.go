package rules

import (
	"fmt"
	"go/token"
	"go/types"
	"strings"

	"golang.org/x/tools/go/ssa"

	"xkvverif/internal/core"
)

// ---- DT5: internal-key / metadata encoders build their output in memory of their own ------------------------------
//
// Seed C19-L (round 6): `binary.LittleEndian.AppendUint64(hk.key, version)` - the encoder appended to the CALLER's key
// slice. With spare capacity behind the key (the command front end hands out sub-slices of one network buffer) the
// version bytes overwrite the field argument before it is copied: the element is stored under a garbage field.
func dt5EncodersFresh(p *core.Prog, rep *core.Report) {
	rep.Rule("DT5", "encoders own their output: every []byte returned by an encode method of a key / metadata struct of package datatype originates, on every path and through every callee, from an allocation made during the call (make, append to nil or to such a buffer); a buffer that starts as a field of the receiver (the user's key, field, member) is caller-owned memory - appending to it writes behind the caller's slice")
	f := &fresher{p: p}
	n := 0
	for _, fn := range p.LibFuncs() {
		if fn.Package() == nil || fn.Package().Pkg.Path() != core.ModPath+"/datatype" || !strings.HasPrefix(fn.Name(), "encode") {
			continue
		}
		if core.RecvNamed(fn) == nil {
			continue
		}
		res := fn.Signature.Results()
		for i := 0; i < res.Len(); i++ {
			if !isByteSliceOrString(res.At(i).Type()) {
				continue
			}
			var why []string
			for _, r := range core.Returns(fn) {
				why = append(why, f.nonFresh(fn, core.ReturnOperand(r, i), 0, nil)...)
			}
			n++
			rep.Check(len(why) == 0, "DT5", "encoder-output-fresh:"+core.FuncKey(fn), "the encoded bytes live in a buffer allocated by the encoder", p.Pos(fn.Pos()), strings.Join(sortedStr(why), "; "), true)
		}
	}
	if n == 0 {
		rep.Unk("DT5", "vacuity:encoders", "at least one encode method of package datatype returns bytes", "", "no encoder found")
	}
}

// ---- FID1: a new data file continues the id sequence of the active file ---------------------------------------------
//
// Seeds C02-L and C03-L (round 6, two agents independently): `fileID := uint32(len(db.olderFiles))`. Ids are dense only
// until the first adopted merge; afterwards the next rotation creates a file whose id lies BELOW files holding older
// data, and recovery - which replays files in ascending id order - lets stale values win.
func fid1IdsFromActive(p *core.Prog, rep *core.Report) {
	R := p.R
	rep.Rule("FID1", "file ids continue from the active file: in every function of the engine that opens a data file and stores it into the active-file field, the id handed to the constructor is, on every path, a constant (first file), the active file's own id plus a constant, or an id handed in / listed by the caller (loading); an id computed from anything else (a count of files, a length) falls below existing ids once a merge has left gaps, and recovery replays files in id order")
	n := 0
	for _, fn := range p.LibFuncs() {
		if !inRootPkg(fn) {
			continue
		}
		storesActive := false
		for _, b := range fn.Blocks {
			for _, in := range b.Instrs {
				if f, _, _ := core.StoreField(in); f == R.DBActive {
					storesActive = true
				}
			}
		}
		if !storesActive {
			continue
		}
		for _, b := range fn.Blocks {
			for _, in := range b.Instrs {
				c, ok := in.(*ssa.Call)
				if !ok {
					continue
				}
				callee := c.Common().StaticCallee()
				if callee == nil || callee.Package() == nil || callee.Package().Pkg.Path() != core.ModPath+"/datafile" {
					continue
				}
				res := callee.Signature.Results()
				if res.Len() == 0 {
					continue
				}
				pt, isPtr := res.At(0).Type().(*types.Pointer)
				if !isPtr {
					continue
				}
				if nn, ok := pt.Elem().(*types.Named); !ok || nn != R.DataFile {
					continue
				}
				// the id argument: the uint32 parameter
				for i, a := range c.Common().Args {
					bt, ok := a.Type().Underlying().(*types.Basic)
					if !ok || bt.Kind() != types.Uint32 || i >= callee.Signature.Params().Len() {
						continue
					}
					n++
					var bad []string
					seen := map[ssa.Value]bool{}
					var walk func(v ssa.Value, d int)
					walk = func(v ssa.Value, d int) {
						if v == nil || seen[v] || d > 8 {
							return
						}
						seen[v] = true
						switch t := v.(type) {
						case *ssa.Const, *ssa.Parameter:
						case *ssa.Phi:
							for _, e := range t.Edges {
								walk(e, d+1)
							}
						case *ssa.Convert:
							walk(t.X, d+1)
						case *ssa.ChangeType:
							walk(t.X, d+1)
						case *ssa.BinOp:
							_, xc := t.X.(*ssa.Const)
							_, yc := t.Y.(*ssa.Const)
							switch {
							case t.Op == token.ADD && yc:
								walk(t.X, d+1)
							case t.Op == token.ADD && xc:
								walk(t.Y, d+1)
							default:
								bad = append(bad, "computed by "+t.Op.String()+" at "+p.InstrPos(t))
							}
						case *ssa.UnOp:
							if f, base := core.LoadedField(t); f == R.DFID {
								okBase := false
								if bf, _ := core.LoadedField(base); bf == R.DBActive {
									okBase = true
								}
								for _, o := range core.Origins(base) {
									if bf, _ := core.LoadedField(o); bf == R.DBActive {
										okBase = true
									}
								}
								if !okBase {
									bad = append(bad, "id of a file other than the active one at "+p.InstrPos(t))
								}
								return
							}
							if _, isIdx := t.X.(*ssa.IndexAddr); isIdx {
								return // element of an id list (loading)
							}
							if al, isAl := t.X.(*ssa.Alloc); isAl {
								for _, o := range core.Origins(al) {
									if o != ssa.Value(al) {
										walk(o, d+1)
									}
								}
								return
							}
							bad = append(bad, "loaded from memory at "+p.InstrPos(t))
						case *ssa.Extract:
							if _, isNext := t.Tuple.(*ssa.Next); isNext {
								return // range over an id list / map of files
							}
							bad = append(bad, "result of a call at "+p.InstrPos(t))
						case *ssa.Call:
							bad = append(bad, "result of "+core.CalleeName(t.Common())+" at "+p.InstrPos(t))
						default:
							bad = append(bad, fmt.Sprintf("%T at %s", v, p.InstrPos(v.(ssa.Instruction))))
						}
					}
					walk(a, 0)
					rep.Check(len(bad) == 0, "FID1", "new-file-id:"+core.FuncKey(fn), "the id of a newly opened active file continues the active file's id", p.InstrPos(in), "the id passed to "+callee.Name()+" is "+strings.Join(sortedStr(bad), "; ")+": after a merge has left gaps in the id sequence the new file sorts below files that hold older data, and the restart scan (ascending ids) resurrects stale values", true)
				}
			}
		}
	}
	if n == 0 {
		rep.Unk("FID1", "vacuity:new-file-id", "a function that opens a data file and makes it the active one exists", "", "none found")
	}
}

// ---- IT3: only Iterator.Close closes the merged index iterator ------------------------------------------------------
//
// Seed C10-L (round 6): the prefix filter "finished early" by closing the index iterator once the scan left the prefix
// range; Close drops the heap, and Rewind on a dropped heap returns at once - the second pass enumerates nothing.
func it3OnlyCloseCloses(p *core.Prog, rep *core.Report) {
	R := p.R
	rep.Rule("IT3", "only Close closes: the Close method of the merged index iterator is called on the index iterator a database Iterator holds only from (*Iterator).Close; any other method (or helper) of the Iterator that closes it leaves an iterator that Rewind / Seek can no longer restart")
	target := p.Method(R.IndexIterator, "Close")
	if target == nil {
		rep.Unk("IT3", "vacuity:index-iterator-close", "the merged index iterator has a Close method", "", "not found")
		return
	}
	var bad []string
	n := 0
	for _, fn := range p.LibFuncs() {
		if core.RecvNamed(fn) != R.Iterator {
			continue
		}
		for _, b := range fn.Blocks {
			for _, in := range b.Instrs {
				ci, ok := in.(ssa.CallInstruction)
				if !ok || ci.Common().StaticCallee() != target {
					continue
				}
				n++
				if fn.Name() != "Close" {
					bad = append(bad, core.FuncKey(fn)+" closes the index iterator at "+p.InstrPos(in))
				}
			}
		}
	}
	if n == 0 {
		rep.Unk("IT3", "vacuity:iterator-close-call", "(*Iterator).Close closes the index iterator", "", "no call found")
		return
	}
	rep.Check(len(bad) == 0, "IT3", "only-close-closes", "the index iterator of a database Iterator is closed only by (*Iterator).Close", "", strings.Join(sortedStr(bad), "; ")+": after that Rewind / Seek return at once and a second pass enumerates nothing", true)
}

// ---- FN2: file ids are parsed as decimal numbers -----------------------------------------------------------------------
//
// Seed C14-L (round 6): `strconv.ParseUint(name, 0, 32)` - base 0 reads the zero-padded names as octal: ids 0..7 parse
// the same, `000000008.data` is rejected and a directory with nine files no longer opens.
func fn2DecimalIds(p *core.Prog, rep *core.Report) {
	rep.Rule("FN2", "file names are parsed in base 10: in the function of the engine that lists the data directory, every strconv.ParseInt / ParseUint has the constant base 10 (strconv.Atoi is decimal by definition); names are zero-padded (FN1), so base 0 or 8 reads them as octal")
	n := 0
	for _, fn := range p.LibFuncs() {
		if !inRootPkg(fn) {
			continue
		}
		readsDir := false
		for _, b := range fn.Blocks {
			for _, in := range b.Instrs {
				if c, ok := in.(*ssa.Call); ok && core.StaticCalleeIs(c.Common(), "os.ReadDir") {
					readsDir = true
				}
			}
		}
		if !readsDir {
			continue
		}
		for _, b := range fn.Blocks {
			for _, in := range b.Instrs {
				c, ok := in.(*ssa.Call)
				if !ok {
					continue
				}
				switch {
				case core.StaticCalleeIs(c.Common(), "strconv.Atoi"):
					n++
					rep.OK("FN2", "decimal-id:"+core.FuncKey(fn), "file ids are parsed as decimal numbers", p.InstrPos(in), false)
				case core.StaticCalleeIs(c.Common(), "strconv.ParseInt"), core.StaticCalleeIs(c.Common(), "strconv.ParseUint"):
					n++
					k, isC := constInt(c.Common().Args[1])
					rep.Check(isC && k == 10, "FN2", "decimal-id:"+core.FuncKey(fn), "file ids are parsed as decimal numbers", p.InstrPos(in), fmt.Sprintf("base argument is not the constant 10 (constant: %v, value %d): zero-padded names such as 000000008 are read as octal and rejected, so a directory with nine or more files no longer opens", isC, k), false)
				}
			}
		}
	}
	if n == 0 {
		rep.Unk("FN2", "vacuity:id-parser", "the directory loader parses file ids with strconv", "", "no strconv call found in a function that lists a directory")
	}
}

// ---- CL2: a Close that refuses keeps the directory lock ----------------------------------------------------------------
//
// Seed C16-L (round 6): `if db.isMerging { return ErrMergeIsProgress }` placed BELOW the deferred release of the
// directory lock: the refused Close leaves the instance fully usable but releases the lock, so a second Open succeeds.
func cl2RefusalKeepsLock(p *core.Prog, rep *core.Report) {
	R := p.R
	rep.Rule("CL2", "a refusing Close keeps the directory lock: in DB.Close, a failure return that no call closing a data file can precede (the instance is untouched and stays usable) is not dominated by the registration of the deferred directory-lock release nor preceded by a direct release")
	cl := p.MustMethod(R.DB, "Close")
	releases := p.Reaches("flock.unlock", func(site ssa.CallInstruction) bool {
		c := site.Common().StaticCallee()
		return c != nil && strings.Contains(c.String(), "flock.Flock") && (c.Name() == "Unlock" || c.Name() == "Close")
	})
	closesFile := p.Reaches("datafile.close", func(site ssa.CallInstruction) bool {
		c := site.Common().StaticCallee()
		return c != nil && core.RecvNamed(c) == R.DataFile && c.Name() == "Close"
	})
	isRelease := func(in ssa.Instruction) bool {
		ci, ok := in.(ssa.CallInstruction)
		if !ok {
			return false
		}
		c := ci.Common().StaticCallee()
		if c == nil {
			return false
		}
		if strings.Contains(c.String(), "flock.Flock") && (c.Name() == "Unlock" || c.Name() == "Close") {
			return true
		}
		return releases[c]
	}
	isFileClose := func(in ssa.Instruction) bool {
		ci, ok := in.(ssa.CallInstruction)
		if !ok {
			return false
		}
		if _, isDefer := in.(*ssa.Defer); isDefer {
			return false
		}
		c := ci.Common().StaticCallee()
		return c != nil && ((core.RecvNamed(c) == R.DataFile && c.Name() == "Close") || closesFile[c])
	}
	nRel := 0
	var relInstrs []ssa.Instruction
	for _, b := range cl.Blocks {
		for _, in := range b.Instrs {
			if isRelease(in) {
				nRel++
				relInstrs = append(relInstrs, in)
			}
		}
	}
	if nRel == 0 {
		rep.Unk("CL2", "vacuity:close-releases", "DB.Close releases the directory lock", p.Pos(cl.Pos()), "no release found")
		return
	}
	ei := core.ErrResultIndex(cl.Signature)
	var bad []string
	for _, r := range core.Returns(cl) {
		if ei < 0 {
			continue
		}
		ev := core.ReturnOperand(r, ei)
		u, ok := ev.(*ssa.UnOp)
		if !ok {
			continue
		}
		if _, isG := u.X.(*ssa.Global); !isG {
			continue // only returns of a sentinel error value: a refusal, not a failure handed up from a callee
		}
		// can a file close precede this return?
		preceded := false
		for _, b := range cl.Blocks {
			for _, in := range b.Instrs {
				if isFileClose(in) && (before(in, r) || reachBlock(in.Block(), r.Block())) {
					preceded = true
				}
			}
		}
		if preceded {
			continue
		}
		for _, rel := range relInstrs {
			if before(rel, r) {
				bad = append(bad, "the sentinel error returned at "+p.InstrPos(r)+" refuses the Close before any file was closed, but the directory-lock release registered / made at "+p.InstrPos(rel)+" still runs")
			}
		}
	}
	rep.Check(len(bad) == 0, "CL2", "refusal-keeps-lock:"+core.FuncKey(cl), "a Close that refuses to run does not release the directory lock", p.Pos(cl.Pos()), strings.Join(sortedStr(bad), "; ")+": the instance stays usable while a second Open of the directory succeeds", true)
}

// ---- MG4: every scanned record is looked up ------------------------------------------------------------------------------
//
// Seed C06-L (round 6): `if len(logRecord.Value) == 0 { continue }` in front of the index lookup of Merge's scan loop -
// "tombstones need no lookup". A live key whose value is empty (set members, Put(k, nil)) is dropped from the merged
// files and from the hint: gone after the adopting restart.
func (m *mergeCtx) mg4EveryRecordLookedUp() {
	R := m.p.R
	m.rep.Rule("MG4", "every scanned record is looked up: in Merge's scan loop no iteration gets from the read of a record back to the next read without passing the index lookup that decides its liveness; whether a record is live is decided by the index alone, never by what the record contains (an empty value is a legal live value)")
	rw := m.rewriteCalls()
	if len(rw) == 0 {
		return
	}
	fn := rw[0].Parent()
	var rd, get ssa.Instruction
	for _, b := range fn.Blocks {
		for _, in := range b.Instrs {
			ci, ok := in.(ssa.CallInstruction)
			if !ok {
				continue
			}
			c := ci.Common().StaticCallee()
			if c == nil {
				continue
			}
			if c.Name() == "NextLogRecord" && core.RecvNamed(c) == R.DataReader {
				rd = in
			}
			if core.RecvNamed(c) == R.ShardedIndex && c.Name() == "Get" {
				get = in
			}
		}
	}
	if rd == nil || get == nil {
		m.rep.Unk("MG4", "every-record-looked-up:"+core.FuncKey(fn), "the scan loop reads records and looks each one up", m.p.Pos(fn.Pos()), "reader call or index lookup not found beside the rewriting call")
		return
	}
	// paths inside the innermost loop around the read only (the end-of-file exit leads on to the next file's reader)
	var inner map[*ssa.BasicBlock]bool
	for _, lp := range naturalLoops(fn) {
		if lp.body[rd.Block()] && (inner == nil || len(lp.body) < len(inner)) {
			inner = lp.body
		}
	}
	skip := false
	if rd.Block() != get.Block() && inner != nil {
		seen := map[*ssa.BasicBlock]bool{}
		work := append([]*ssa.BasicBlock{}, rd.Block().Succs...)
		for len(work) > 0 {
			x := work[len(work)-1]
			work = work[:len(work)-1]
			if !inner[x] || x == get.Block() || seen[x] {
				continue
			}
			if x == rd.Block() {
				skip = true
				break
			}
			seen[x] = true
			work = append(work, x.Succs...)
		}
	}
	m.rep.Check(!skip, "MG4", "every-record-looked-up:"+core.FuncKey(fn), "no iteration of the scan loop skips the index lookup", m.p.InstrPos(get), "an iteration can go from the record read at "+m.p.InstrPos(rd)+" to the next read without the index lookup at "+m.p.InstrPos(get)+": a record is discarded because of what it contains, although the index may still point at it (a live key with an empty value is lost by the merge)", true)
}
