package rules

import (
	"fmt"
	"go/constant"
	"go/token"
	"go/types"
	"strings"

	"golang.org/x/tools/go/ssa"

	"xkvverif/internal/core"
)

// ---------------------------------------------------------------------------------------------------
// Durability typestate (PS1, PS2, PS3, threshold discipline): abstract state "dck"
//   d: C clean (no write since the last successful OS flush) | D dirty
//   c: o every successful write has been added to the bytes-since-sync counter | s stale (uncounted write)
//   k: b the counter was compared with BytesPerSync and found below, after its last increase | u unchecked
// ---------------------------------------------------------------------------------------------------

type durScenario struct {
	name      string
	sync      constant.Value // Options.SyncStrategy, nil = unconstrained
	batchSync constant.Value // BatchOptions.Sync
	invActive bool           // DB.activeFile != nil (INV-ACTIVE, holds after Open)
	mapped    bool           // MMap.activeMap != nil (dirty => mapped: MMap.Write maps before copying)
	open      bool           // DataFile.closed == false (files of an open database)
}

type durability struct {
	p       *core.Prog
	rep     *core.Report
	sc      durScenario
	counter *types.Var // DB field compared with Options.BytesPerSync
	eng     *core.Engine
	rule    string
	entry   string
	// checks enabled
	checkRotate  bool
	checkCounter bool
	checkFdClose bool
	storesSeen   map[string]bool
}

const (
	osFileSync  = "(*os.File).Sync"
	mmapFlush   = "(github.com/edsrzf/mmap-go.MMap).Flush"
	osFileClose = "(*os.File).Close"
)

func isWritePrimitive(p *core.Prog, c *ssa.CallCommon) bool {
	if core.IsInvokeOf(c, p.R.RWWrite) {
		return true
	}
	if f := c.StaticCallee(); f != nil && f.Name() == "Write" {
		if n := core.RecvNamed(f); n != nil {
			for _, im := range p.R.Impls(p.R.ReadWriter) {
				if im == n {
					return true
				}
			}
		}
	}
	return false
}

func isSyncPrimitive(c *ssa.CallCommon) bool {
	return core.StaticCalleeIs(c, osFileSync) || core.StaticCalleeIs(c, mmapFlush)
}

// findCounter resolves the role "bytes appended since the last flush": the DB field compared with
// Options.BytesPerSync somewhere in the library.
func findCounter(p *core.Prog) *types.Var {
	var found *types.Var
	for _, fn := range p.LibFuncs() {
		for _, b := range fn.Blocks {
			for _, in := range b.Instrs {
				bo, ok := in.(*ssa.BinOp)
				if !ok {
					continue
				}
				switch bo.Op {
				case token.GEQ, token.GTR, token.LSS, token.LEQ:
				default:
					continue
				}
				for _, pair := range [][2]ssa.Value{{bo.X, bo.Y}, {bo.Y, bo.X}} {
					if core.LastField(core.Unwrap(pair[1])) == p.R.OptBytesPerSync {
						if f := core.LastField(core.Unwrap(pair[0])); f != nil && fieldOwner(p, f) == p.R.DB {
							if found != nil && found != f {
								core.Failf("role ambiguous: bytes-since-sync counter (%s, %s)", found.Name(), f.Name())
							}
							found = f
						}
					}
				}
			}
		}
	}
	if found == nil {
		core.Failf("role unresolved: DB field compared with Options.BytesPerSync")
	}
	return found
}

func fieldOwner(p *core.Prog, f *types.Var) *types.Named {
	for _, n := range []*types.Named{p.R.DB, p.R.Batch, p.R.DataFile, p.R.MMap, p.R.FileIO, p.R.LogRecord, p.R.DataPos, p.R.Options, p.R.BatchOptions, p.R.Stat, p.R.ShardedIndex, p.R.Iterator, p.R.DataReader} {
		st := n.Underlying().(*types.Struct)
		for i := 0; i < st.NumFields(); i++ {
			if st.Field(i) == f {
				return n
			}
		}
	}
	return nil
}

func newDurability(p *core.Prog, rep *core.Report, sc durScenario, rule string) *durability {
	d := &durability{p: p, rep: rep, sc: sc, rule: rule, storesSeen: map[string]bool{}}
	d.counter = findCounter(p)
	d.eng = core.NewEngine(p, core.Hooks{
		Name:   rule + "/" + sc.name,
		Step:   d.step,
		Learn:  d.learn,
		Const:  d.konst,
		Follow: func(fn *ssa.Function) bool { return p.InLib(fn) },
	})
	return d
}

func (d *durability) konst(x *core.Exec, v ssa.Value, a core.AState) (constant.Value, bool) {
	R := d.p.R
	if f, _ := core.LoadedField(v); f != nil {
		switch {
		case f == R.OptSync && d.sc.sync != nil:
			return d.sc.sync, true
		case f == R.BOptSync && d.sc.batchSync != nil:
			return d.sc.batchSync, true
		case f == R.DFClosed && d.sc.open:
			return constant.MakeBool(false), true
		}
	}
	// nil-ness of tracked pointer fields, expressed on the compared value itself (true = non-nil)
	if f, _ := core.LoadedField(v); f != nil {
		if (f == R.DBActive && d.sc.invActive) || (f == R.MMapMap && d.sc.mapped) {
			if _, isPtrLike := v.Type().Underlying().(*types.Basic); !isPtrLike {
				return constant.MakeBool(true), true
			}
		}
	}
	return nil, false
}

func (d *durability) learn(x *core.Exec, v ssa.Value, taken bool, a core.AState) core.AState {
	na, _ := d.edgeOn(v, taken, a)
	return na
}

func (d *durability) edgeOn(cond ssa.Value, taken bool, a core.AState) (core.AState, bool) {
	bo, ok := cond.(*ssa.BinOp)
	if !ok {
		return a, true
	}
	isCnt := func(v ssa.Value) bool { return core.LastField(core.Unwrap(v)) == d.counter }
	isBPS := func(v ssa.Value) bool { return core.LastField(core.Unwrap(v)) == d.p.R.OptBytesPerSync }
	below := false
	switch {
	case isCnt(bo.X) && isBPS(bo.Y):
		below = (bo.Op == token.GEQ && !taken) || (bo.Op == token.LSS && taken)
	case isBPS(bo.X) && isCnt(bo.Y):
		below = (bo.Op == token.LEQ && !taken) || (bo.Op == token.GTR && taken)
	default:
		return a, true
	}
	if below && a[1] == 'o' {
		return a[:2] + "b", true
	}
	return a, true
}

func (d *durability) step(x *core.Exec, in ssa.Instruction, a core.AState) ([]core.StepOut, bool) {
	switch t := in.(type) {
	case *ssa.Go:
		return []core.StepOut{{A: a}}, true
	case ssa.CallInstruction:
		c := t.Common()
		switch {
		case isWritePrimitive(d.p, c):
			d.rep.Stats["write_events"]++
			return []core.StepOut{
				{A: "Dsu", Fact: true, Idx: 1, Truth: 0},
				{A: a, Fact: true, Idx: 1, Truth: 1},
			}, true
		case isSyncPrimitive(c):
			d.rep.Stats["sync_events"]++
			return []core.StepOut{
				{A: "C" + a[1:], Fact: true, Idx: -1, Truth: 0},
				{A: a, Fact: true, Idx: -1, Truth: 1},
			}, true
		case d.checkFdClose && core.StaticCalleeIs(c, osFileClose):
			if a[0] == 'D' {
				x.Report("PS2", "close-before-flush:"+core.FuncKey(x.Fn), "file descriptor closed while written data has not passed an OS durability primitive", in)
			}
			return nil, false
		}
		return nil, false
	case *ssa.Store:
		f, _, val := core.StoreField(in)
		if f == nil {
			return nil, false
		}
		if f == d.counter {
			if c, ok := val.(*ssa.Const); ok && c.Value != nil && constant.Sign(c.Value) == 0 {
				if d.checkCounter {
					key := "counter-reset:" + core.FuncKey(x.Fn)
					if a[0] != 'C' {
						x.Report("THR", key, "bytes-since-sync counter reset to 0 on a path where the last write has not been flushed", in)
					} else {
						d.storesSeen[key] = true
					}
				}
				return []core.StepOut{{A: string(a[0]) + "ob"}}, true
			}
			// counter = counter + <something>
			if bo, ok := val.(*ssa.BinOp); ok && bo.Op == token.ADD &&
				(core.LastField(bo.X) == d.counter || core.LastField(bo.Y) == d.counter) {
				return []core.StepOut{{A: string(a[0]) + "ou"}}, true
			}
			if d.checkCounter {
				x.Report("THR", "counter-store:"+core.FuncKey(x.Fn), "unrecognised store to the bytes-since-sync counter (neither reset nor increase)", in)
			}
			return []core.StepOut{{A: string(a[0]) + "su"}}, true
		}
		if f == d.p.R.DBActive && d.checkRotate {
			key := "store-active:" + core.FuncKey(x.Fn) + "<-" + core.FuncKey(x.Root().Fn)
			if a[0] != 'C' {
				x.Report("PS3", key, "active-file field replaced while the outgoing file has unflushed writes (entry "+core.FuncKey(x.Root().Fn)+")", in)
			} else {
				d.storesSeen[key] = true
			}
		}
	}
	return nil, false
}

// runEntry analyses entry from state a0 and checks `want` at success returns of the entry point.
func (d *durability) runEntry(entry *ssa.Function, a0 string, construct, what string, want func(a string) bool) {
	exits := d.eng.Run(entry, a0, "")
	if len(d.eng.Recursive) > 0 {
		d.rep.Unk(d.rule, construct, what, d.p.Pos(entry.Pos()), "recursion on analysed path: "+strings.Join(d.eng.Recursive, ","))
		return
	}
	nSucc := 0
	var bad []string
	var badPath []string
	for _, e := range exits {
		if e.Cls == core.ClsFailure {
			continue
		}
		nSucc++
		if !want(e.A) {
			pos := "-"
			if e.Ret != nil {
				pos = d.p.InstrPos(e.Ret)
			}
			bad = append(bad, fmt.Sprintf("%s at %s in state %s", e.Cls, pos, describeDur(e.A)))
			if badPath == nil {
				badPath = e.Trace
			}
		}
	}
	if nSucc == 0 {
		d.rep.Unk(d.rule, construct, what, d.p.Pos(entry.Pos()), "no success return found")
		return
	}
	if len(bad) > 0 {
		o := d.rep.Bad(d.rule, construct, what, d.p.Pos(entry.Pos()), strings.Join(bad, "; "))
		o.Path = badPath
		return
	}
	d.rep.OK(d.rule, construct, what, d.p.Pos(entry.Pos()), true)
}

func describeDur(a string) string {
	if len(a) != 3 {
		return a
	}
	s := map[byte]string{'C': "clean", 'D': "dirty(unflushed write)", 'o': "counted", 's': "uncounted-write", 'b': "below-threshold", 'u': "threshold-unchecked"}
	return s[a[0]] + "/" + s[a[1]] + "/" + s[a[2]]
}

// flush findings of the engine into the report.
func (d *durability) flush() {
	for _, f := range d.eng.Findings {
		o := d.rep.Bad(f.Rule, f.Construct, f.Msg, f.Pos, f.Msg+" ["+d.sc.name+"]")
		o.Path, o.Stack = f.Trace, f.Stack
	}
	d.eng.Findings = nil
	d.rep.Stats["activations"] += d.eng.Activations
	d.rep.Stats["path_states"] += d.eng.StatesSeen
	d.eng.Activations, d.eng.StatesSeen = 0, 0
}

func syncConst(p *core.Prog, name string) constant.Value {
	cs := p.ConstsOf(core.ModPath, "SyncStrategy")
	v, ok := cs[name]
	if !ok {
		core.Failf("role unresolved: SyncStrategy constant %s", name)
	}
	return v
}
