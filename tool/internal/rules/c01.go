package rules

import (
	"golang.org/x/tools/go/ssa"

	"xkvverif/internal/core"
)

// mustFollow: generic two-state "event A must be followed by event B before a success return" typestate over
// an entry point (with callee summaries). Returns the list of offending exits.
type mfHooks struct {
	isA func(x *core.Exec, in ssa.Instruction) (is bool, okFact bool, idx int)
	isB func(x *core.Exec, in ssa.Instruction) bool
}

func mustFollow(p *core.Prog, entry *ssa.Function, h mfHooks, follow func(*ssa.Function) bool) (bad []core.Exit, nA, nB int) {
	eng := core.NewEngine(p, core.Hooks{
		Name:   "must-follow",
		Follow: follow,
		Step: func(x *core.Exec, in ssa.Instruction, a core.AState) ([]core.StepOut, bool) {
			if _, isGo := in.(*ssa.Go); isGo {
				return []core.StepOut{{A: a}}, true
			}
			if is, fact, idx := h.isA(x, in); is {
				nA++
				if fact {
					return []core.StepOut{{A: "P", Fact: true, Idx: idx, Truth: 0}, {A: a, Fact: true, Idx: idx, Truth: 1}}, true
				}
				return []core.StepOut{{A: "P", Descend: false}}, true
			}
			if h.isB(x, in) {
				nB++
				return []core.StepOut{{A: "N", Descend: true}}, true
			}
			return nil, false
		},
	})
	for _, e := range eng.Run(entry, "N", "") {
		if e.Cls != core.ClsFailure && e.A == "P" {
			bad = append(bad, e)
		}
	}
	return
}

// tombstonePairing (C01.S2): in DB.Delete every success path that appended a record is followed by the
// index delete of the key.
func tombstonePairing(p *core.Prog, rep *core.Report) {
	rep.Rule("PS-DEL", "tombstone pairing: on every success path of DB.Delete that appended to the log, ShardedIndex.Delete follows before the return (typestate with callee summaries and error facts)")
	del := p.MustMethod(p.R.DB, "Delete")
	wr := p.Reaches("rw.write", func(site ssa.CallInstruction) bool { return isWritePrimitive(p, site.Common()) })
	bad, nA, nB := mustFollow(p, del, mfHooks{
		isA: func(x *core.Exec, in ssa.Instruction) (bool, bool, int) {
			ci, ok := in.(ssa.CallInstruction)
			if !ok {
				return false, false, 0
			}
			if isWritePrimitive(p, ci.Common()) {
				return true, true, 1
			}
			return false, false, 0
		},
		isB: func(x *core.Exec, in ssa.Instruction) bool {
			ci, ok := in.(ssa.CallInstruction)
			if !ok {
				return false
			}
			c := ci.Common().StaticCallee()
			return c != nil && core.RecvNamed(c) == p.R.ShardedIndex && c.Name() == "Delete"
		},
	}, func(fn *ssa.Function) bool { return p.InLib(fn) && core.RecvNamed(fn) != p.R.ShardedIndex })
	_ = wr
	if nA == 0 {
		core.Failf("vacuity guard: no WRITE reachable from DB.Delete")
	}
	detail := ""
	for _, e := range bad {
		detail += "success return at " + p.InstrPos(e.Ret) + " after a log append without an index delete; "
	}
	rep.Check(len(bad) == 0 && nB > 0, "PS-DEL", "(*DB).Delete|append-then-index-delete", "a successful tombstone append is always followed by the index delete", p.Pos(del.Pos()), detail+func() string {
		if nB == 0 {
			return "no ShardedIndex.Delete call reachable"
		}
		return ""
	}(), true)
	// the deleted key is the tombstone's key, and the record is typed Deleted
	v := newVF(p, rep)
	okKey, okType := false, false
	for _, b := range del.Blocks {
		for _, in := range b.Instrs {
			ci, ok := in.(ssa.CallInstruction)
			if !ok {
				continue
			}
			c := ci.Common().StaticCallee()
			if c != nil && core.RecvNamed(c) == p.R.ShardedIndex && c.Name() == "Delete" {
				// find the appending call's record
				for _, b2 := range del.Blocks {
					for _, in2 := range b2.Instrs {
						if c2, ok := in2.(*ssa.Call); ok {
							if cal := c2.Common().StaticCallee(); cal != nil && v.writeReach[cal] {
								if rec := v.recordArg(c2.Common()); rec != nil {
									if v.keyStoredOn(del, rec, ci.Common().Args[1]) {
										okKey = true
									}
									if v.storesType(del, rec, "LogRecordDeleted") {
										okType = true
									}
								}
							}
						}
					}
				}
			}
		}
	}
	rep.Check(okKey, "PS-DEL", "(*DB).Delete|same-key", "the key removed from the index is the key stored in the tombstone record", p.Pos(del.Pos()), "index delete key and tombstone key differ in provenance", true)
	rep.Check(okType, "PS-DEL", "(*DB).Delete|tombstone-type", "the record appended by Delete is typed LogRecordDeleted", p.Pos(del.Pos()), "no store of LogRecordDeleted into the appended record's Type", true)
}

func C01(p *core.Prog, rep *core.Report) {
	v := newVF(p, rep)
	v.vf1()
	tombstonePairing(p, rep)
	v.vf2(func(fn *ssa.Function) bool { return core.RecvNamed(fn) == p.R.DB })
	ps7SizeCheck(p, rep, false)
	staleActive(p, rep)
	poolReset(p, rep)
	rt2(p, rep)
	ro1Rotation(p, rep)
	rep.Assumptions = append(rep.Assumptions, "two loads of one location (same field of the same object / same slice element) inside one function see the same value",
		"dependency code (index containers) stores and returns the position it is given (checked separately for the three implementations under C14/C10)")
	rep.NotCovered = append(rep.NotCovered, "byte equality of values for all lengths; chunk arithmetic (partially covered by C11's agreement rules); every operation sequence / configuration")
}
