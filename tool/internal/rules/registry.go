package rules

import "xkvverif/internal/core"

// Registry maps a property id to the function that adds its obligations to the report.
var Registry = map[string]func(*core.Prog, *core.Report){
	"C01": C01,
	"C02": C02,
	"C03": C03,
	"C04": C04,
	"C05": C05,
	"C06": C06,
	"C07": C07,
	"C08": C08,
	"C09": C09,
	"C10": C10,
	"C11": C11,
	"C12": C12,
	"C13": C13,
	"C14": C14,
	"C15": C15,
	"C16": C16,
	"C17": C17,
	"C18": C18,
	"C19": C19,
	"C20": C20,
}
