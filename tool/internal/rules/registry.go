package rules

import (
	"strings"

	"xkvverif/internal/core"
)

type propFn = func(*core.Prog, *core.Report)

func with(base propFn, extra ...propFn) propFn {
	return func(p *core.Prog, rep *core.Report) {
		base(p, rep)
		for _, e := range extra {
			e(p, rep)
		}
	}
}

// Registry maps a property id to the function that adds its obligations to the report.
var Registry = map[string]func(*core.Prog, *core.Report){
	"C01": with(C01, frameGroup, batchGroup, vf0RecordCarriesArgs, nil1LookupTested, err1WrapPolarity, fid1IdsFromActive),
	"C02": with(C02, frameGroup, batchGroup, mergeGroup, cf2RecoveryIgnoresLimit, cl1CloseAll, cl1bCloseLoopComplete, fn1NamesSortLikeIds, fid1IdsFromActive, fn2DecimalIds),
	"C03": with(C03, frameGroup, batchGroup, mergeGroup, fid1IdsFromActive),
	"C04": with(C04, batchGroup, frameGroup, ps3Rotate),
	"C05": with(C05, batchGroup, vf0RecordCarriesArgs, nil1LookupTested, err1WrapPolarity),
	"C06": with(C06, mergeGroup),
	"C07": with(C07, mergeGroup, mergeFlagRules, rm1RemovalTargets),
	"C08": with(C08, func(p *core.Prog, rep *core.Report) {
		newVF(p, rep).vf2(nil)
	}, pool2SingleRelease, pool4NoUseAfterRelease, cd7LogicalSize),
	"C09": with(C09, pool2SingleRelease, pool3BufferSingleRelease, pool4NoUseAfterRelease, bt1PutType, lk13BackendState, nil1LookupTested),
	"C10": with(C10, it1FilterAfterMove, it1bDelegation, it2FilterPolarity, it3OnlyCloseCloses),
	"C11": with(C11, frameGroup),
	"C12": with(C12, frameGroup),
	"C13": with(C13, cfg1OptionsImmutable),
	"C14": with(C14, cfg1OptionsImmutable, mg3Only, cf2RecoveryIgnoresLimit, batchGroup, cl1CloseAll, fn1NamesSortLikeIds, fn2DecimalIds),
	"C15": with(C15, pool2SingleRelease, pool3BufferSingleRelease, pool4NoUseAfterRelease, rt2Decoded),
	"C16": with(C16, rm1RemovalTargets, cl2RefusalKeepsLock),
	"C17": with(C17, bt3FlushLoopComplete, cd11Only, tb3bIndexImplParity, bt5SizeBookkeeping),
	"C18": with(C18, mergeGroup, cd11Only),
	"C19": with(C19, batchGroup),
	"C20": with(C20, ps5MergeOnly, lk13BackendState, vf3MergeOnly, cp2BackupCopies, err1WrapPolarity),
}

// mg3Only: Merge's liveness test compares the complete position (C14: the file-size limit decides how many files a
// key's versions are spread over; a test that ignores the file id is right with one file and wrong with many).
func mg3Only(p *core.Prog, rep *core.Report) {
	m := newMergeCtx(p, rep)
	m.mg3Liveness()
}

// ps5MergeOnly: Merge leaves the originals alone until adoption (C20: Backup copies the data directory only; originals
// unlinked by Merge before the next restart are missing from every backup taken in between).
func ps5MergeOnly(p *core.Prog, rep *core.Report) {
	m := newMergeCtx(p, rep)
	m.ps5MergeOrder()
	m.mp1MergePath()
}

// cd11Only: writer and sequential reader report the same size for one record (C17: Stat after a restart; C18: hint
// sizes vs scan sizes).
func cd11Only(p *core.Prog, rep *core.Report) {
	cd11SizePerChunk(p, rep, layoutOf(p, chunkWriter(p), true).typ+1)
}

// mergeFlagRules: at most one Merge works on the scratch directory (C07: a second Merge running beside the first wipes
// its files while the first still writes its finished marker - the marker then vouches for a partial output).
func mergeFlagRules(p *core.Prog, rep *core.Report) {
	full := core.NewReport("C09")
	runLockRules(p, full, false)
	rep.Rule("LK4", full.Rules["LK4"])
	n := 0
	for _, o := range full.Obls {
		if o.Rule == "LK4" && strings.Contains(o.Construct, "merge-flag") {
			rep.Add(*o)
			n++
		}
	}
	if n == 0 {
		rep.Unk("VAC", "LK4", "merge-flag obligations expected", "", "none found")
	}
}

// vf3MergeOnly: Merge rewrites records untagged (C20: a backup has no sibling merge directory, so Open scans the
// rewritten files instead of trusting the hint; tagged records would wait for a seal that Merge never rewrites).
func vf3MergeOnly(p *core.Prog, rep *core.Report) {
	newVF(p, rep).vf3Merge()
}
