package rules

import "xkvverif/internal/core"

type propFn = func(*core.Prog, *core.Report)

func with(base propFn, extra ...propFn) propFn {
	return func(p *core.Prog, rep *core.Report) {
		base(p, rep)
		for _, e := range extra {
			e(p, rep)
		}
	}
}

// Registry maps a property id to the function that adds its obligations to the report.
var Registry = map[string]func(*core.Prog, *core.Report){
	"C01": with(C01, frameGroup, batchGroup),
	"C02": with(C02, frameGroup, batchGroup, mergeGroup),
	"C03": with(C03, frameGroup, batchGroup, mergeGroup),
	"C04": with(C04, batchGroup, frameGroup),
	"C05": with(C05, batchGroup),
	"C06": with(C06, mergeGroup),
	"C07": with(C07, mergeGroup),
	"C08": with(C08, func(p *core.Prog, rep *core.Report) {
		newVF(p, rep).vf2(nil)
	}),
	"C09": with(C09, pool2SingleRelease, bt1PutType),
	"C10": C10,
	"C11": with(C11, frameGroup),
	"C12": with(C12, frameGroup),
	"C13": with(C13, cfg1OptionsImmutable),
	"C14": with(C14, cfg1OptionsImmutable),
	"C15": with(C15, pool2SingleRelease, rt2Decoded),
	"C16": C16,
	"C17": with(C17, bt3FlushLoopComplete),
	"C18": with(C18, mergeGroup),
	"C19": with(C19, batchGroup),
	"C20": C20,
}
