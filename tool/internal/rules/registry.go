package rules

import "xkvverif/internal/core"

// Registry maps a property id to the function that adds its obligations to the report.
var Registry = map[string]func(*core.Prog, *core.Report){
	"C01": C01,
	"C08": C08,
	"C09": C09,
	"C13": C13,
	"C16": C16,
}
