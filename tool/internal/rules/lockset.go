package rules

import (
	"fmt"
	"go/constant"
	"go/token"
	"go/types"
	"sort"
	"strings"

	"golang.org/x/tools/go/ssa"

	"xkvverif/internal/core"
)

// ---------------------------------------------------------------------------------------------------
// E2: lockset / lock-protocol analysis on the path engine (DESIGN 2.2).
// Abstract state: held locks (multiset of id:mode), batch committed flag c (-,0,1), and the flags
//   w: a WRITE on the shared active file happened in the current DB.mu W-section
//   g: an INDEX-READ happened in the current DB.mu W-section
//   u: an INDEX-READ result obtained outside the current W-section is live (check-then-act hazard)
//   m: the merge-in-progress flag was tested in the current W-section (1), outside (x), or not (-)
// ---------------------------------------------------------------------------------------------------

type lkState struct {
	locks   []string // "DB.mu:W"
	c       byte     // '-', '0', '1'
	w, g, u byte     // '0','1'
	m       byte     // '-','1','x'
	e       byte     // '1': the activation was entered on an already committed batch
}

func parseLK(a string) lkState {
	parts := strings.Split(a, ";")
	s := lkState{c: '-', w: '0', g: '0', u: '0', m: '-', e: '0'}
	if len(parts) != 7 {
		return s
	}
	if parts[0] != "" {
		s.locks = strings.Split(parts[0], ",")
	}
	s.c, s.w, s.g, s.u, s.m, s.e = parts[1][0], parts[2][0], parts[3][0], parts[4][0], parts[5][0], parts[6][0]
	return s
}

func (s lkState) String() string {
	l := append([]string(nil), s.locks...)
	sort.Strings(l)
	return fmt.Sprintf("%s;%c;%c;%c;%c;%c;%c", strings.Join(l, ","), s.c, s.w, s.g, s.u, s.m, s.e)
}

func (s lkState) holds(id string, mode byte) bool {
	for _, l := range s.locks {
		if l == id+":"+string(mode) {
			return true
		}
	}
	return false
}

func (s lkState) holdsAny(id string) bool { return s.holds(id, 'W') || s.holds(id, 'R') }

func (s lkState) without(id string, mode byte) lkState {
	n := s
	n.locks = nil
	removed := false
	for _, l := range s.locks {
		if !removed && l == id+":"+string(mode) {
			removed = true
			continue
		}
		n.locks = append(n.locks, l)
	}
	return n
}

func (s lkState) with(id string, mode byte) lkState {
	n := s
	n.locks = append(append([]string(nil), s.locks...), id+":"+string(mode))
	return n
}

type lockset struct {
	p   *core.Prog
	rep *core.Report
	eng *core.Engine

	guarded     map[*types.Var]string // guarded field -> lock id
	mergeFlag   *types.Var
	dbMu, bMu   string
	shardMu     string
	order       map[string]map[string]string // held -> acquired -> where
	checked     map[string]bool              // discharged instance keys
	writeReach  map[*ssa.Function]bool
	raceEntries map[*ssa.Function]bool
	curEntry    string
	mutSummary  map[*ssa.Function]bool
	mutWhy      map[*ssa.Function]string
}

var lockOps = map[string][2]byte{ // callee -> (op, mode): op 'a' acquire, 'r' release
	"(*sync.RWMutex).Lock":    {'a', 'W'},
	"(*sync.RWMutex).Unlock":  {'r', 'W'},
	"(*sync.RWMutex).RLock":   {'a', 'R'},
	"(*sync.RWMutex).RUnlock": {'r', 'R'},
	"(*sync.Mutex).Lock":      {'a', 'W'},
	"(*sync.Mutex).Unlock":    {'r', 'W'},
}

func ownerName(p *core.Prog, f *types.Var) string {
	if n := fieldOwner(p, f); n != nil {
		return n.Obj().Name() + "." + f.Name()
	}
	return "?." + f.Name()
}

// lockID resolves the mutex a Lock/Unlock call operates on to an access-path identity.
func (l *lockset) lockID(v ssa.Value, depth int) string {
	if depth > 6 {
		return "?"
	}
	switch u := v.(type) {
	case *ssa.FieldAddr:
		if f, _ := core.FieldOfAddr(u); f != nil {
			return ownerName(l.p, f)
		}
	case *ssa.UnOp:
		if u.Op == token.MUL {
			if f, _ := core.FieldOfAddr(u.X); f != nil {
				return ownerName(l.p, f)
			}
			os := core.Origins(u)
			if len(os) == 1 && os[0] != ssa.Value(u) {
				return l.lockID(os[0], depth+1)
			}
		}
	case *ssa.IndexAddr:
		return l.lockID(u.X, depth+1) + "[]"
	case *ssa.Phi:
		id := ""
		for i, e := range u.Edges {
			x := l.lockID(e, depth+1)
			if i > 0 && x != id {
				return "?"
			}
			id = x
		}
		return id
	case *ssa.Extract:
		if call, ok := u.Tuple.(*ssa.Call); ok {
			if callee := call.Common().StaticCallee(); callee != nil && callee.Blocks != nil {
				id := ""
				for i, r := range core.Returns(callee) {
					x := l.lockID(core.ReturnOperand(r, u.Index), depth+1)
					if i > 0 && x != id {
						return "?"
					}
					id = x
				}
				if id != "" {
					return id
				}
			}
		}
	}
	return "?"
}

// isFresh: the object v points to was allocated by the current activation (or is a parameter the calling
// context marked fresh) and is therefore not visible to other goroutines (DESIGN 1.3).
func isFresh(x *core.Exec, v ssa.Value) bool {
	return core.AllOrigins(v, func(o ssa.Value) bool {
		switch t := o.(type) {
		case *ssa.Alloc:
			return t.Parent() == x.Fn
		case *ssa.Parameter:
			for i, p := range x.Fn.Params {
				if p == t {
					return strings.Contains(x.Ctx, fmt.Sprintf("f%d,", i))
				}
			}
		}
		return false
	})
}

func newLockset(p *core.Prog, rep *core.Report) *lockset {
	l := &lockset{p: p, rep: rep, guarded: map[*types.Var]string{}, order: map[string]map[string]string{}, checked: map[string]bool{}, raceEntries: map[*ssa.Function]bool{}}
	l.dbMu = ownerName(p, p.R.DBMu)
	l.bMu = ownerName(p, p.R.BatchMu)
	l.writeReach = p.Reaches("rw.write", func(site ssa.CallInstruction) bool { return isWritePrimitive(p, site.Common()) })
	l.inferGuarded()
	defer func() {
		l.eng.PhiFilter = func(ph *ssa.Phi) bool {
			pt, ok := ph.Type().(*types.Pointer)
			if !ok {
				return false
			}
			n, ok := pt.Elem().(*types.Named)
			return ok && n == p.R.DataFile
		}
	}()
	l.eng = core.NewEngine(p, core.Hooks{
		Name:   "lockset",
		Step:   l.step,
		Const:  l.konst,
		Follow: l.follow,
		CallCtx: func(x *core.Exec, site ssa.CallInstruction, callee *ssa.Function) string {
			ctx := ""
			args := site.Common().Args
			off := 0
			if site.Common().IsInvoke() {
				off = 1
			}
			for i, a := range args {
				if _, isPtr := a.Type().Underlying().(*types.Pointer); isPtr && isFresh(x, a) {
					ctx += fmt.Sprintf("f%d,", i+off)
				}
			}
			// closures inherit freshness knowledge only through parameters; free variables are treated as shared
			return ctx
		},
	})
	return l
}

func (l *lockset) follow(fn *ssa.Function) bool {
	if !l.p.InLib(fn) {
		return false
	}
	// DataFile / fio internals have no lock of their own and are not in the guarded set: calls on them are
	// events (WRITE on the shared active file), not descended into.
	if n := core.RecvNamed(fn); n == l.p.R.DataFile || n == l.p.R.MMap || n == l.p.R.FileIO || n == l.p.R.DataReader {
		return false
	}
	return true
}

// inferGuarded: fields of DB / Batch stored outside a fresh context by some library function that is not
// Open-only construction code (DESIGN 1.2 "DB.mutableFields").
func (l *lockset) inferGuarded() {
	p := l.p
	open := p.Func(core.ModPath, "Open")
	openOnly := p.ReachableFrom([]*ssa.Function{open}, p.InLib)
	var pub []*ssa.Function
	pub = append(pub, publicEntries(p)...)
	for _, n := range []string{"Rewind", "Seek", "Next", "Valid", "Key", "Value", "Close"} {
		pub = append(pub, p.MustMethod(p.R.Iterator, n))
	}
	fromPublic := p.ReachableFrom(pub, p.InLib)
	// the background goroutine started by Open is shared code
	for _, b := range open.Blocks {
		for _, in := range b.Instrs {
			if g, ok := in.(*ssa.Go); ok {
				if mc, ok := g.Call.Value.(*ssa.MakeClosure); ok {
					if cf, ok := mc.Fn.(*ssa.Function); ok {
						for f := range p.ReachableFrom([]*ssa.Function{cf}, p.InLib) {
							fromPublic[f] = true
						}
					}
				}
			}
		}
	}
	_ = openOnly
	for fn := range fromPublic {
		for _, b := range fn.Blocks {
			for _, in := range b.Instrs {
				var f *types.Var
				var base ssa.Value
				switch t := in.(type) {
				case *ssa.Store:
					f, base = core.FieldOfAddr(t.Addr)
				case *ssa.MapUpdate:
					f, base = core.LoadedField(t.Map)
				}
				if f == nil {
					continue
				}
				owner := fieldOwner(p, f)
				if owner != p.R.DB && owner != p.R.Batch {
					continue
				}
				if core.AllOrigins(base, func(o ssa.Value) bool { _, ok := o.(*ssa.Alloc); return ok }) {
					continue // construction of a fresh object (mergeDB, NewBatch's batch)
				}
				if isMutexType(f.Type()) {
					continue
				}
				if owner == p.R.DB {
					l.guarded[f] = l.dbMu
				} else {
					l.guarded[f] = l.bMu
				}
			}
		}
	}
	// merge-in-progress flag: the bool field of DB that (*DB).Merge stores true to
	merge := p.MustMethod(p.R.DB, "Merge")
	for _, b := range merge.Blocks {
		for _, in := range b.Instrs {
			if f, _, val := core.StoreField(in); f != nil && fieldOwner(p, f) == p.R.DB && isBoolT(f.Type()) {
				if c, ok := val.(*ssa.Const); ok && c.Value != nil && c.Value.Kind() == constant.Bool && constant.BoolVal(c.Value) {
					l.mergeFlag = f
				}
			}
		}
	}
}

func isBoolT(t types.Type) bool {
	b, ok := t.Underlying().(*types.Basic)
	return ok && b.Kind() == types.Bool
}

func isMutexType(t types.Type) bool {
	s := types.TypeString(t, nil)
	return strings.HasSuffix(s, "sync.RWMutex") || strings.HasSuffix(s, "sync.Mutex")
}

func (l *lockset) konst(x *core.Exec, v ssa.Value, a core.AState) (constant.Value, bool) {
	if f, _ := core.LoadedField(v); f == l.p.R.BatchCommitted {
		s := parseLK(a)
		switch s.c {
		case '0':
			return constant.MakeBool(false), true
		case '1':
			return constant.MakeBool(true), true
		}
	}
	return nil, false
}

func (l *lockset) ok(key string) { l.checked[key] = true }

func (l *lockset) step(x *core.Exec, in ssa.Instruction, a core.AState) ([]core.StepOut, bool) {
	p := l.p
	s := parseLK(a)
	entry := core.FuncKey(x.Root().Fn)
	here := core.FuncKey(x.Fn)
	switch t := in.(type) {
	case *ssa.Go:
		return []core.StepOut{{A: a}}, true
	case ssa.CallInstruction:
		c := t.Common()
		callee := c.StaticCallee()
		if c.IsInvoke() {
			if n, ok := c.Value.Type().(*types.Named); ok && n == p.R.IndexIface {
				l.shardCall(x, in, c, s)
			}
		}
		if callee != nil {
			if op, ok := lockOps[callee.String()]; ok && len(c.Args) > 0 {
				id := l.lockID(c.Args[0], 0)
				if id == "?" || strings.HasPrefix(id, "?") {
					x.Report("LK5", "unresolved-lock:"+here, "cannot resolve which mutex this call operates on", in)
					return []core.StepOut{{A: a}}, true
				}
				if op[0] == 'a' {
					if s.holdsAny(id) {
						x.Report("LK5", "double-acquire:"+id+":"+here+"<-"+entry, fmt.Sprintf("%s acquired (%c) while already held [%s]: sync.RWMutex is not re-entrant (self-deadlock)", id, op[1], strings.Join(s.locks, ",")), in)
						if s.holds(id, op[1]) {
							// keep the multiset bounded (a leaked lock re-acquired in a loop)
							return []core.StepOut{{A: a}}, true
						}
					}
					for _, h := range s.locks {
						hid := h[:len(h)-2]
						if l.order[hid] == nil {
							l.order[hid] = map[string]string{}
						}
						if _, ok := l.order[hid][id]; !ok {
							l.order[hid][id] = p.InstrPos(in) + " in " + here
						}
					}
					ns := s.with(id, op[1])
					if id == l.dbMu {
						ns.w, ns.g = '0', '0'
						if ns.m == '1' {
							ns.m = 'x'
						}
					}
					return []core.StepOut{{A: ns.String()}}, true
				}
				// release
				if !s.holds(id, op[1]) {
					x.Report("LK5", "release-unheld:"+id+":"+here+"<-"+entry, fmt.Sprintf("%s released (%c) on a path where it is not held in that mode [held: %s] (fatal 'unlock of unlocked mutex')", id, op[1], strings.Join(s.locks, ",")), in)
					return []core.StepOut{{A: a}}, true
				}
				ns := s.without(id, op[1])
				if id == l.dbMu {
					if ns.g == '1' {
						ns.u = '1'
					}
					ns.w, ns.g = '0', '0'
					if ns.m == '1' {
						ns.m = 'x'
					}
				}
				return []core.StepOut{{A: ns.String()}}, true
			}
			// sync/atomic on a guarded field is checked by LK2 (global scan)
			// INDEX events
			if core.RecvNamed(callee) == p.R.ShardedIndex {
				switch callee.Name() {
				case "Put", "Delete":
					if l.raceEntries[x.Root().Fn] && !isFreshDBIndex(x, c) {
						key := "index-update:" + here + "<-" + entry
						switch {
						case !s.holds(l.dbMu, 'W'):
							x.Report("LK3", key, "index update without the database writer lock: the log order and the index order of racing writers can differ", in)
						case s.w != '1':
							x.Report("LK3", key, "index update is not in the same continuous writer section as its log append (lock released and re-taken in between)", in)
						default:
							l.ok("LK3|" + key)
						}
					}
				case "Get", "Size":
					if callee.Name() == "Get" {
						ns := s
						if s.holds(l.dbMu, 'W') {
							ns.g = '1'
						} else {
							ns.u = '1'
						}
						if s.e == '1' {
							x.Report("LK8", "use-after-commit:"+entry, "index read on a committed batch", in)
						}
						return []core.StepOut{{A: ns.String(), Descend: true}}, true
					}
				}
				if s.e == '1' {
					x.Report("LK8", "use-after-commit:"+entry, "index access on a committed batch", in)
				}
			}
			// LK10: the active file is mutated by every append, so any method call on it (reads included) must hold
			// the database lock; rotated files are immutable and are read lock-free by design. The receiver is
			// resolved on the path taken (phi of "active" vs "looked up in the rotated-files map").
			if core.RecvNamed(callee) == p.R.DataFile && len(c.Args) > 0 && l.raceEntries[x.Root().Fn] {
				recv := x.Resolve(c.Args[0])
				isActive := false
				for _, o := range core.Origins(recv) {
					if f, base := core.LoadedField(x.Resolve(o)); f == p.R.DBActive && !isFresh(x, base) {
						isActive = true
					}
				}
				if isActive {
					key := "active-file-call:" + callee.Name() + ":" + here + "<-" + entry
					if s.holdsAny(l.dbMu) {
						l.ok("LK10|" + key)
					} else {
						x.Report("LK10", key, "method "+callee.Name()+" called on the ACTIVE data file without the database lock: appends mutate its size fields (and, under mmap, remap the region) concurrently - torn sizes, spurious EOF/CRC errors, faults", in)
					}
				}
			}
			// WRITE on the shared active file: a DataFile method that reaches ReadWriter.Write, receiver loaded
			// from the active-file field of a shared DB
			if core.RecvNamed(callee) == p.R.DataFile && l.writeReach[callee] && len(c.Args) > 0 {
				if f, base := core.LoadedField(c.Args[0]); f == p.R.DBActive && !isFresh(x, base) {
					if s.e == '1' {
						x.Report("LK8", "use-after-commit:"+entry, "log append on a committed batch", in)
					}
					key := "shared-write:" + here + "<-" + entry
					if !l.raceEntries[x.Root().Fn] {
						// client layers (datatype) are outside the engine's concurrency contract
					} else if s.u == '1' {
						x.Report("LK4", key, "log append decided by an index read made outside the current writer section (check-then-act): a concurrent writer can invalidate the test", in)
					} else {
						l.ok("LK4|" + key)
					}
					if !s.holds(l.dbMu, 'W') {
						x.Report("LK1", "write-active-file:"+here+"<-"+entry, "append to the shared active file without the database writer lock", in)
					}
					ns := s
					ns.w = '1'
					return []core.StepOut{{A: ns.String()}}, true
				}
			}
			if s.e == '1' && (callee.String() == "(*sync.Pool).Get" || callee.String() == "(*sync.Pool).Put") {
				x.Report("LK8", "use-after-commit:"+entry, "record-pool traffic on a committed batch", in)
			}
		}
		return nil, false
	case *ssa.Store:
		f, base := core.FieldOfAddr(t.Addr)
		if f == nil {
			return nil, false
		}
		if f == p.R.BatchCommitted {
			ns := s
			if c, ok := t.Val.(*ssa.Const); ok && c.Value != nil && c.Value.Kind() == constant.Bool {
				if constant.BoolVal(c.Value) {
					ns.c = '1'
				} else {
					ns.c = '0'
				}
			} else {
				x.Report("LK8", "committed-flag-store:"+here, "committed flag stored from a non-constant", in)
			}
			l.access(x, in, f, base, s, true)
			return []core.StepOut{{A: ns.String()}}, true
		}
		if s.e == '1' && fieldOwner(p, f) == p.R.Batch && !isFresh(x, base) {
			x.Report("LK8", "use-after-commit:"+entry, "batch state modified on a committed batch", in)
		}
		if f == l.mergeFlag && !isFresh(x, base) {
			if c, ok := t.Val.(*ssa.Const); ok && c.Value != nil && constant.BoolVal(c.Value) {
				key := "merge-flag-test-and-set:" + here
				if s.m != '1' || !s.holds(l.dbMu, 'W') {
					x.Report("LK4", key, "merge-in-progress flag set without having been tested in the same writer section: two concurrent Merge calls can both pass the test", in)
				} else {
					l.ok("LK4|" + key)
				}
				l.access(x, in, f, base, s, true)
				ns := s
				ns.m = 'S'
				return []core.StepOut{{A: ns.String()}}, true
			}
			// clearing the flag: only the activation that set it may clear it
			key := "merge-flag-owner:" + entry
			if s.m != 'S' {
				x.Report("LK4", key, "merge-in-progress flag cleared on a path where this call did not set it (e.g. a refused Merge): the running merge loses its exclusion and a third Merge runs concurrently with it", in)
			} else {
				l.ok("LK4|" + key)
			}
		}
		l.access(x, in, f, base, s, true)
	case *ssa.UnOp:
		if t.Op != token.MUL {
			return nil, false
		}
		f, base := core.FieldOfAddr(t.X)
		if f == nil {
			return nil, false
		}
		l.access(x, in, f, base, s, false)
		// LK12: a []byte field of DB that is initialised once (never stored by shared code) is a scratch buffer whose
		// CONTENT every user overwrites; it may be picked up only inside a writer section
		if l.raceEntries[x.Root().Fn] && fieldOwner(p, f) == p.R.DB && core.TypeIs(f.Type(), "[]byte") && !isFresh(x, base) {
			if _, guarded := l.guarded[f]; !guarded {
				key := "scratch-buffer:" + ownerName(p, f) + ":" + here + "<-" + entry
				if s.holds(l.dbMu, 'W') {
					l.ok("LK12|" + key)
				} else {
					x.Report("LK12", key, "shared scratch buffer "+ownerName(p, f)+" picked up outside a writer section: its content is overwritten by every append under db.mu, so an unlocked user reads or writes a half-filled header", in)
				}
			}
		}
		if f == l.mergeFlag && !isFresh(x, base) {
			ns := s
			if s.holds(l.dbMu, 'W') {
				ns.m = '1'
			} else {
				ns.m = 'x'
			}
			return []core.StepOut{{A: ns.String()}}, true
		}
	case *ssa.MapUpdate:
		if f, base := core.LoadedField(t.Map); f != nil {
			l.access(x, in, f, base, s, true)
			if s.e == '1' && fieldOwner(p, f) == p.R.Batch {
				x.Report("LK8", "use-after-commit:"+entry, "batch state modified on a committed batch", in)
			}
		}
	case *ssa.Lookup:
		if f, base := core.LoadedField(t.X); f != nil {
			l.access(x, in, f, base, s, false)
		}
	case *ssa.Range:
		if f, base := core.LoadedField(t.X); f != nil {
			l.access(x, in, f, base, s, false)
		}
	}
	return nil, false
}

func isFreshDBIndex(x *core.Exec, c *ssa.CallCommon) bool {
	if len(c.Args) == 0 {
		return false
	}
	_, base := core.LoadedField(c.Args[0])
	return base != nil && isFresh(x, base)
}

// access checks LK1 for a read/write of a guarded field through a shared base.
func (l *lockset) access(x *core.Exec, in ssa.Instruction, f *types.Var, base ssa.Value, s lkState, write bool) {
	lock, ok := l.guarded[f]
	if !ok || !l.raceEntries[x.Root().Fn] {
		return
	}
	if isFresh(x, base) {
		return
	}
	kind := "read"
	if write {
		kind = "write"
	}
	key := fmt.Sprintf("%s:%s:%s<-%s", kind, ownerName(l.p, f), core.FuncKey(x.Fn), core.FuncKey(x.Root().Fn))
	okk := s.holds(lock, 'W') || (!write && s.holds(lock, 'R'))
	if okk {
		l.ok("LK1|" + key)
		return
	}
	need := "in R or W"
	if write {
		need = "in W"
	}
	x.Report("LK1", key, fmt.Sprintf("%s of guarded field %s without %s held %s [held: %s]", kind, ownerName(l.p, f), lock, need, strings.Join(s.locks, ",")), in)
}

func (l *lockset) flush() {
	for _, f := range l.eng.Findings {
		o := l.rep.Bad(f.Rule, f.Construct, f.Msg, f.Pos, f.Msg)
		o.Path, o.Stack = f.Trace, f.Stack
	}
	l.eng.Findings = nil
	var keys []string
	for k := range l.checked {
		keys = append(keys, k)
	}
	sort.Strings(keys)
	for _, k := range keys {
		i := strings.Index(k, "|")
		l.rep.OK(k[:i], k[i+1:], "lock held as required on every path reaching this access", "", true)
	}
	l.rep.Stats["activations"] += l.eng.Activations
	l.rep.Stats["path_states"] += l.eng.StatesSeen
}

// runEntry analyses one public entry point from the given states and checks pairing at its exits.
// wantExit maps an exit state to "" (fine) or a complaint.
func (l *lockset) runEntry(fn *ssa.Function, entries []lkState, race bool, wantExit func(in, out lkState, e *core.Exit) string) {
	if race {
		l.raceEntries[fn] = true
	}
	name := core.FuncKey(fn)
	var bad []string
	var path []string
	n := 0
	for _, es := range entries {
		exits := l.eng.Run(fn, es.String(), "")
		for _, e := range exits {
			n++
			if msg := wantExit(es, parseLK(e.A), &e); msg != "" {
				bad = append(bad, fmt.Sprintf("%s at %s: %s", e.Cls, l.p.InstrPos(e.Ret), msg))
				if path == nil {
					path = e.Trace
				}
			}
		}
	}
	if len(l.eng.Recursive) > 0 {
		l.rep.Unk("LK5", "pairing:"+name, "acquire/release pairing on every path", l.p.Pos(fn.Pos()), "recursion: "+strings.Join(l.eng.Recursive, ","))
		l.eng.Recursive = nil
		return
	}
	if n == 0 {
		// functions that only panic / never return
		return
	}
	o := l.rep.Add(core.Obligation{Rule: "LK5", Construct: "pairing:" + name, What: fmt.Sprintf("every lock acquired is released exactly once on each of the %d exit states (protocol pair NewBatch/Commit excepted)", n), Status: status(len(bad) == 0), Pos: l.p.Pos(fn.Pos()), Detail: strings.Join(bad, "; "), Nontrivial: true})
	if len(bad) > 0 {
		o.Path = path
	}
}

// checkOrder: the may-hold graph must be acyclic (LK6).
func (l *lockset) checkOrder() {
	var edges []string
	for a, m := range l.order {
		for b, where := range m {
			edges = append(edges, fmt.Sprintf("%s -> %s (%s)", a, b, where))
		}
	}
	sort.Strings(edges)
	// cycle detection
	color := map[string]int{}
	var cyc []string
	var dfs func(n string, stack []string)
	dfs = func(n string, stack []string) {
		color[n] = 1
		for m := range l.order[n] {
			if color[m] == 1 {
				cyc = append(cyc, strings.Join(append(stack, n, m), " -> "))
			} else if color[m] == 0 {
				dfs(m, append(stack, n))
			}
		}
		color[n] = 2
	}
	var nodes []string
	for a := range l.order {
		nodes = append(nodes, a)
	}
	sort.Strings(nodes)
	for _, n := range nodes {
		if color[n] == 0 {
			dfs(n, nil)
		}
	}
	l.rep.Check(len(cyc) == 0, "LK6", "lock-order-acyclic", fmt.Sprintf("the may-hold graph over %d edge(s) is acyclic: %s", len(edges), strings.Join(edges, "; ")), "", "cycle: "+strings.Join(cyc, " | "), true)
}

// shardCall: LK7 / C08.S5 - a call on a shard container must hold that shard's lock; under the READ lock it
// may only reach implementations whose writes-through-receiver summary is empty.
func (l *lockset) shardCall(x *core.Exec, in ssa.Instruction, c *ssa.CallCommon, s lkState) {
	if l.shardMu == "" {
		f := core.FieldBy(l.p.R.ShardedIndex, "shard locks", func(f *types.Var) bool { return core.TypeIs(f.Type(), "[]sync.RWMutex") })
		l.shardMu = ownerName(l.p, f) + "[]"
	}
	if l.mutSummary == nil {
		l.mutSummary = map[*ssa.Function]bool{}
		l.mutWhy = map[*ssa.Function]string{}
	}
	method := c.Method.Name()
	here := core.FuncKey(x.Fn)
	key := "shard-call:" + method + ":" + here
	if x.Fn.Name() == "init" || core.RecvNamed(x.Fn) != l.p.R.ShardedIndex {
		x.Report("LK7", key, "shard container called from outside ShardedIndex (bypasses the per-shard locks)", in)
		return
	}
	ms := l.ms()
	var mutators []string
	impls := l.p.R.Impls(l.p.R.IndexIface)
	if len(impls) < 3 {
		core.Failf("vacuity guard: expected 3 index implementations, found %d", len(impls))
	}
	for _, im := range impls {
		fn := l.p.MustMethod(im, method)
		if mu, why := ms.mutates(fn); mu {
			mutators = append(mutators, core.FuncKey(fn)+": "+why)
		}
	}
	switch {
	case s.holds(l.shardMu, 'W'):
		l.ok("LK7|" + key)
	case s.holds(l.shardMu, 'R'):
		if len(mutators) > 0 {
			x.Report("LK7", key, "shard method called under the shard READ lock although an implementation writes shared state: "+strings.Join(mutators, " | "), in)
		} else {
			l.ok("LK7|" + key)
		}
	default:
		x.Report("LK7", key, "shard container accessed without holding its shard lock [held: "+strings.Join(s.locks, ",")+"]", in)
	}
}

var sharedMS *mutSum

func (l *lockset) ms() *mutSum {
	if sharedMS == nil || sharedMS.p != l.p {
		sharedMS = newMutSum(l.p)
	}
	return sharedMS
}
