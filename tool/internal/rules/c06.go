package rules

import (
	"fmt"
	"strings"

	"golang.org/x/tools/go/ssa"

	"xkvverif/internal/core"
)

// cd4Framing: every byte that reaches ReadWriter.Write from a DataFile method was produced by the chunk framer.
func cd4Framing(p *core.Prog, rep *core.Report) {
	rep.Rule("CD4", "framing per file kind: every DataFile method that invokes ReadWriter.Write writes the buffer it handed to the chunk framer in the same function (data, hint and marker files are all read back through the chunk decoder, BD3)")
	w := chunkWriter(p)
	n := 0
	for _, fn := range p.LibFuncs() {
		if core.RecvNamed(fn) != p.R.DataFile {
			continue
		}
		for _, b := range fn.Blocks {
			for _, in := range b.Instrs {
				ci, ok := in.(ssa.CallInstruction)
				if !ok || !isWritePrimitive(p, ci.Common()) {
					continue
				}
				n++
				arg := ci.Common().Args[0]
				if !ci.Common().IsInvoke() && len(ci.Common().Args) > 1 {
					arg = ci.Common().Args[1]
				}
				framed := false
				// arg = buf.Bytes() / buf.B where buf was passed to the chunk framer
				var bufs []ssa.Value
				for _, o := range core.Origins(arg) {
					if c, ok := o.(*ssa.Call); ok && len(c.Common().Args) == 1 {
						bufs = append(bufs, c.Common().Args[0])
					}
					if f, base := core.LoadedField(o); f != nil {
						bufs = append(bufs, base)
					}
				}
				for _, b2 := range fn.Blocks {
					for _, in2 := range b2.Instrs {
						if c2, ok := in2.(ssa.CallInstruction); ok && c2.Common().StaticCallee() == w {
							for _, a := range c2.Common().Args {
								for _, bf := range bufs {
									if sameOrigin(a, bf) {
										framed = true
									}
								}
							}
						}
					}
				}
				rep.Check(framed, "CD4", "framed-write:"+core.FuncKey(fn), "the bytes written were produced by the chunk framer", p.InstrPos(in), "raw bytes are written to a file that is read back through the chunk decoder: the checksum never matches and the content reads as corrupt / absent", true)
			}
		}
	}
	if n < 2 {
		core.Failf("vacuity guard: CD4 expected >= 2 Write call sites in DataFile methods, found %d", n)
	}
}

func C06(p *core.Prog, rep *core.Report) {
	m := newMergeCtx(p, rep)
	cd4Framing(p, rep)
	m.ps8Merge()
	m.mg3Liveness()
	m.mg4EveryRecordLookedUp()
	m.mg1Guard()
	m.mg2MarkerID()
	v := newVF(p, rep)
	v.vf3Merge()
	m.ps5MergeOrder()
	m.ps5Adoption()
	rp1SkipBelow(p, rep)
	// S7 merge-in-progress check-then-act (from the lock analysis)
	full := core.NewReport("C09")
	runLockRules(p, full, false)
	rep.Rule("LK4", full.Rules["LK4"])
	n := 0
	for _, o := range full.Obls {
		if o.Rule == "LK4" && strings.Contains(o.Construct, "merge-flag") {
			rep.Add(*o)
			n++
		}
	}
	if n == 0 {
		core.Failf("vacuity guard: C06 found no merge-flag obligation")
	}
	rep.NotCovered = append(rep.NotCovered, "'adoption with fewer/equal/more output files yields the same mapping', 'the directory holds only merged records afterwards': relations between directory contents, not decided")
}

func C07(p *core.Prog, rep *core.Report) {
	m := newMergeCtx(p, rep)
	m.ps5MergeOrder()
	m.ps5Adoption()
	m.mg2MarkerID()
	ps2Impls(p, rep)
	cd4Framing(p, rep)
	rep.Assumptions = append(rep.Assumptions, "os.Rename within one file system is atomic; closing a file flushes it (PS2, checked)")
	rep.NotCovered = append(rep.NotCovered, "the state recovered from each intermediate directory image (crash-point enumeration)")
}

func C18(p *core.Prog, rep *core.Report) {
	m := newMergeCtx(p, rep)
	m.vf5Hint()
	rep.Rule("CD1", "codec sequence agreement")
	df := core.ModPath + "/datafile"
	cd1(p, rep, "hint-record", p.Func(df, "EncodeHintRecord"), p.Func(df, "DecodeHintRecord"))
	// S3: the hint loader pairs key and position of one decoded record and accounts its size
	v := newVF(p, rep)
	v.vf1()
	hintLoader(p, rep, v)
	m.ps5Adoption()
	cd4Framing(p, rep)
	v.vf3Merge()
	rp1SkipBelow(p, rep)
	m.mg1Guard()
	rep.NotCovered = append(rep.NotCovered, "equality of the index built from the hint with the index built by scanning, for all merges")
}

// hintLoader: the function that reads hint records charges the total counter and returns a fresh key.
func hintLoader(p *core.Prog, rep *core.Report, v *vf) {
	total, _ := v.counters()
	var loader *ssa.Function
	var next *ssa.Call
	for _, fn := range p.LibFuncs() {
		for _, b := range fn.Blocks {
			for _, in := range b.Instrs {
				if c, ok := in.(*ssa.Call); ok {
					if cal := c.Common().StaticCallee(); cal != nil && cal.Name() == "NextHintRecord" && inRootPkg(fn) {
						loader, next = fn, c
					}
				}
			}
		}
	}
	if loader == nil {
		core.Failf("role unresolved: hint loader")
	}
	charged := false
	for _, base := range v.sizeAdds(loader, total) {
		if c, i := extractOf(base); c == next && i == 1 {
			charged = true
		}
	}
	rep.Check(charged, "VF4", "hint-load-accounting:"+core.FuncKey(loader), "the size of every hinted record is charged to the total counter", p.Pos(loader.Pos()), "hint load does not add the hinted position's Size to the total counter", true)
	// the decoded key is not an alias of a reused read buffer: the sequential reader builds its result by append to nil
	f := &fresher{p: p}
	cal := next.Common().StaticCallee()
	var bad []string
	for _, r := range core.Returns(cal) {
		bad = append(bad, f.nonFresh(cal, core.ReturnOperand(r, 0), 0, nil)...)
	}
	rep.Check(len(bad) == 0, "RT2", "fresh-result:"+core.FuncKey(cal), "the hinted key handed to the index is not an alias of a reused read buffer", p.Pos(cal.Pos()), fmt.Sprintf("%v", sortedStr(bad)), true)
}
