package rules

import (
	"fmt"
	"go/constant"
	"go/token"
	"go/types"
	"sort"
	"strings"

	"golang.org/x/tools/go/ssa"

	"xkvverif/internal/core"
)

// ---------------------------------------------------------------------------------------------------
// E4: value provenance rules (DESIGN 2.4): def-use over SSA through extract / phi / conversions / local
// cells, field loads of one object, and parameter binding along call chains.
// ---------------------------------------------------------------------------------------------------

func originSet(v ssa.Value) map[ssa.Value]bool {
	m := map[ssa.Value]bool{}
	for _, o := range core.Origins(v) {
		m[o] = true
	}
	return m
}

// sameOrigin: both values resolve to the same non-empty origin set, or are structurally the same load
// (same field of equivalent bases / same index of equivalent slices). Two loads of one location are taken
// to see the same value (no intervening store is assumed; documented imprecision).
func sameOrigin(a, b ssa.Value) bool {
	return sameOriginD(a, b, 0)
}

func sameOriginD(a, b ssa.Value, depth int) bool {
	if a == nil || b == nil || depth > 6 {
		return false
	}
	if a == b {
		return true
	}
	a, b = core.Unwrap(a), core.Unwrap(b)
	if a == b {
		return true
	}
	if fa, ba := core.LoadedField(a); fa != nil {
		if fb, bb := core.LoadedField(b); fb == fa {
			if sameOriginD(ba, bb, depth+1) {
				return true
			}
		}
	}
	// two calls of one receiver-only accessor on the same receiver (buf.Bytes(), df.Size())
	if ca, ok := a.(*ssa.Call); ok {
		if cb, ok := b.(*ssa.Call); ok {
			fa, fb := ca.Common().StaticCallee(), cb.Common().StaticCallee()
			if fa != nil && fa == fb && len(ca.Common().Args) == 1 && len(cb.Common().Args) == 1 && fa.Signature.Recv() != nil {
				if sameOriginD(ca.Common().Args[0], cb.Common().Args[0], depth+1) {
					return true
				}
			}
		}
	}
	if xa, ia := elemLoad(a); xa != nil {
		if xb, ib := elemLoad(b); xb != nil && ia == ib && sameOriginD(xa, xb, depth+1) {
			return true
		}
	}
	x, y := originSet(a), originSet(b)
	if len(x) == 0 || len(x) != len(y) {
		return false
	}
	for k := range x {
		if !y[k] {
			return false
		}
	}
	return true
}

// elemLoad: v = *(&X[i])
func elemLoad(v ssa.Value) (x, idx ssa.Value) {
	u, ok := v.(*ssa.UnOp)
	if !ok || u.Op != token.MUL {
		return nil, nil
	}
	ia, ok := u.X.(*ssa.IndexAddr)
	if !ok {
		return nil, nil
	}
	return ia.X, ia.Index
}

func extractOf(v ssa.Value) (*ssa.Call, int) {
	for _, o := range core.Origins(v) {
		if e, ok := o.(*ssa.Extract); ok {
			if c, ok := e.Tuple.(*ssa.Call); ok {
				return c, e.Index
			}
		}
		break
	}
	return nil, -1
}

func libCallSites(p *core.Prog, callee *ssa.Function) []ssa.CallInstruction {
	var out []ssa.CallInstruction
	for _, fn := range p.LibFuncs() {
		for _, b := range fn.Blocks {
			for _, in := range b.Instrs {
				if ci, ok := in.(ssa.CallInstruction); ok && ci.Common().StaticCallee() == callee {
					out = append(out, ci)
				}
			}
		}
	}
	return out
}

func paramIndex(fn *ssa.Function, v ssa.Value) int {
	for _, o := range core.Origins(v) {
		if pr, ok := o.(*ssa.Parameter); ok && pr.Parent() == fn {
			for i, pp := range fn.Params {
				if pp == pr {
					return i
				}
			}
		}
		break
	}
	return -1
}

type vf struct {
	p          *core.Prog
	rep        *core.Report
	writeReach map[*ssa.Function]bool
	readReach  map[*ssa.Function]bool
	only       func(*ssa.Function) bool // VF2: the caller filter of the current run
}

func newVF(p *core.Prog, rep *core.Report) *vf {
	return &vf{p: p, rep: rep,
		writeReach: p.Reaches("rw.write", func(site ssa.CallInstruction) bool { return isWritePrimitive(p, site.Common()) }),
		readReach:  p.Reaches("rw.read", func(site ssa.CallInstruction) bool { return isReadPrimitive(p, site.Common()) }),
	}
}

func isReadPrimitive(p *core.Prog, c *ssa.CallCommon) bool {
	if core.IsInvokeOf(c, p.R.RWRead) {
		return true
	}
	if f := c.StaticCallee(); f != nil && f.Name() == "Read" {
		if n := core.RecvNamed(f); n != nil {
			for _, im := range p.R.Impls(p.R.ReadWriter) {
				if im == n {
					return true
				}
			}
		}
	}
	return false
}

// recordArg returns the *LogRecord argument of a call, if any.
func (v *vf) recordArg(c *ssa.CallCommon) ssa.Value {
	for _, a := range c.Args {
		if pt, ok := a.Type().(*types.Pointer); ok {
			if n, ok := pt.Elem().(*types.Named); ok && n == v.p.R.LogRecord {
				return a
			}
		}
	}
	return nil
}

// keyStoredOn: fn contains a store R.Key = K' with R' ~ rec and K' ~ key.
func (v *vf) keyStoredOn(fn *ssa.Function, rec, key ssa.Value) bool {
	for _, b := range fn.Blocks {
		for _, in := range b.Instrs {
			f, base, val := core.StoreField(in)
			if f != v.p.R.LRKey || !sameOrigin(base, rec) {
				continue
			}
			if sameOrigin(val, key) {
				return true
			}
			// append(R.Key, key...) : the record's key is a copy of key
			if call, ok := val.(*ssa.Call); ok {
				if bi, ok := call.Call.Value.(*ssa.Builtin); ok && bi.Name() == "append" && len(call.Call.Args) == 2 && sameOrigin(call.Call.Args[1], key) {
					return true
				}
			}
		}
	}
	return false
}

// pairKeyPos decides whether (key,pos) handed to an index update in fn denote the record just appended /
// just decoded for that key. Returns "" when paired, else the reason.
func (v *vf) pairKeyPos(fn *ssa.Function, key, pos ssa.Value, depth int) string {
	R := v.p.R
	if depth > 3 {
		return "call chain too deep"
	}
	// P3: both come from one decoding call
	if c, pi := extractOf(pos); c != nil {
		if kc, _ := extractOf(key); kc == c {
			return ""
		}
		if f, base := core.LoadedField(key); f == R.LRKey {
			if kc, ki := extractOf(base); kc == c && ki != pi {
				return ""
			}
		}
		// P1: pos is the position returned by the appending call made for the record that carries this key
		callee := c.Common().StaticCallee()
		if callee != nil && v.writeReach[callee] && pi == 0 {
			rec := v.recordArg(c.Common())
			if rec == nil {
				return "appending call takes no record"
			}
			if v.keyStoredOn(fn, rec, key) {
				return ""
			}
			if f, base := core.LoadedField(key); f == R.LRKey && sameOrigin(base, rec) {
				return ""
			}
			// P1': the record and the key are both parameters of a helper: the pairing is established by the callers
			if ri, ki := paramIndex(fn, rec), paramIndex(fn, key); ri >= 0 && ki >= 0 {
				sites := libCallSites(v.p, fn)
				okAll := len(sites) > 0
				for _, s := range sites {
					args := s.Common().Args
					if ri >= len(args) || ki >= len(args) || !v.keyStoredOn(s.Parent(), args[ri], args[ki]) {
						okAll = false
					}
				}
				if okAll {
					return ""
				}
			}
			return "the key is not the key stored in the record passed to the appending call " + core.CalleeName(c.Common())
		}
	}
	// P2: element i of the flush result paired with element i of the staged slice
	if xp, ip := elemLoad(pos); xp != nil {
		if f, base := core.LoadedField(key); f == R.LRKey {
			if xs, is := elemLoad(base); xs != nil {
				if ip != is {
					return "position and record are taken at different indexes"
				}
				if core.LastField(xs) != R.BatchStaged {
					return "record is not an element of the staged slice"
				}
				if c, pi := extractOf(xp); c != nil && pi == 0 && c.Common().StaticCallee() != nil && v.writeReach[c.Common().StaticCallee()] {
					return ""
				}
				// P2': the positions slice is a parameter of a helper: every caller passes the flushing call's result
				if xi := paramIndex(fn, xp); xi >= 0 {
					sites := libCallSites(v.p, fn)
					okAll := len(sites) > 0
					for _, s := range sites {
						args := s.Common().Args
						if xi >= len(args) {
							okAll = false
							continue
						}
						c, pi := extractOf(args[xi])
						if c == nil || pi != 0 || c.Common().StaticCallee() == nil || !v.writeReach[c.Common().StaticCallee()] {
							okAll = false
						}
					}
					if okAll {
						return ""
					}
				}
				return "positions are not the result of the flushing call"
			}
		}
		return "position taken from a slice but the key is not the key of the staged record at the same index"
	}
	// P4: key and pos are fields of one pending-transaction entry, itself built from one decoding call
	if fp, tb := core.LoadedField(pos); fp != nil && fp.Name() == "Pos" {
		if fk, rb := core.LoadedField(key); fk == R.LRKey {
			if fr, tb2 := core.LoadedField(rb); fr != nil && fr.Name() == "Record" && sameOrigin(tb, tb2) {
				// every construction site of that entry type in fn pairs Record and Pos from one call
				ok, n := true, 0
				for _, b := range fn.Blocks {
					for _, in := range b.Instrs {
						al, isAl := in.(*ssa.Alloc)
						if !isAl {
							continue
						}
						if !types.Identical(al.Type(), tb.Type()) {
							continue
						}
						var rv, pv ssa.Value
						for _, ref := range *al.Referrers() {
							if fa, isFA := ref.(*ssa.FieldAddr); isFA {
								fv, _ := core.FieldOfAddr(fa)
								for _, r2 := range *fa.Referrers() {
									if st, isSt := r2.(*ssa.Store); isSt && st.Addr == ssa.Value(fa) {
										if fv.Name() == "Record" {
											rv = st.Val
										} else if fv.Name() == "Pos" {
											pv = st.Val
										}
									}
								}
							}
						}
						n++
						c1, i1 := extractOf(rv)
						c2, i2 := extractOf(pv)
						if c1 == nil || c1 != c2 || i1 == i2 {
							ok = false
						}
					}
				}
				if ok && n > 0 {
					return ""
				}
				return "pending-transaction entries are not built from one decoding call"
			}
		}
	}
	// P5: parameters -> every call site
	ki, pi := paramIndex(fn, key), paramIndex(fn, pos)
	if ki >= 0 && pi >= 0 {
		sites := libCallSites(v.p, fn)
		if len(sites) == 0 {
			return "no call site found for " + core.FuncKey(fn)
		}
		for _, s := range sites {
			args := s.Common().Args
			if ki >= len(args) || pi >= len(args) {
				return "argument binding failed"
			}
			if why := v.pairKeyPos(s.Parent(), args[ki], args[pi], depth+1); why != "" {
				return fmt.Sprintf("at call site %s: %s", v.p.InstrPos(s), why)
			}
		}
		return ""
	}
	// P6: the helper is handed the record and its position (`applyFlushed(record, pos)`) and indexes record.Key: the
	// pairing of record and position is established at every call site (same staged index / same appending call)
	if f, base := core.LoadedField(key); f == R.LRKey {
		if ri, pi := paramIndex(fn, base), paramIndex(fn, pos); ri >= 0 && pi >= 0 {
			sites := libCallSites(v.p, fn)
			if len(sites) == 0 {
				return "no call site found for " + core.FuncKey(fn)
			}
			for _, s := range sites {
				args := s.Common().Args
				if ri >= len(args) || pi >= len(args) {
					return "argument binding failed"
				}
				if why := v.recPosPaired(s.Parent(), args[ri], args[pi]); why != "" {
					return fmt.Sprintf("at call site %s: %s", v.p.InstrPos(s), why)
				}
			}
			return ""
		}
	}
	return "unrecognised provenance of the position"
}

// recPosPaired: rec (a *LogRecord in fn) and pos belong together: element i of the staged slice with element i of the
// flushing call's result, or the record handed to the appending call whose result #0 pos is.
func (v *vf) recPosPaired(fn *ssa.Function, rec, pos ssa.Value) string {
	R := v.p.R
	if xp, ip := elemLoad(pos); xp != nil {
		xs, is := elemLoad(rec)
		if xs == nil {
			return "position taken from a slice but the record is not an element of the staged slice"
		}
		if ip != is {
			return "position and record are taken at different indexes"
		}
		if core.LastField(xs) != R.BatchStaged {
			return "record is not an element of the staged slice"
		}
		if c, pi := extractOf(xp); c != nil && pi == 0 && c.Common().StaticCallee() != nil && v.writeReach[c.Common().StaticCallee()] {
			return ""
		}
		return "positions are not the result of the flushing call"
	}
	if c, pi := extractOf(pos); c != nil && pi == 0 {
		if callee := c.Common().StaticCallee(); callee != nil && v.writeReach[callee] {
			if a := v.recordArg(c.Common()); a != nil && sameOrigin(a, rec) {
				return ""
			}
			return "the record is not the one passed to the appending call"
		}
	}
	return "unrecognised pairing of record and position"
}

// VF1: append -> index pairing at every INDEX-UPDATE(Put).
func (v *vf) vf1() {
	v.rep.Rule("VF1", "append->index pairing: at every ShardedIndex.Put in the engine, the position is the one returned by the appending / flushing / decoding call made for the record that carries exactly this key (same call, same staged index, or same pending entry), followed through closure parameters to every call site")
	n := 0
	for _, fn := range v.p.LibFuncs() {
		if fn.Package() == nil && fn.Parent() == nil {
			continue
		}
		if !inRootPkg(fn) {
			continue
		}
		for _, b := range fn.Blocks {
			for _, in := range b.Instrs {
				ci, ok := in.(ssa.CallInstruction)
				if !ok {
					continue
				}
				callee := ci.Common().StaticCallee()
				if callee == nil || core.RecvNamed(callee) != v.p.R.ShardedIndex || callee.Name() != "Put" {
					continue
				}
				n++
				args := ci.Common().Args
				why := v.pairKeyPos(fn, args[1], args[2], 0)
				v.rep.Check(why == "", "VF1", "index-put:"+core.FuncKey(fn), "the indexed position belongs to the record appended/decoded for this key", v.p.InstrPos(in), why, true)
			}
		}
	}
	if n < 4 {
		core.Failf("vacuity guard: VF1 expected >= 4 index-put sites (Put, batch flush, replay, hint load), found %d", n)
	}
}

func inRootPkg(fn *ssa.Function) bool {
	for fn != nil && fn.Package() == nil && fn.Parent() != nil {
		fn = fn.Parent()
	}
	return fn != nil && fn.Package() != nil && fn.Package().Pkg.Path() == core.ModPath
}

// VF2: positional reads dispatch on the file id.
func (v *vf) vf2(only func(fn *ssa.Function) bool) {
	R := v.p.R
	v.rep.Rule("VF2", "file-id dispatch: every positional read (DataFile method reaching ReadWriter.Read that takes a *DataPos) is made on a file selected by pos.Fid: a lookup in the rotated-files map keyed by it, or the active file under an equality test of its id with pos.Fid")
	n := 0
	for _, fn := range v.p.LibFuncs() {
		if !inRootPkg(fn) {
			continue
		}
		if only != nil && !only(fn) {
			// a receiver-less helper shared by the read paths belongs to whoever calls it
			if core.RecvNamed(fn) != nil || !v.calledBy(fn, only) {
				continue
			}
		}
		v.only = only
		for _, b := range fn.Blocks {
			for _, in := range b.Instrs {
				ci, ok := in.(ssa.CallInstruction)
				if !ok {
					continue
				}
				callee := ci.Common().StaticCallee()
				if callee == nil || core.RecvNamed(callee) != R.DataFile || !v.readReach[callee] {
					continue
				}
				var pos ssa.Value
				for _, a := range ci.Common().Args[1:] {
					if pt, ok := a.Type().(*types.Pointer); ok {
						if nn, ok := pt.Elem().(*types.Named); ok && nn == R.DataPos {
							pos = a
						}
					}
				}
				if pos == nil {
					continue
				}
				n++
				recv := ci.Common().Args[0]
				why := v.vf2Judge(fn, recv, pos, 0)
				v.rep.Check(why == "", "VF2", "positional-read:"+core.FuncKey(fn), "the file read is the one the position names", v.p.InstrPos(in), why, true)
			}
		}
	}
	if n == 0 {
		core.Failf("vacuity guard: VF2 found no positional read")
	}
}

// vf2Judge: is recv (the DataFile a positional read is made on, in fn) selected by pos.Fid? "" if so.
func (v *vf) vf2Judge(fn *ssa.Function, recv, pos ssa.Value, d int) string {
	R := v.p.R
	why := ""
	for _, o := range core.Origins(recv) {
		switch t := o.(type) {
		case *ssa.Lookup:
			if f, _ := core.LoadedField(t.X); f != R.DBOlder {
				why = "file looked up in something other than the rotated-files map"
			} else if f2, pb := core.LoadedField(core.Unwrap(t.Index)); f2 != R.PosFid || !sameOrigin(pb, pos) {
				why = "rotated-files map is not indexed by this position's file id"
			} else if iff, eqIdx := v.fidTest(fn, pos); iff != nil {
				eq := iff.Block().Succs[eqIdx]
				if t.Block() == eq || (len(eq.Preds) == 1 && eq.Dominates(t.Block())) {
					why = "the rotated-files map is consulted on the edge where the active file's id EQUALS the position's file id (test flipped): rotated files are never read"
				}
			}
		case *ssa.Extract:
			if lk, ok := t.Tuple.(*ssa.Lookup); ok {
				if f, _ := core.LoadedField(lk.X); f != R.DBOlder {
					why = "file looked up in something other than the rotated-files map"
				} else if f2, pb := core.LoadedField(core.Unwrap(lk.Index)); f2 != R.PosFid || !sameOrigin(pb, pos) {
					why = "rotated-files map is not indexed by this position's file id"
				}
			} else {
				why = "unrecognised file selection"
			}
		case *ssa.UnOp:
			if f, _ := core.LoadedField(t); f == R.DBActive {
				if !v.hasFidTest(fn, pos) {
					why = "active file used without comparing its id with the position's file id"
				}
			} else {
				why = "unrecognised file selection"
			}
		case *ssa.Parameter:
			// the read lives in a helper that is handed the file and the position (`readValueFrom(file, pos)`):
			// judged at every call site of the helper, with the arguments in place of the parameters
			why = v.vf2ThroughParam(fn, t, pos, d)
		default:
			why = "unrecognised file selection (" + o.Name() + ")"
		}
		if why != "" {
			break
		}
	}
	return why
}

func (v *vf) vf2ThroughParam(fn *ssa.Function, recvP *ssa.Parameter, pos ssa.Value, d int) string {
	if d > 2 || token.IsExported(fn.Name()) {
		return "file handed in as a parameter of " + core.FuncKey(fn) + " (not followed)"
	}
	ri, pi := -1, -1
	for i, p := range fn.Params {
		if p == recvP {
			ri = i
		}
		for _, o := range core.Origins(pos) {
			if o == ssa.Value(p) {
				pi = i
			}
		}
	}
	if ri < 0 || pi < 0 {
		return "file is a parameter of " + core.FuncKey(fn) + " but the position is not"
	}
	sites := 0
	for _, caller := range v.p.LibFuncs() {
		for _, b := range caller.Blocks {
			for _, in := range b.Instrs {
				ci, ok := in.(ssa.CallInstruction)
				if !ok || ci.Common().StaticCallee() != fn {
					continue
				}
				if v.only != nil && !v.only(caller) && !(core.RecvNamed(caller) == nil && v.calledBy(caller, v.only)) {
					continue
				}
				args := ci.Common().Args
				if ri >= len(args) || pi >= len(args) {
					continue
				}
				sites++
				if w := v.vf2Judge(caller, args[ri], args[pi], d+1); w != "" {
					return w + " (at the call of " + fn.Name() + " in " + core.FuncKey(caller) + ", " + v.p.InstrPos(in) + ")"
				}
			}
		}
	}
	if sites == 0 {
		return "no call site of " + core.FuncKey(fn) + " found"
	}
	return ""
}

// calledBy: some function satisfying pred calls fn statically.
func (v *vf) calledBy(fn *ssa.Function, pred func(*ssa.Function) bool) bool {
	for _, caller := range v.p.LibFuncs() {
		if !pred(caller) {
			continue
		}
		for _, b := range caller.Blocks {
			for _, in := range b.Instrs {
				if ci, ok := in.(ssa.CallInstruction); ok && ci.Common().StaticCallee() == fn {
					return true
				}
			}
		}
	}
	return false
}

// hasFidTest: fn compares (active file).ID with pos.Fid.
func (v *vf) hasFidTest(fn *ssa.Function, pos ssa.Value) bool {
	R := v.p.R
	for _, b := range fn.Blocks {
		for _, in := range b.Instrs {
			bo, ok := in.(*ssa.BinOp)
			if !ok || (bo.Op != token.EQL && bo.Op != token.NEQ) {
				continue
			}
			for _, pr := range [][2]ssa.Value{{bo.X, bo.Y}, {bo.Y, bo.X}} {
				fa, ab := core.LoadedField(pr[0])
				fb, pb := core.LoadedField(pr[1])
				if fa == R.DFID && fb == R.PosFid && sameOrigin(pb, pos) {
					// the comparison must decide something: a test whose branch was emptied is dead code
					live := false
					if bo.Referrers() != nil {
						for _, r := range *bo.Referrers() {
							switch r.(type) {
							case *ssa.If, *ssa.Phi, *ssa.Return, *ssa.Store, *ssa.UnOp, *ssa.BinOp:
								live = true
							}
						}
					}
					if !live {
						continue
					}
					if f, _ := core.LoadedField(ab); f == R.DBActive {
						return true
					}
					// local alias of the active file (dataFile := db.activeFile)
					for _, o := range core.Origins(ab) {
						if f, _ := core.LoadedField(o); f == R.DBActive {
							return true
						}
					}
				}
			}
		}
	}
	return false
}

// fidTest: the live comparison of the active file's id with pos.Fid in fn: the If and the successor index on which
// the ids are EQUAL.
func (v *vf) fidTest(fn *ssa.Function, pos ssa.Value) (*ssa.If, int) {
	R := v.p.R
	for _, b := range fn.Blocks {
		iff, ok := b.Instrs[len(b.Instrs)-1].(*ssa.If)
		if !ok {
			continue
		}
		bo, ok := iff.Cond.(*ssa.BinOp)
		if !ok || (bo.Op != token.EQL && bo.Op != token.NEQ) {
			continue
		}
		for _, pr := range [][2]ssa.Value{{bo.X, bo.Y}, {bo.Y, bo.X}} {
			fa, _ := core.LoadedField(pr[0])
			fb, pb := core.LoadedField(pr[1])
			if fa == R.DFID && fb == R.PosFid && sameOrigin(pb, pos) {
				if bo.Op == token.EQL {
					return iff, 0
				}
				return iff, 1
			}
		}
	}
	return nil, 0
}

// dominatesInstr: instruction a dominates instruction b (same function).
func dominatesInstr(a, b ssa.Instruction) bool {
	ba, bb := a.Block(), b.Block()
	if ba == bb {
		for _, in := range ba.Instrs {
			if in == a {
				return true
			}
			if in == b {
				return false
			}
		}
		return false
	}
	return ba.Dominates(bb)
}

// framing calls: calls whose callee (transitively) encodes a log record.
func (v *vf) framingReach() map[*ssa.Function]bool {
	enc := v.p.Func(core.ModPath+"/datafile", "EncodeLogRecord")
	if enc == nil {
		core.Failf("role unresolved: datafile.EncodeLogRecord")
	}
	return v.p.Reaches("encode.logrecord", func(site ssa.CallInstruction) bool { return site.Common().StaticCallee() == enc })
}

// VF3a/b: every record framed for writing by a Batch method carries the batch's id (staged records and seal).
func (v *vf) vf3Tagging() {
	R := v.p.R
	v.rep.Rule("VF3", "batch-id tagging: every record a Batch method hands to a framing call has its BatchID stored from Batch.batchID on a dominating instruction (staged records and the seal); recovery applies tagged records only on the Type==BatchFinished edge; Merge stores BatchID 0 before rewriting; the pending-batch map outlives the per-file loop")
	fr := v.framingReach()
	n, seal := 0, 0
	for _, fn := range v.p.LibFuncs() {
		if core.RecvNamed(fn) != R.Batch {
			continue
		}
		for _, b := range fn.Blocks {
			for _, in := range b.Instrs {
				ci, ok := in.(ssa.CallInstruction)
				if !ok {
					continue
				}
				callee := ci.Common().StaticCallee()
				if callee == nil || !fr[callee] || core.RecvNamed(callee) != R.DataFile {
					continue
				}
				rec := v.recordArg(ci.Common())
				if rec == nil {
					continue
				}
				n++
				tagged := false
				for _, b2 := range fn.Blocks {
					for _, in2 := range b2.Instrs {
						f, base, val := core.StoreField(in2)
						if f != R.LRBatchID || !sameOrigin(base, rec) {
							continue
						}
						if core.LastField(core.Unwrap(val)) == R.BatchID && dominatesInstr(in2, in) {
							tagged = true
						}
					}
				}
				kind := "staged"
				if v.storesType(fn, rec, "LogRecordBatchFinished") {
					kind = "seal"
					seal++
				}
				v.rep.Check(tagged, "VF3", "tag:"+kind+":"+core.FuncKey(fn), "record framed by a batch carries the batch id", v.p.InstrPos(in), "no dominating store of Batch.batchID into the record's BatchID before it is framed (recovery groups records by batch id; an untagged seal never closes the batch)", true)
			}
		}
	}
	if n < 2 || seal < 1 {
		core.Failf("vacuity guard: VF3 expected staged and seal framing sites in Batch methods, found %d (seal %d)", n, seal)
	}
}

// storesType: fn stores the named record-type constant into rec.Type.
func (v *vf) storesType(fn *ssa.Function, rec ssa.Value, constName string) bool {
	cs := v.p.ConstsOf(core.ModPath+"/datafile", "LogRecordType")
	want, ok := cs[constName]
	if !ok {
		core.Failf("role unresolved: record type constant %s", constName)
	}
	for _, b := range fn.Blocks {
		for _, in := range b.Instrs {
			f, base, val := core.StoreField(in)
			if f != v.p.R.LRType || !sameOrigin(base, rec) {
				continue
			}
			if c, ok := val.(*ssa.Const); ok && c.Value != nil && constant.Compare(c.Value, token.EQL, want) {
				return true
			}
		}
	}
	return false
}

// edgeDominates: the (taken) edge of iff dominates block b.
func edgeDominates(iff *ssa.If, taken bool, b *ssa.BasicBlock) bool {
	succ := iff.Block().Succs[0]
	if !taken {
		succ = iff.Block().Succs[1]
	}
	if len(succ.Preds) != 1 {
		return false
	}
	return succ == b || succ.Dominates(b)
}

// VF3c: the replay loop applies a record with BatchID != 0 only under its seal.
func (v *vf) vf3Replay() {
	R := v.p.R
	cs := v.p.ConstsOf(core.ModPath+"/datafile", "LogRecordType")
	fin := cs["LogRecordBatchFinished"]
	// the replay function: calls NextLogRecord and (directly or through a closure) updates the index
	var replay *ssa.Function
	for _, fn := range v.p.LibFuncs() {
		if !inRootPkg(fn) || fn.Parent() != nil {
			continue
		}
		callsNext, hasPending := false, false
		for _, b := range fn.Blocks {
			for _, in := range b.Instrs {
				if ci, ok := in.(ssa.CallInstruction); ok {
					if c := ci.Common().StaticCallee(); c != nil && c.Name() == "NextLogRecord" && core.RecvNamed(c) == R.DataReader {
						callsNext = true
					}
				}
				if mm, ok := in.(*ssa.MakeMap); ok && strings.Contains(mm.Type().String(), "TransactionRecords") {
					hasPending = true
				}
			}
		}
		if callsNext && hasPending {
			replay = fn
		}
	}
	if replay == nil {
		core.Failf("role unresolved: replay function (NextLogRecord + pending-transaction map)")
	}
	// index-update sites in replay: direct ShardedIndex.Put/Delete calls or calls of closures that do them
	// (a closure of the replay function or an unexported function / method of the package - the closure is often turned
	// into a method; followed through unexported helpers, three levels)
	var isUpdaterD func(f *ssa.Function, d int) bool
	isUpdaterD = func(f *ssa.Function, d int) bool {
		if f == nil || d > 3 {
			return false
		}
		for _, b := range f.Blocks {
			for _, in := range b.Instrs {
				if ci, ok := in.(ssa.CallInstruction); ok {
					c := ci.Common().StaticCallee()
					if c != nil && core.RecvNamed(c) == R.ShardedIndex && (c.Name() == "Put" || c.Name() == "Delete") {
						return true
					}
					if c != nil && c != f && inRootPkg(c) && !token.IsExported(c.Name()) && isUpdaterD(c, d+1) {
						return true
					}
				}
			}
		}
		return false
	}
	isUpdater := func(f *ssa.Function) bool { return isUpdaterD(f, 0) }
	n := 0
	for _, b := range replay.Blocks {
		for _, in := range b.Instrs {
			ci, ok := in.(ssa.CallInstruction)
			if !ok {
				continue
			}
			c := ci.Common().StaticCallee()
			direct := c != nil && core.RecvNamed(c) == R.ShardedIndex && (c.Name() == "Put" || c.Name() == "Delete")
			if !direct && !(c != nil && (c.Parent() == replay || (inRootPkg(c) && !token.IsExported(c.Name()))) && isUpdater(c)) {
				continue
			}
			n++
			// must be dominated by the true edge of (BatchID == 0) or of (Type == BatchFinished)
			ok2 := false
			for _, bb := range replay.Blocks {
				iff, isIf := bb.Instrs[len(bb.Instrs)-1].(*ssa.If)
				if !isIf {
					continue
				}
				bo, isBo := iff.Cond.(*ssa.BinOp)
				if !isBo || (bo.Op != token.EQL && bo.Op != token.NEQ) {
					continue
				}
				taken := bo.Op == token.EQL
				f, _ := core.LoadedField(core.Unwrap(bo.X))
				cst, isC := bo.Y.(*ssa.Const)
				if !isC || cst.Value == nil {
					continue
				}
				switch {
				case f == R.LRBatchID && constant.Sign(cst.Value) == 0:
					if edgeDominates(iff, taken, b) {
						ok2 = true
					}
				case f == R.LRType && constant.Compare(cst.Value, token.EQL, fin):
					if edgeDominates(iff, taken, b) {
						ok2 = true
					}
				}
			}
			v.rep.Check(ok2, "VF3", fmt.Sprintf("replay-apply#%d:%s", n, core.FuncKey(replay)), "an index update during replay happens only for plain records (BatchID==0) or under the batch's seal (Type==BatchFinished)", v.p.InstrPos(in), "index update in the replay loop is not controlled by the BatchID==0 / Type==BatchFinished tests: records of unfinished batches would be applied", true)
		}
	}
	if n < 2 {
		core.Failf("vacuity guard: VF3c expected >= 2 apply sites in the replay loop, found %d", n)
	}
	// VF3f: once a batch has been applied under its seal, its pending entry is removed (a later seal with the
	// same id must not re-apply it over newer records)
	nDel := 0
	for _, b := range replay.Blocks {
		for _, in := range b.Instrs {
			ci, ok := in.(ssa.CallInstruction)
			if !ok {
				continue
			}
			if bi, ok := ci.Common().Value.(*ssa.Builtin); ok && bi.Name() == "delete" && strings.Contains(ci.Common().Args[0].Type().String(), "TransactionRecords") {
				// must be under the seal edge
				for _, bb := range replay.Blocks {
					iff, isIf := bb.Instrs[len(bb.Instrs)-1].(*ssa.If)
					if !isIf {
						continue
					}
					bo, isBo := iff.Cond.(*ssa.BinOp)
					if !isBo || (bo.Op != token.EQL && bo.Op != token.NEQ) {
						continue
					}
					if f, _ := core.LoadedField(core.Unwrap(bo.X)); f == R.LRType {
						if cst, isC := bo.Y.(*ssa.Const); isC && cst.Value != nil && constant.Compare(cst.Value, token.EQL, fin) && edgeDominates(iff, bo.Op == token.EQL, b) {
							nDel++
						}
					}
				}
			}
		}
	}
	v.rep.Check(nDel > 0, "VF3", "pending-entry-removed:"+core.FuncKey(replay), "the pending entry of a batch is deleted on the seal edge after it was applied", v.p.Pos(replay.Pos()), "no delete(pending, id) under the Type==BatchFinished edge: a second seal carrying the same id re-applies the old records over newer ones", true)
	// VF3e: the pending map is created outside every loop (batches span files)
	for _, b := range replay.Blocks {
		for _, in := range b.Instrs {
			if mm, ok := in.(*ssa.MakeMap); ok && strings.Contains(mm.Type().String(), "TransactionRecords") {
				inLoop := blockInLoop(b)
				v.rep.Check(!inLoop, "VF3", "pending-map-scope:"+core.FuncKey(replay), "the pending-batch map is created once, outside the per-file loop (a batch may span files)", v.p.InstrPos(in), "the pending-batch map is re-created inside a loop: records of a batch whose seal lies in a later file are dropped", true)
			}
		}
	}
}

// blockInLoop: b lies on a cycle of the CFG.
func blockInLoop(b *ssa.BasicBlock) bool {
	seen := map[*ssa.BasicBlock]bool{}
	var walk func(x *ssa.BasicBlock) bool
	walk = func(x *ssa.BasicBlock) bool {
		for _, s := range x.Succs {
			if s == b {
				return true
			}
			if !seen[s] {
				seen[s] = true
				if walk(s) {
					return true
				}
			}
		}
		return false
	}
	return walk(b)
}

// VF3d: Merge untags the records it rewrites.
func (v *vf) vf3Merge() {
	R := v.p.R
	merge := v.p.MustMethod(R.DB, "Merge")
	fr := v.framingReach()
	n := 0
	for _, b := range merge.Blocks {
		for _, in := range b.Instrs {
			ci, ok := in.(ssa.CallInstruction)
			if !ok {
				continue
			}
			callee := ci.Common().StaticCallee()
			if callee == nil || !fr[callee] {
				continue
			}
			rec := v.recordArg(ci.Common())
			if rec == nil {
				continue
			}
			n++
			untag := false
			for _, b2 := range merge.Blocks {
				for _, in2 := range b2.Instrs {
					f, base, val := core.StoreField(in2)
					if f == R.LRBatchID && sameOrigin(base, rec) {
						if c, ok := val.(*ssa.Const); ok && c.Value != nil && constant.Sign(c.Value) == 0 && dominatesInstr(in2, in) {
							untag = true
						}
					}
				}
			}
			v.rep.Check(untag, "VF3", "merge-untag:"+core.FuncKey(merge), "records rewritten by Merge are stored with BatchID 0 (their seal is never rewritten)", v.p.InstrPos(in), "no dominating store of 0 to the rewritten record's BatchID: the first full scan after adoption drops the record", true)
		}
	}
	if n == 0 {
		core.Failf("vacuity guard: VF3d found no rewriting call in Merge")
	}
}

// ---- accounting (VF4) -----------------------------------------------------------------------------

// counters resolves the two accounting counters by the exported Stat fields they are reported in.
func (v *vf) counters() (total, reclaim *types.Var) {
	R := v.p.R
	st := v.p.MustMethod(R.DB, "Stat")
	for _, b := range st.Blocks {
		for _, in := range b.Instrs {
			f, _, val := core.StoreField(in)
			if f == nil {
				continue
			}
			src, _ := core.LoadedField(core.Unwrap(val))
			if src == nil || fieldOwner(v.p, src) != R.DB {
				continue
			}
			switch f {
			case R.StatDisk:
				total = src
			case R.StatReclaim:
				reclaim = src
			}
		}
	}
	if total == nil || reclaim == nil {
		core.Failf("role unresolved: accounting counters behind Stat.DiskSize / Stat.ReclaimableSize")
	}
	return
}

// sizeAdds lists, for fn, the position values whose Size is added to counter.
func (v *vf) sizeAdds(fn *ssa.Function, counter *types.Var) []ssa.Value {
	var out []ssa.Value
	for _, b := range fn.Blocks {
		for _, in := range b.Instrs {
			f, _, val := core.StoreField(in)
			if f != counter {
				continue
			}
			bo, ok := val.(*ssa.BinOp)
			if !ok || bo.Op != token.ADD {
				continue
			}
			for _, pr := range [][2]ssa.Value{{bo.X, bo.Y}, {bo.Y, bo.X}} {
				if core.LastField(pr[0]) != counter {
					continue
				}
				if sf, base := core.LoadedField(core.Unwrap(pr[1])); sf == v.p.R.PosSize {
					out = append(out, base)
				}
			}
		}
	}
	return out
}

func containsOrigin(list []ssa.Value, v ssa.Value) bool {
	for _, x := range list {
		if sameOrigin(x, v) {
			return true
		}
	}
	return false
}

// addsForReturned: does callee (transitively, depth 2) add the Size of the position it returns as result #0 to counter?
func (v *vf) addsForReturned(callee *ssa.Function, counter *types.Var, depth int) bool {
	if callee == nil || callee.Blocks == nil || depth > 2 {
		return false
	}
	adds := v.sizeAdds(callee, counter)
	for _, r := range core.Returns(callee) {
		rv := core.ReturnOperand(r, 0)
		if rv == nil || core.IsNilConst(rv) {
			continue
		}
		if containsOrigin(adds, rv) {
			continue
		}
		if c, i := extractOf(rv); c != nil && i == 0 && v.addsForReturned(c.Common().StaticCallee(), counter, depth+1) {
			continue
		}
		return false
	}
	return true
}

// charged: is the Size of pos (a value in fn) added to counter in fn, or by the call that produced it?
func (v *vf) charged(fn *ssa.Function, pos ssa.Value, counter *types.Var) bool {
	if containsOrigin(v.sizeAdds(fn, counter), pos) {
		return true
	}
	if c, i := extractOf(pos); c != nil && i == 0 {
		return v.addsForReturned(c.Common().StaticCallee(), counter, 0)
	}
	return false
}

// supersededCharged: the result of an index update flows to a nil test whose non-nil side adds result.Size to reclaim.
func (v *vf) supersededCharged(fn *ssa.Function, res ssa.Value, reclaim *types.Var) string {
	if res.Referrers() == nil || len(*res.Referrers()) == 0 {
		return "the superseded position returned by the index update is discarded"
	}
	adds := v.sizeAdds(fn, reclaim)
	var addInstr ssa.Instruction
	for _, b := range fn.Blocks {
		for _, in := range b.Instrs {
			f, _, val := core.StoreField(in)
			if f != reclaim {
				continue
			}
			if bo, ok := val.(*ssa.BinOp); ok {
				for _, op := range []ssa.Value{bo.X, bo.Y} {
					if sf, base := core.LoadedField(core.Unwrap(op)); sf == v.p.R.PosSize && sameOriginLoose(base, res) {
						addInstr = in
					}
				}
			}
		}
	}
	_ = adds
	if addInstr == nil {
		return "the size of the superseded position is never added to the reclaimable counter"
	}
	// guarded by a non-nil test of the result
	for _, b := range fn.Blocks {
		iff, ok := b.Instrs[len(b.Instrs)-1].(*ssa.If)
		if !ok {
			continue
		}
		bo, ok := iff.Cond.(*ssa.BinOp)
		if !ok || (bo.Op != token.NEQ && bo.Op != token.EQL) || !core.IsNilConst(bo.Y) {
			continue
		}
		if !sameOriginLoose(bo.X, res) {
			continue
		}
		if edgeDominates(iff, bo.Op == token.NEQ, addInstr.Block()) {
			return ""
		}
	}
	return "the reclaim charge is not under the non-nil test of the superseded position"
}

// sameOriginLoose: origin sets intersect (for phi-merged results such as oldPos = phi(Delete(), Put())).
func sameOriginLoose(a, b ssa.Value) bool {
	x := originSet(a)
	for _, o := range core.Origins(b) {
		if x[o] {
			return true
		}
	}
	return false
}

// VF4: accounting pairing at every index update outside Merge's scratch database.
func (v *vf) vf4() {
	R := v.p.R
	total, reclaim := v.counters()
	v.rep.Rule("VF4", "accounting pairing (invariant total-reclaim = sum of indexed sizes): at every index Put the new position's Size is charged to the total counter (by this function or by the appending callee) and not to reclaim, and the superseded position returned by the index is charged to reclaim under its non-nil test; at every index Delete the tombstone's Size is charged to both counters and the superseded position to reclaim. Hint load exempt for the superseded part (index empty, hint keys unique)")
	v.rep.Tables = append(v.rep.Tables, "accounting counters resolved through Stat(): DiskSize <- DB."+total.Name()+", ReclaimableSize <- DB."+reclaim.Name())
	n := 0
	for _, fn := range v.p.LibFuncs() {
		if !inRootPkg(fn) {
			continue
		}
		isHint := false
		for _, b := range fn.Blocks {
			for _, in := range b.Instrs {
				if ci, ok := in.(ssa.CallInstruction); ok {
					if c := ci.Common().StaticCallee(); c != nil && c.Name() == "NextHintRecord" {
						isHint = true
					}
				}
			}
		}
		for _, b := range fn.Blocks {
			for _, in := range b.Instrs {
				call, ok := in.(*ssa.Call)
				if !ok {
					continue
				}
				callee := call.Common().StaticCallee()
				if callee == nil || core.RecvNamed(callee) != R.ShardedIndex {
					continue
				}
				switch callee.Name() {
				case "Put":
					n++
					pos := call.Common().Args[2]
					var why []string
					if !v.chargedDeep(fn, pos, total) {
						why = append(why, "the new record's size is not added to the total counter")
					}
					if v.addedOnPathOf(fn, reclaim, pos, in) {
						why = append(why, "the live record's size is added to the reclaimable counter")
					}
					if !isHint {
						if w := v.supersededCharged(fn, call, reclaim); w != "" {
							why = append(why, w)
						}
					}
					v.rep.Check(len(why) == 0, "VF4", "account-put:"+core.FuncKey(fn), "index Put is paired with total += new.Size and reclaim += old.Size", v.p.InstrPos(in), strings.Join(why, "; "), true)
				case "Delete":
					n++
					var why []string
					tomb := v.tombstonePos(fn, call)
					if tomb == nil {
						why = append(why, "cannot identify the tombstone position charged for this delete")
					} else {
						if !v.chargedDeep(fn, tomb, total) {
							why = append(why, "the tombstone's size is not added to the total counter")
						}
						if !v.chargedDeep(fn, tomb, reclaim) {
							why = append(why, "the tombstone's size is not added to the reclaimable counter")
						} else if v.chargeUnderResultTest(fn, tomb, reclaim, call) {
							why = append(why, "the tombstone's size is charged only when the index delete found a victim: live paths charge every tombstone, so the counters disagree after a restart")
						}
					}
					if w := v.supersededCharged(fn, call, reclaim); w != "" {
						why = append(why, w)
					}
					v.rep.Check(len(why) == 0, "VF4", "account-delete:"+core.FuncKey(fn), "index Delete is paired with total += tomb.Size, reclaim += tomb.Size and reclaim += old.Size", v.p.InstrPos(in), strings.Join(why, "; "), true)
				}
			}
		}
	}
	if n < 6 {
		core.Failf("vacuity guard: VF4 expected >= 6 index update sites, found %d", n)
	}
	// VF4b: the counters change only by adding the Size of a position (the only events that change what is on disk
	// or what is indexed); any other store (subtracting, resetting, scaling) breaks the identity for the running process
	var bad []string
	ns := 0
	for _, fn := range v.p.LibFuncs() {
		for _, b := range fn.Blocks {
			for _, in := range b.Instrs {
				f, base, val := core.StoreField(in)
				if (f != total && f != reclaim) || freshInFn(base, fn) {
					continue
				}
				ns++
				ok := false
				if bo, isBo := val.(*ssa.BinOp); isBo && bo.Op == token.ADD {
					for _, pr := range [][2]ssa.Value{{bo.X, bo.Y}, {bo.Y, bo.X}} {
						if core.LastField(pr[0]) == f {
							if sf, _ := core.LoadedField(core.Unwrap(pr[1])); sf == R.PosSize {
								ok = true
							}
						}
					}
				}
				if !ok {
					bad = append(bad, fmt.Sprintf("%s changes DB.%s at %s by something other than '+= <position>.Size'", core.FuncKey(fn), f.Name(), v.p.InstrPos(in)))
				}
			}
		}
	}
	v.rep.Check(len(bad) == 0, "VF4", "counter-stores-are-size-adds", fmt.Sprintf("all %d stores to the accounting counters add the Size of a position", ns), "", strings.Join(sortedStr(bad), "; ")+": the live counters stop matching what the files hold (and what a restart recomputes)", true)
}

// chargedDeep: charged here, or (for parameters) at every call site.
func (v *vf) chargedDeep(fn *ssa.Function, pos ssa.Value, counter *types.Var) bool {
	if v.charged(fn, pos, counter) {
		return true
	}
	return false
}

// tombstonePos finds the position value the delete site accounts for: the position in scope that is not the
// Delete's result - the pos parameter of a replay closure, the result of the appending call for a record
// whose Type is stored Deleted, or the flush result element at the record's index.
func (v *vf) tombstonePos(fn *ssa.Function, del *ssa.Call) ssa.Value {
	R := v.p.R
	// candidates: bases whose Size is added to reclaim in fn, other than the delete's own result
	for _, base := range v.sizeAdds(fn, func() *types.Var { _, r := v.counters(); return r }()) {
		if sameOriginLoose(base, del) {
			continue
		}
		_ = R
		return base
	}
	// positions produced by an appending call in fn
	for _, b := range fn.Blocks {
		for _, in := range b.Instrs {
			if c, ok := in.(*ssa.Call); ok {
				if callee := c.Common().StaticCallee(); callee != nil && v.writeReach[callee] && v.recordArg(c.Common()) != nil {
					for _, ref := range *c.Referrers() {
						if e, ok := ref.(*ssa.Extract); ok && e.Index == 0 {
							return e
						}
					}
				}
			}
		}
	}
	return nil
}

// sortedKeys helper
func sortedKeys(m map[string]bool) []string {
	var out []string
	for k := range m {
		out = append(out, k)
	}
	sort.Strings(out)
	return out
}

// addedOnPathOf: fn adds pos.Size to counter at an instruction that lies on a common path with `at`
// (one dominates the other).
func (v *vf) addedOnPathOf(fn *ssa.Function, counter *types.Var, pos ssa.Value, at ssa.Instruction) bool {
	for _, b := range fn.Blocks {
		for _, in := range b.Instrs {
			f, _, val := core.StoreField(in)
			if f != counter {
				continue
			}
			bo, ok := val.(*ssa.BinOp)
			if !ok || bo.Op != token.ADD {
				continue
			}
			for _, op := range []ssa.Value{bo.X, bo.Y} {
				if sf, base := core.LoadedField(core.Unwrap(op)); sf == v.p.R.PosSize && sameOrigin(base, pos) {
					if dominatesInstr(in, at) || dominatesInstr(at, in) {
						return true
					}
				}
			}
		}
	}
	return false
}

// chargeUnderResultTest: every add of pos.Size to counter in fn lies under a nil test of res.
func (v *vf) chargeUnderResultTest(fn *ssa.Function, pos ssa.Value, counter *types.Var, res ssa.Value) bool {
	found, allUnder := false, true
	for _, b := range fn.Blocks {
		for _, in := range b.Instrs {
			f, _, val := core.StoreField(in)
			if f != counter {
				continue
			}
			bo, ok := val.(*ssa.BinOp)
			if !ok || bo.Op != token.ADD {
				continue
			}
			for _, op := range []ssa.Value{bo.X, bo.Y} {
				sf, base := core.LoadedField(core.Unwrap(op))
				if sf != v.p.R.PosSize || !sameOrigin(base, pos) {
					continue
				}
				found = true
				under := false
				for _, gb := range fn.Blocks {
					iff, isIf := gb.Instrs[len(gb.Instrs)-1].(*ssa.If)
					if !isIf {
						continue
					}
					c, isBo := iff.Cond.(*ssa.BinOp)
					if !isBo || !core.IsNilConst(c.Y) || !sameOriginLoose(c.X, res) {
						continue
					}
					if edgeDominates(iff, true, b) || edgeDominates(iff, false, b) {
						under = true
					}
				}
				if !under {
					allUnder = false
				}
			}
		}
	}
	return found && allUnder
}

// ro1Rotation: whenever a shared database's active file is replaced, the outgoing file is first registered in
// the rotated-files map (otherwise positions that name it can no longer be resolved).
func ro1Rotation(p *core.Prog, rep *core.Report) {
	R := p.R
	rep.Rule("RO1", "rotation keeps the outgoing file readable: in every function (other than Open) that replaces a shared database's active file - directly or by calling the function that stores the field - a map update olderFiles[..] = <current active file> dominates the replacement")
	direct := map[*ssa.Function]bool{}
	for _, fn := range p.LibFuncs() {
		for _, b := range fn.Blocks {
			for _, in := range b.Instrs {
				if f, base, _ := core.StoreField(in); f == R.DBActive && !freshInFn(base, fn) {
					direct[fn] = true
				}
			}
		}
	}
	n := 0
	for _, fn := range p.LibFuncs() {
		if !inRootPkg(fn) || fn.Name() == "Open" || fn.Parent() != nil {
			continue
		}
		for _, b := range fn.Blocks {
			for _, in := range b.Instrs {
				ci, ok := in.(ssa.CallInstruction)
				if !ok {
					continue
				}
				callee := ci.Common().StaticCallee()
				if callee == nil || !direct[callee] || len(ci.Common().Args) == 0 || freshInFn(ci.Common().Args[0], fn) {
					continue
				}
				// Open-only loaders construct the file set of a fresh database
				openOnly := true
				for _, s := range libCallSites(p, fn) {
					if s.Parent().Name() != "Open" {
						openOnly = false
					}
				}
				if openOnly && len(libCallSites(p, fn)) > 0 {
					continue
				}
				n++
				registered := false
				for _, b2 := range fn.Blocks {
					for _, in2 := range b2.Instrs {
						mu, ok := in2.(*ssa.MapUpdate)
						if !ok {
							continue
						}
						if f, _ := core.LoadedField(mu.Map); f != R.DBOlder {
							continue
						}
						if f, _ := core.LoadedField(mu.Value); f == R.DBActive && dominatesInstr(in2, in) {
							registered = true
						}
					}
				}
				rep.Check(registered, "RO1", "rotation-registers-outgoing:"+core.FuncKey(fn), "the outgoing active file is put into the rotated-files map before it is replaced", p.InstrPos(in), "the active file is replaced without registering the outgoing one: every position that names it becomes unresolvable (ErrDataFileNotFound) until restart", true)
			}
		}
	}
	if n == 0 {
		core.Failf("vacuity guard: RO1 found no rotation site")
	}
}

// rp1SkipBelow: the replay loop skips a data file only when its id is STRICTLY below the first id that was not
// loaded from the hint.
func rp1SkipBelow(p *core.Prog, rep *core.Report) {
	rep.Rule("RP1", "hint/scan boundary: in the replay function the comparison between the scanned file id and the first-unhinted id sends equality to the 'scan it' edge (evaluated at below / equal / above, like MG1): the first file written after the merge is never skipped")
	var replay *ssa.Function
	for _, fn := range p.LibFuncs() {
		if !inRootPkg(fn) || fn.Parent() != nil {
			continue
		}
		callsNext := false
		for _, b := range fn.Blocks {
			for _, in := range b.Instrs {
				if ci, ok := in.(ssa.CallInstruction); ok {
					if c := ci.Common().StaticCallee(); c != nil && c.Name() == "NextLogRecord" {
						callsNext = true
					}
				}
			}
		}
		if callsNext && fn.Signature.Params().Len() == 2 && core.RecvNamed(fn) == p.R.DB {
			replay = fn
		}
	}
	if replay == nil {
		core.Failf("role unresolved: replay function with (file ids, first-unhinted id) parameters")
	}
	found := false
	why := ""
	for _, b := range replay.Blocks {
		iff, ok := b.Instrs[len(b.Instrs)-1].(*ssa.If)
		if !ok {
			continue
		}
		bo, ok := iff.Cond.(*ssa.BinOp)
		if !ok {
			continue
		}
		_, xp := bo.X.(*ssa.Parameter)
		_, yp := bo.Y.(*ssa.Parameter)
		if xp == yp {
			continue
		}
		// the other side must be an element of the file-id slice (range element)
		other := bo.X
		if xp {
			other = bo.Y
		}
		if x, _ := elemLoad(other); x == nil {
			continue
		}
		if _, ok := other.Type().Underlying().(*types.Basic); !ok {
			continue
		}
		found = true
		eval := func(id, lim int) bool {
			x, y := id, lim
			if xp {
				x, y = lim, id
			}
			switch bo.Op {
			case token.LSS:
				return x < y
			case token.LEQ:
				return x <= y
			case token.GTR:
				return x > y
			case token.GEQ:
				return x >= y
			case token.EQL:
				return x == y
			case token.NEQ:
				return x != y
			}
			return false
		}
		below, equal, above := eval(1, 2), eval(2, 2), eval(3, 2)
		// which edge skips? the one whose successor jumps straight back to the loop (no NewReader call dominated)
		skipsOn := func(taken bool) bool {
			succ := b.Succs[0]
			if !taken {
				succ = b.Succs[1]
			}
			// the skipping edge goes straight back to the loop header (a block that dominates the test itself),
			// possibly through an empty forwarding block
			if succ.Dominates(b) {
				return true
			}
			if len(succ.Instrs) == 1 && len(succ.Succs) == 1 && succ.Succs[0].Dominates(b) {
				return true
			}
			return false
		}
		if !(skipsOn(below) && !skipsOn(equal) && !skipsOn(above)) {
			why = fmt.Sprintf("the test at %s skips: below=%v equal=%v above=%v (must be true,false,false): a file whose id equals the first-unhinted id is never scanned and its records are lost after a merge adoption", p.InstrPos(iff), skipsOn(below), skipsOn(equal), skipsOn(above))
		}
	}
	if !found {
		why = "no comparison between the scanned file id and the first-unhinted id"
	}
	rep.Check(why == "", "RP1", "skip-strictly-below:"+core.FuncKey(replay), "files are skipped only strictly below the first-unhinted id", p.Pos(replay.Pos()), why, true)
}
