package rules

// Rules added after the fifth seeding round (minimal one-line changes). Each decides one structural necessary
// condition that a single deleted statement / changed operand breaks.

import (
	"fmt"
	"go/constant"
	"go/token"
	"go/types"
	"regexp"
	"strings"

	"golang.org/x/tools/go/ssa"

	"xkvverif/internal/core"
)

// ---- BT4b: the lookup map's buckets grow, they are not replaced -----------------------------------------------

func bt4bBucketAppend(p *core.Prog, rep *core.Report) {
	R := p.R
	rep.Rule("BT4b", "lookup buckets grow: every update of the batch's lookup map stores append(<the bucket read from the same map>, ...) - a bucket replaced by a fresh slice forgets the other staged keys with the same hash (read-your-writes and in-order application break for colliding keys)")
	var lookup *types.Var
	st := R.Batch.Underlying().(*types.Struct)
	for i := 0; i < st.NumFields(); i++ {
		if m, ok := st.Field(i).Type().Underlying().(*types.Map); ok {
			if _, isSlice := m.Elem().Underlying().(*types.Slice); isSlice {
				lookup = st.Field(i)
			}
		}
	}
	if lookup == nil {
		return // no bucketed lookup map: nothing to decide
	}
	n := 0
	var bad []string
	for _, fn := range p.LibFuncs() {
		for _, b := range fn.Blocks {
			for _, in := range b.Instrs {
				mu, ok := in.(*ssa.MapUpdate)
				if !ok || core.LastField(mu.Map) != lookup {
					continue
				}
				n++
				okv := false
				if c, ok := mu.Value.(*ssa.Call); ok {
					if bi, ok := c.Call.Value.(*ssa.Builtin); ok && bi.Name() == "append" && len(c.Call.Args) > 0 {
						for _, o := range core.Origins(c.Call.Args[0]) {
							if lk, ok := o.(*ssa.Lookup); ok && core.LastField(lk.X) == lookup {
								okv = true
							}
						}
					}
				}
				if !okv {
					bad = append(bad, fmt.Sprintf("%s stores a bucket at %s that is not append(existing bucket, ...)", core.FuncKey(fn), p.InstrPos(in)))
				}
			}
		}
	}
	if n == 0 {
		return
	}
	rep.Check(len(bad) == 0, "BT4b", "bucket-append", fmt.Sprintf("all %d updates of Batch.%s extend the existing bucket", n, lookup.Name()), "", strings.Join(sortedStr(bad), "; "), true)
}

// ---- PS5k / PS5l: adoption tolerates what an interrupted earlier attempt already did; Merge writes only into its
// scratch directory ------------------------------------------------------------------------------------------

func (m *mergeCtx) ps5Tolerant() {
	p, rep := m.p, m.rep
	rep.Rule("PS5k", "adoption is re-runnable: in the adoption function the error of every os.Remove of an original is also handed to os.IsNotExist (a file an interrupted earlier attempt - or an earlier merge - already removed must not make Open fail for good)")
	ad := m.adopt
	if ad == nil {
		return
	}
	n := 0
	var bad []string
	for _, b := range ad.Blocks {
		for _, in := range b.Instrs {
			c, ok := in.(*ssa.Call)
			if !ok || !core.StaticCalleeIs(c.Common(), "os.Remove") {
				continue
			}
			n++
			tolerant := false
			vals := []ssa.Value{c}
			for k := 0; k < len(vals) && k < 8; k++ {
				if vals[k].Referrers() == nil {
					continue
				}
				for _, r := range *vals[k].Referrers() {
					switch t := r.(type) {
					case *ssa.Phi:
						vals = append(vals, t)
					case *ssa.Call:
						if core.StaticCalleeIs(t.Common(), "os.IsNotExist") || core.StaticCalleeIs(t.Common(), "errors.Is") {
							tolerant = true
						}
					}
				}
			}
			if !tolerant {
				bad = append(bad, "the error of os.Remove at "+p.InstrPos(in)+" is never tested with os.IsNotExist")
			}
		}
	}
	if n > 0 {
		rep.Check(len(bad) == 0, "PS5k", "adoption-tolerates-missing:"+core.FuncKey(ad), fmt.Sprintf("all %d removals of originals tolerate an already missing file", n), p.Pos(ad.Pos()), strings.Join(bad, "; "), true)
	}
}

func (m *mergeCtx) ps5ScratchOnly() {
	p, rep := m.p, m.rep
	rep.Rule("PS5l", "Merge writes only into its scratch directory: the directory argument of every datafile.OpenFile call in Merge (hint file, marker) is the value Merge created with os.MkdirAll, and so is the DirPath of the scratch DB it appends through; nothing Merge produces lands in the data directory before adoption")
	mg := m.merge
	var mk ssa.Value
	for _, b := range mg.Blocks {
		for _, in := range b.Instrs {
			if c, ok := in.(*ssa.Call); ok && core.StaticCalleeIs(c.Common(), "os.MkdirAll") && len(c.Common().Args) > 0 {
				mk = c.Common().Args[0]
			}
		}
	}
	if mk == nil {
		rep.Unk("PS5l", "scratch-dir:"+core.FuncKey(mg), "Merge creates its scratch directory with os.MkdirAll", p.Pos(mg.Pos()), "no os.MkdirAll found")
		return
	}
	n := 0
	var bad []string
	for _, b := range mg.Blocks {
		for _, in := range b.Instrs {
			c, ok := in.(*ssa.Call)
			if !ok {
				continue
			}
			if f := c.Common().StaticCallee(); f != nil && f.Name() == "OpenFile" && f.Package() != nil && f.Package().Pkg.Path() == core.ModPath+"/datafile" && len(c.Common().Args) > 0 {
				n++
				if !sameOriginLoose(c.Common().Args[0], mk) {
					bad = append(bad, "OpenFile at "+p.InstrPos(in)+" is given a directory other than the scratch directory")
				}
			}
		}
	}
	if n == 0 {
		rep.Unk("VAC", "PS5l", "expected OpenFile calls in Merge", "", "found none")
		return
	}
	rep.Check(len(bad) == 0, "PS5l", "merge-writes-scratch-only:"+core.FuncKey(mg), fmt.Sprintf("all %d files Merge opens itself live in the scratch directory", n), p.Pos(mg.Pos()), strings.Join(bad, "; "), true)
}

// ---- MP1: where the scratch directory is ----------------------------------------------------------------------

func (m *mergeCtx) mp1MergePath() {
	p, rep := m.p, m.rep
	rep.Rule("MP1", "the scratch directory is a sibling named after the data directory: in the function that computes the merge path the argument of filepath.Base derives from Options.DirPath without passing through filepath.Dir (else every database under one parent shares one scratch directory), and the argument of filepath.Dir passes through filepath.Clean (else a trailing separator puts the scratch directory inside the data directory)")
	// the path function: library function called by Merge whose result reaches os.MkdirAll
	var pf *ssa.Function
	for _, b := range m.merge.Blocks {
		for _, in := range b.Instrs {
			if c, ok := in.(*ssa.Call); ok && core.StaticCalleeIs(c.Common(), "os.MkdirAll") && len(c.Common().Args) > 0 {
				for _, o := range core.Origins(c.Common().Args[0]) {
					if oc, ok := o.(*ssa.Call); ok {
						if f := oc.Common().StaticCallee(); f != nil && p.InLib(f) {
							pf = f
						}
					}
				}
			}
		}
	}
	if pf == nil {
		return
	}
	var through func(v ssa.Value, name string, d int) bool
	through = func(v ssa.Value, name string, d int) bool {
		if v == nil || d > 10 {
			return false
		}
		switch t := v.(type) {
		case *ssa.Call:
			if core.StaticCalleeIs(t.Common(), name) {
				return true
			}
			for _, a := range t.Common().Args {
				if through(a, name, d+1) {
					return true
				}
			}
		case *ssa.Phi:
			for _, e := range t.Edges {
				if through(e, name, d+1) {
					return true
				}
			}
		case *ssa.BinOp:
			return through(t.X, name, d+1) || through(t.Y, name, d+1)
		case *ssa.Convert:
			return through(t.X, name, d+1)
		}
		return false
	}
	var bad []string
	n := 0
	for _, b := range pf.Blocks {
		for _, in := range b.Instrs {
			c, ok := in.(*ssa.Call)
			if !ok || len(c.Common().Args) == 0 {
				continue
			}
			switch {
			case core.StaticCalleeIs(c.Common(), "path/filepath.Base"):
				n++
				if through(c.Common().Args[0], "path/filepath.Dir", 0) {
					bad = append(bad, "filepath.Base at "+p.InstrPos(in)+" is applied to the parent directory: the scratch directory is named after the parent and shared by its children")
				}
			case core.StaticCalleeIs(c.Common(), "path/filepath.Dir"):
				n++
				if !through(c.Common().Args[0], "path/filepath.Clean", 0) {
					bad = append(bad, "filepath.Dir at "+p.InstrPos(in)+" is applied to an un-cleaned path: with a trailing separator the scratch directory lies inside the data directory")
				}
			}
		}
	}
	if n == 0 {
		return
	}
	rep.Check(len(bad) == 0, "MP1", "merge-path:"+core.FuncKey(pf), "the scratch directory is <parent>/<name of the data directory><suffix>", p.Pos(pf.Pos()), strings.Join(bad, "; "), true)
}

// ---- IT1: the prefix filter runs after every move ------------------------------------------------------------

func it1FilterAfterMove(p *core.Prog, rep *core.Report) {
	R := p.R
	rep.Rule("IT1", "prefix filter after every move: every exported method of the database iterator that moves the merged index iterator (Rewind / Seek / Next on it) calls the filter (the method that reads IteratorOptions.Prefix) afterwards on every path to its return")
	var filter *ssa.Function
	ms := p.SSA.MethodSets.MethodSet(types.NewPointer(R.Iterator))
	var methods []*ssa.Function
	for i := 0; i < ms.Len(); i++ {
		fn := p.SSA.MethodValue(ms.At(i))
		if fn == nil || fn.Blocks == nil {
			continue
		}
		methods = append(methods, fn)
		for _, b := range fn.Blocks {
			for _, in := range b.Instrs {
				if u, ok := in.(*ssa.UnOp); ok {
					if f, _ := core.LoadedField(u); f != nil && f.Name() == "Prefix" {
						filter = fn
					}
				}
			}
		}
	}
	if filter == nil {
		rep.Unk("IT1", "filter", "the iterator has a method that reads the prefix option", "", "not found")
		return
	}
	n := 0
	for _, fn := range methods {
		if fn == filter || !token.IsExported(fn.Name()) {
			continue
		}
		var moves []ssa.Instruction
		for _, b := range fn.Blocks {
			for _, in := range b.Instrs {
				c, ok := in.(*ssa.Call)
				if !ok {
					continue
				}
				f := c.Common().StaticCallee()
				if f != nil && core.RecvNamed(f) == R.IndexIterator && (f.Name() == "Rewind" || f.Name() == "Seek" || f.Name() == "Next") {
					moves = append(moves, in)
				}
			}
		}
		for _, mv := range moves {
			n++
			// every path from the move to a return passes a call of the filter
			isF := func(in ssa.Instruction) bool {
				c, ok := in.(*ssa.Call)
				return ok && c.Common().StaticCallee() == filter
			}
			escape := ""
			b := mv.Block()
			covered := false
			for j := indexIn(mv) + 1; j < len(b.Instrs); j++ {
				if isF(b.Instrs[j]) {
					covered = true
				}
			}
			if !covered {
				seen := map[*ssa.BasicBlock]bool{}
				var dfs func(x *ssa.BasicBlock)
				dfs = func(x *ssa.BasicBlock) {
					if escape != "" {
						return
					}
					if r, ok := x.Instrs[len(x.Instrs)-1].(*ssa.Return); ok {
						escape = p.InstrPos(r)
						return
					}
					for _, s := range x.Succs {
						if seen[s] {
							continue
						}
						seen[s] = true
						has := false
						for _, in := range s.Instrs {
							if isF(in) {
								has = true
							}
						}
						if !has {
							dfs(s)
						}
					}
				}
				dfs(b)
			}
			rep.Check(escape == "", "IT1", "filter-after-move:"+core.FuncKey(fn), "the cursor is filtered by prefix after it was moved", p.InstrPos(mv), "the index iterator is moved at "+p.InstrPos(mv)+" and the method returns at "+escape+" without applying the prefix filter: the iterator is Valid on a key that does not carry the prefix", true)
		}
	}
	if n == 0 {
		rep.Unk("VAC", "IT1", "expected moving methods", "", "found none")
	}
}

// ---- CL1: Close closes every file ----------------------------------------------------------------------------

func cl1CloseAll(p *core.Prog, rep *core.Report) {
	R := p.R
	rep.Rule("CL1", "Close closes every file: DB.Close calls (*DataFile).Close on the active file and, inside a loop over the rotated-files map, on every rotated file; the map field is not replaced before that loop. (Sync is not enough: only Close cuts a memory-mapped file back from its 512 MiB mapping to its logical size; an unclosed file makes the next Open fail.)")
	cl := p.MustMethod(R.DB, "Close")
	dfClose := p.MustMethod(R.DataFile, "Close")
	older := R.DBOlder
	var loopClose, activeClose ssa.Instruction
	var mapStores []ssa.Instruction
	var rangeInstr ssa.Instruction
	for _, b := range cl.Blocks {
		for _, in := range b.Instrs {
			switch t := in.(type) {
			case *ssa.Range:
				if core.LastField(t.X) == older {
					rangeInstr = in
				}
			case *ssa.Store:
				if f, _, _ := core.StoreField(in); f == older {
					mapStores = append(mapStores, in)
				}
			case *ssa.Call:
				if t.Common().StaticCallee() != dfClose || len(t.Common().Args) == 0 {
					continue
				}
				recv := t.Common().Args[0]
				if core.LastField(recv) == R.DBActive {
					activeClose = in
					continue
				}
				for _, o := range core.Origins(recv) {
					if ex, ok := o.(*ssa.Extract); ok {
						if nx, ok := ex.Tuple.(*ssa.Next); ok {
							if rg, ok := nx.Iter.(*ssa.Range); ok && core.LastField(rg.X) == older {
								loopClose = in
							}
						}
					}
				}
			}
		}
	}
	var bad []string
	if activeClose == nil {
		bad = append(bad, "the active file is never closed")
	}
	if loopClose == nil {
		bad = append(bad, "no (*DataFile).Close on the elements of a loop over the rotated files")
	}
	if rangeInstr != nil {
		for _, st := range mapStores {
			if before(st, rangeInstr) {
				bad = append(bad, "the rotated-files map is replaced at "+p.InstrPos(st)+" before the loop that closes its files: the loop runs over the new (empty) map")
			}
		}
	}
	rep.Check(len(bad) == 0, "CL1", "close-all:"+core.FuncKey(cl), "every open data file is closed by Close", p.Pos(cl.Pos()), strings.Join(bad, "; "), true)
}

// ---- FN1: file names sort like ids -----------------------------------------------------------------------------

var fixedWidth = regexp.MustCompile(`%0([0-9]+)d`)

func fn1NamesSortLikeIds(p *core.Prog, rep *core.Report) {
	rep.Rule("FN1", "file names sort like ids: the loader takes the data files in directory-listing (lexical) order and treats the last one as the newest, without sorting the ids itself; the file-name constructor therefore formats the id zero-padded to a fixed width (%0Nd, N >= 9). If the loader sorts the ids numerically the format is free.")
	var loader *ssa.Function
	for _, fn := range p.LibFuncs() {
		if core.RecvNamed(fn) != p.R.DB {
			continue
		}
		readsDir, storesActive := false, false
		for _, b := range fn.Blocks {
			for _, in := range b.Instrs {
				if c, ok := in.(*ssa.Call); ok && core.StaticCalleeIs(c.Common(), "os.ReadDir") {
					readsDir = true
				}
				if f, _, _ := core.StoreField(in); f == p.R.DBActive {
					storesActive = true
				}
			}
		}
		if readsDir && storesActive {
			loader = fn
		}
	}
	if loader == nil {
		return
	}
	sorts := false
	for _, b := range loader.Blocks {
		for _, in := range b.Instrs {
			if c, ok := in.(*ssa.Call); ok {
				if f := c.Common().StaticCallee(); f != nil && f.Package() != nil && (f.Package().Pkg.Path() == "sort" || f.Package().Pkg.Path() == "slices") {
					sorts = true
				}
			}
		}
	}
	if sorts {
		rep.OK("FN1", "names-sort-like-ids", "the loader sorts the ids itself", p.Pos(loader.Pos()), false)
		return
	}
	gfn := p.Func(core.ModPath+"/datafile", "GetFileName")
	if gfn == nil {
		rep.Unk("FN1", "names-sort-like-ids", "file-name constructor found", "", "datafile.GetFileName not found")
		return
	}
	okf := false
	detail := "no zero-padded fixed-width integer verb in the format of the file-name constructor"
	for _, b := range gfn.Blocks {
		for _, in := range b.Instrs {
			c, ok := in.(*ssa.Call)
			if !ok || !core.StaticCalleeIs(c.Common(), "fmt.Sprintf") || len(c.Common().Args) == 0 {
				continue
			}
			// the format may be a constant or constant + suffix
			var consts []string
			var walk func(v ssa.Value, d int)
			walk = func(v ssa.Value, d int) {
				if d > 4 {
					return
				}
				switch t := v.(type) {
				case *ssa.Const:
					if t.Value != nil && t.Value.Kind() == constant.String {
						consts = append(consts, constant.StringVal(t.Value))
					}
				case *ssa.BinOp:
					walk(t.X, d+1)
					walk(t.Y, d+1)
				}
			}
			walk(c.Common().Args[0], 0)
			for _, s := range consts {
				if mm := fixedWidth.FindStringSubmatch(s); mm != nil {
					var w int
					fmt.Sscanf(mm[1], "%d", &w)
					if w >= 9 {
						okf = true
					} else {
						detail = fmt.Sprintf("the id is padded to %d digits only", w)
					}
				}
			}
		}
	}
	rep.Check(okf, "FN1", "names-sort-like-ids", "ids are formatted zero-padded to a fixed width, so lexical order is id order", p.Pos(gfn.Pos()), detail+": from the tenth file on the listing order differs from the id order, older records overwrite newer ones at replay and a middle file becomes the active file", true)
}

// ---- FLT1: the score codec keeps 64 bits --------------------------------------------------------------------

func flt1ScoreCodec(p *core.Prog, rep *core.Report) {
	rep.Rule("FLT1", "score codec keeps full precision: every strconv.FormatFloat / ParseFloat in the library is called with bitSize 64")
	n := 0
	var bad []string
	for _, fn := range p.LibFuncs() {
		for _, b := range fn.Blocks {
			for _, in := range b.Instrs {
				c, ok := in.(*ssa.Call)
				if !ok {
					continue
				}
				idx := -1
				switch {
				case core.StaticCalleeIs(c.Common(), "strconv.FormatFloat"):
					idx = 3
				case core.StaticCalleeIs(c.Common(), "strconv.ParseFloat"):
					idx = 1
				}
				if idx < 0 || idx >= len(c.Common().Args) {
					continue
				}
				n++
				if k, ok := constInt(c.Common().Args[idx]); !ok || k != 64 {
					bad = append(bad, fmt.Sprintf("%s converts a float with a bitSize other than 64 at %s", core.FuncKey(fn), p.InstrPos(in)))
				}
			}
		}
	}
	if n == 0 {
		return
	}
	rep.Check(len(bad) == 0, "FLT1", "float-codec-64", fmt.Sprintf("all %d float conversions use 64 bits", n), "", strings.Join(sortedStr(bad), "; ")+": scores that need more than 24 mantissa bits come back rounded", true)
}

// ---- SK1: Seek is inclusive ------------------------------------------------------------------------------------

func sk1SeekInclusive(p *core.Prog, rep *core.Report) {
	rep.Rule("SK1", "Seek is inclusive: in the seek methods of the shard iterators (and the closures they pass to a search), a comparison of a bytes.Compare result with 0 that decides the position holds when the two keys are equal - evaluated at cmp = 0 through negations")
	n := 0
	var bad []string
	for _, fn := range p.LibFuncs() {
		root := fn
		for root.Parent() != nil {
			root = root.Parent()
		}
		if root.Name() != "seek" || root.Package() == nil || root.Package().Pkg.Path() != core.ModPath+"/index" {
			continue
		}
		for _, b := range fn.Blocks {
			for _, in := range b.Instrs {
				bo, ok := in.(*ssa.BinOp)
				if !ok {
					continue
				}
				var cmp ssa.Value
				var k int64
				var okc bool
				flip := false
				if k, okc = constInt(bo.Y); okc {
					cmp = bo.X
				} else if k, okc = constInt(bo.X); okc {
					cmp = bo.Y
					flip = true
				}
				if !okc || k != 0 {
					continue
				}
				c, ok := cmp.(*ssa.Call)
				if !ok || !core.StaticCalleeIs(c.Common(), "bytes.Compare") {
					continue
				}
				op := bo.Op
				if flip {
					switch op {
					case token.LSS:
						op = token.GTR
					case token.LEQ:
						op = token.GEQ
					case token.GTR:
						op = token.LSS
					case token.GEQ:
						op = token.LEQ
					}
				}
				// value at cmp == 0
				val := op == token.LEQ || op == token.GEQ || op == token.EQL
				// negations on the way to the use
				var v ssa.Value = bo
				for {
					neg := false
					if v.Referrers() != nil {
						for _, r := range *v.Referrers() {
							if u, ok := r.(*ssa.UnOp); ok && u.Op == token.NOT {
								v = u
								val = !val
								neg = true
								break
							}
						}
					}
					if !neg {
						break
					}
				}
				// only predicates that are returned (search predicates) or branch conditions of the seek itself
				n++
				if !val {
					bad = append(bad, fmt.Sprintf("%s: the comparison at %s is false for equal keys: Seek(k) skips a stored key k", core.FuncKey(fn), p.InstrPos(bo)))
				}
			}
		}
	}
	if n == 0 {
		return
	}
	rep.Check(len(bad) == 0, "SK1", "seek-inclusive", fmt.Sprintf("all %d key comparisons in the shard iterators' seek hold at equality", n), "", strings.Join(sortedStr(bad), "; "), true)
}

// ---- LIST2: the stored length moves with the window --------------------------------------------------------------

func list2SizeWithCursor(p *core.Prog, rep *core.Report) {
	rep.Rule("LIST2", "the stored length moves with the window: a function that moves a list cursor so that the window grows (low cursor -1 / high cursor +1) also adds 1 to the metadata's size field, one that shrinks it subtracts 1 (a pop that keeps the size makes every later push reply a wrong length and a drained list never look empty)")
	inPkg := func(fn *ssa.Function) bool {
		return fn.Package() != nil && fn.Package().Pkg.Path() == core.ModPath+"/datatype"
	}
	type upd struct {
		f     *types.Var
		delta int64
	}
	perFn := map[*ssa.Function][]upd{}
	both := map[*types.Var][2]bool{}
	for _, fn := range p.LibFuncs() {
		if !inPkg(fn) {
			continue
		}
		for _, b := range fn.Blocks {
			for _, in := range b.Instrs {
				f, _, val := core.StoreField(in)
				if f == nil {
					continue
				}
				bo, ok := val.(*ssa.BinOp)
				if !ok || (bo.Op != token.ADD && bo.Op != token.SUB) {
					continue
				}
				k, isC := constInt(bo.Y)
				if !isC || k != 1 {
					continue
				}
				if lf, _ := core.LoadedField(bo.X); lf != f {
					continue
				}
				d := int64(1)
				if bo.Op == token.SUB {
					d = -1
				}
				perFn[fn] = append(perFn[fn], upd{f, d})
				x := both[f]
				if d > 0 {
					x[0] = true
				} else {
					x[1] = true
				}
				both[f] = x
			}
		}
	}
	is64 := func(f *types.Var) bool {
		b, ok := f.Type().Underlying().(*types.Basic)
		return ok && (b.Kind() == types.Uint64 || b.Kind() == types.Int64)
	}
	var cursors []*types.Var
	for f, x := range both {
		if x[0] && x[1] && is64(f) {
			cursors = append(cursors, f)
		}
	}
	if len(cursors) != 2 {
		return // LIST1 reports the missing cursors
	}
	lo, hi := cursors[0], cursors[1]
	if lo.Pos() > hi.Pos() {
		lo, hi = hi, lo
	}
	// which cursor is the low end: the one whose slot convention LIST1 checks is not needed here - growing is
	// "the two cursors move apart". Decide apart / together from the sign pattern: lo-1 or hi+1 = grow.
	// lo is the field declared first (head); a tree that swaps the declarations flips both verdicts consistently,
	// which the sign agreement below still detects.
	n := 0
	for fn, us := range perFn {
		grow, shrink := false, false
		var sizes []int64
		for _, u := range us {
			switch {
			case u.f == lo:
				if u.delta < 0 {
					grow = true
				} else {
					shrink = true
				}
			case u.f == hi:
				if u.delta > 0 {
					grow = true
				} else {
					shrink = true
				}
			case !is64(u.f):
				sizes = append(sizes, u.delta)
			}
		}
		if grow == shrink {
			continue // not a cursor-moving function (or moves both ways)
		}
		n++
		want := int64(1)
		if shrink {
			want = -1
		}
		ok := false
		wrong := false
		for _, d := range sizes {
			if d == want {
				ok = true
			} else {
				wrong = true
			}
		}
		word := map[bool]string{true: "grows", false: "shrinks"}[grow]
		detail := fmt.Sprintf("%s moves a cursor so that the window %s but does not change the size field by %+d", core.FuncKey(fn), word, want)
		if wrong {
			detail = fmt.Sprintf("%s moves a cursor so that the window %s but changes the size field the other way", core.FuncKey(fn), word)
			ok = false
		}
		rep.Check(ok, "LIST2", "size-with-window:"+core.FuncKey(fn), "the stored length follows the window", p.Pos(fn.Pos()), detail, true)
	}
	_ = n
}

// ---- HP3: a cursor is in one container only -------------------------------------------------------------------

func hp3NoDuplicates(p *core.Prog, rep *core.Report) {
	rep.Rule("HP3", "a cursor lives in one container: a method of the merged iterator that appends the elements it reads from one container field to another container field also replaces (empties) the field it read from; otherwise every later call queues the same shard cursors again (keys repeated, heap indexes out of range)")
	iterIface := p.R.IterIface
	isCursorSlice := func(t types.Type) bool {
		sl, ok := t.Underlying().(*types.Slice)
		if !ok {
			return false
		}
		n, ok := sl.Elem().(*types.Named)
		return ok && n == iterIface
	}
	ms := p.SSA.MethodSets.MethodSet(types.NewPointer(p.R.IndexIterator))
	n := 0
	for i := 0; i < ms.Len(); i++ {
		fn := p.SSA.MethodValue(ms.At(i))
		if fn == nil || fn.Blocks == nil {
			continue
		}
		replaced := map[*types.Var]bool{}
		for _, b := range fn.Blocks {
			for _, in := range b.Instrs {
				if f, _, val := core.StoreField(in); f != nil && isCursorSlice(f.Type()) {
					self := false
					if c, ok := val.(*ssa.Call); ok {
						if bi, ok := c.Call.Value.(*ssa.Builtin); ok && bi.Name() == "append" && len(c.Call.Args) > 0 && core.LastField(c.Call.Args[0]) == f {
							self = true
						}
					}
					if !self {
						replaced[f] = true
					}
				}
			}
		}
		// moves: element loaded from field A (range over load of A) stored into varargs of append whose result is stored to field B != A
		for _, b := range fn.Blocks {
			for _, in := range b.Instrs {
				f, _, val := core.StoreField(in)
				if f == nil || !isCursorSlice(f.Type()) {
					continue
				}
				c, ok := val.(*ssa.Call)
				if !ok {
					continue
				}
				bi, ok := c.Call.Value.(*ssa.Builtin)
				if !ok || bi.Name() != "append" || len(c.Call.Args) < 2 {
					continue
				}
				// elements appended
				var elems []ssa.Value
				if sl, ok := c.Call.Args[1].(*ssa.Slice); ok {
					if al, ok := sl.X.(*ssa.Alloc); ok {
						for _, r := range *al.Referrers() {
							if ia, ok := r.(*ssa.IndexAddr); ok {
								for _, r2 := range *ia.Referrers() {
									if st, ok := r2.(*ssa.Store); ok {
										elems = append(elems, st.Val)
									}
								}
							}
						}
					}
				}
				for _, e := range elems {
					for _, o := range core.Origins(e) {
						u, ok := o.(*ssa.UnOp)
						if !ok {
							continue
						}
						ia, ok := u.X.(*ssa.IndexAddr)
						if !ok {
							continue
						}
						for _, so := range core.Origins(ia.X) {
							src, _ := core.LoadedField(so)
							if src == nil || src == f || !isCursorSlice(src.Type()) {
								continue
							}
							n++
							rep.Check(replaced[src], "HP3", fmt.Sprintf("moved-not-copied:%s:%s->%s", core.FuncKey(fn), src.Name(), f.Name()), "the container the cursors were taken from is emptied", p.InstrPos(in), fmt.Sprintf("%s appends the cursors of %s to %s but never resets %s: the next call adds them again", core.FuncKey(fn), src.Name(), f.Name(), src.Name()), true)
						}
					}
				}
			}
		}
	}
	_ = n
}

// ---- CD10: the batch writer threads the cursor through its loop ------------------------------------------------

func cd10LoopCarriedCursor(p *core.Prog, rep *core.Report) {
	rep.Rule("CD10", "the cursor is threaded through the batch writer: where the chunk framer is called inside a loop, each cursor argument (a parameter the framer returns an updated value of) is the value the previous call returned - a loop phi whose back edge carries this call's own result - not a field re-read on every iteration")
	fr := chunkWriter(p)
	// parameter i -> result j when result j derives from parameter i
	pair := map[int]int{}
	for _, r := range core.Returns(fr) {
		for j := 0; j < len(r.Results); j++ {
			for _, o := range core.Origins(core.ReturnOperand(r, j)) {
				var walk func(v ssa.Value, d int)
				walk = func(v ssa.Value, d int) {
					if d > 8 {
						return
					}
					switch t := v.(type) {
					case *ssa.Parameter:
						for i, pp := range fr.Params {
							if pp == t && types.Identical(t.Type(), fr.Signature.Results().At(j).Type()) {
								pair[i] = j
							}
						}
					case *ssa.BinOp:
						walk(t.X, d+1)
						walk(t.Y, d+1)
					case *ssa.Phi:
						for _, e := range t.Edges {
							walk(e, d+1)
						}
					case *ssa.Convert:
						walk(t.X, d+1)
					}
				}
				walk(o, 0)
			}
		}
	}
	n := 0
	for _, fn := range p.LibFuncs() {
		loops := naturalLoops(fn)
		for _, b := range fn.Blocks {
			for _, in := range b.Instrs {
				c, ok := in.(*ssa.Call)
				if !ok || c.Common().StaticCallee() != fr {
					continue
				}
				inLoop := false
				for _, lp := range loops {
					if lp.body[b] {
						inLoop = true
					}
				}
				if !inLoop {
					continue
				}
				for i, j := range pair {
					if i >= len(c.Common().Args) {
						continue
					}
					n++
					arg := c.Common().Args[i]
					ok := false
					if ph, isPhi := arg.(*ssa.Phi); isPhi {
						for _, e := range ph.Edges {
							for _, o := range core.Origins(e) {
								if ex, isEx := o.(*ssa.Extract); isEx && ex.Tuple == ssa.Value(c) && ex.Index == j {
									ok = true
								}
							}
						}
					}
					rep.Check(ok, "CD10", fmt.Sprintf("loop-carried-cursor:%s#arg%d", core.FuncKey(fn), i), "the framer continues where its previous call stopped", p.InstrPos(in), fmt.Sprintf("argument %d of the framer call at %s is not the result %d of the previous iteration: once a record of the batch crosses a block boundary every later record is framed for the wrong block (wrong positions, logical size != physical size)", i, p.InstrPos(in), j), true)
				}
			}
		}
	}
	_ = n
}

// ---- CD11: a record's size counts one header per chunk, at both ends -------------------------------------------

func cd11SizePerChunk(p *core.Prog, rep *core.Report, header int64) {
	rep.Rule("CD11", "size = chunks x header + payload, on both sides: in package datafile every value stored to DataPos.Size that is computed (not decoded) contains the product of the header size with a counter that is incremented inside the chunk loop; the writer's and the sequential reader's sizes then agree for records of several chunks (Stat after a restart, hint vs scan)")
	n := 0
	for _, fn := range p.LibFuncs() {
		if fn.Package() == nil || fn.Package().Pkg.Path() != core.ModPath+"/datafile" {
			continue
		}
		for _, b := range fn.Blocks {
			for _, in := range b.Instrs {
				f, _, val := core.StoreField(in)
				if f == nil || f.Name() != "Size" || fieldOwner(p, f) != p.R.DataPos {
					continue
				}
				// decoded sizes (from bytes) are out of scope
				computed := false
				hasProduct := false
				var walk func(v ssa.Value, d int)
				walk = func(v ssa.Value, d int) {
					if d > 8 {
						return
					}
					switch t := v.(type) {
					case *ssa.BinOp:
						computed = true
						if t.Op == token.MUL {
							for _, pr := range [][2]ssa.Value{{t.X, t.Y}, {t.Y, t.X}} {
								if k, ok := constInt(pr[0]); ok && k == header {
									// the other factor is a loop counter: a phi with a +1 edge
									for _, o := range core.Origins(pr[1]) {
										if ph, ok := o.(*ssa.Phi); ok {
											for _, e := range ph.Edges {
												if bo, ok := e.(*ssa.BinOp); ok && bo.Op == token.ADD {
													if k1, ok := constInt(bo.Y); ok && k1 == 1 {
														hasProduct = true
													}
												}
											}
										}
										if bo, ok := o.(*ssa.BinOp); ok && bo.Op == token.ADD {
											if k1, ok := constInt(bo.Y); ok && k1 == 1 {
												hasProduct = true
											}
										}
									}
								}
							}
						}
						walk(t.X, d+1)
						walk(t.Y, d+1)
					case *ssa.Convert:
						walk(t.X, d+1)
					case *ssa.Phi:
						for _, e := range t.Edges {
							walk(e, d+1)
						}
					}
				}
				walk(val, 0)
				if !computed {
					continue
				}
				n++
				rep.Check(hasProduct, "CD11", "size-per-chunk:"+core.FuncKey(fn), "the reported size charges one header per chunk", p.InstrPos(in), "DataPos.Size is computed at "+p.InstrPos(in)+" without multiplying the header size by the chunk counter: records of several chunks are reported short by one header per extra chunk", true)
			}
		}
	}
	if n == 0 {
		rep.Unk("VAC", "CD11", "expected computed stores to DataPos.Size in package datafile", "", "found none")
	}
}
