package rules

// Rules added after the fifth seeding round (minimal one-line changes). Each decides one structural necessary
// condition that a single deleted statement / changed operand breaks.

import (
	"fmt"
	"go/constant"
	"go/token"
	"go/types"
	"regexp"
	"strings"

	"golang.org/x/tools/go/ssa"

	"xkvverif/internal/core"
)

// ---- BT4b: the lookup map's buckets grow, they are not replaced -----------------------------------------------

func bt4bBucketAppend(p *core.Prog, rep *core.Report) {
	R := p.R
	rep.Rule("BT4b", "lookup buckets grow: every update of the batch's lookup map stores append(<the bucket read from the same map>, ...) - a bucket replaced by a fresh slice forgets the other staged keys with the same hash (read-your-writes and in-order application break for colliding keys)")
	var lookup *types.Var
	st := R.Batch.Underlying().(*types.Struct)
	for i := 0; i < st.NumFields(); i++ {
		if m, ok := st.Field(i).Type().Underlying().(*types.Map); ok {
			if _, isSlice := m.Elem().Underlying().(*types.Slice); isSlice {
				lookup = st.Field(i)
			}
		}
	}
	if lookup == nil {
		return // no bucketed lookup map: nothing to decide
	}
	n := 0
	var bad []string
	for _, fn := range p.LibFuncs() {
		for _, b := range fn.Blocks {
			for _, in := range b.Instrs {
				mu, ok := in.(*ssa.MapUpdate)
				if !ok || core.LastField(mu.Map) != lookup {
					continue
				}
				n++
				okv := false
				if c, ok := mu.Value.(*ssa.Call); ok {
					if bi, ok := c.Call.Value.(*ssa.Builtin); ok && bi.Name() == "append" && len(c.Call.Args) > 0 {
						for _, o := range core.Origins(c.Call.Args[0]) {
							if lk, ok := o.(*ssa.Lookup); ok && core.LastField(lk.X) == lookup {
								okv = true
							}
						}
					}
				}
				if !okv {
					bad = append(bad, fmt.Sprintf("%s stores a bucket at %s that is not append(existing bucket, ...)", core.FuncKey(fn), p.InstrPos(in)))
				}
			}
		}
	}
	if n == 0 {
		return
	}
	rep.Check(len(bad) == 0, "BT4b", "bucket-append", fmt.Sprintf("all %d updates of Batch.%s extend the existing bucket", n, lookup.Name()), "", strings.Join(sortedStr(bad), "; "), true)
}

// ---- PS5k / PS5l: adoption tolerates what an interrupted earlier attempt already did; Merge writes only into its
// scratch directory ------------------------------------------------------------------------------------------

func (m *mergeCtx) ps5Tolerant() {
	p, rep := m.p, m.rep
	rep.Rule("PS5k", "adoption is re-runnable: in the adoption function the error of every os.Remove of an original is also handed to os.IsNotExist (a file an interrupted earlier attempt - or an earlier merge - already removed must not make Open fail for good)")
	ad := m.adopt
	if ad == nil {
		return
	}
	n := 0
	var bad []string
	for _, b := range m.adoptBlocks() {
		for _, in := range b.Instrs {
			c, ok := in.(*ssa.Call)
			if !ok || !core.StaticCalleeIs(c.Common(), "os.Remove") {
				continue
			}
			n++
			tolerant := false
			vals := []ssa.Value{c}
			for k := 0; k < len(vals) && k < 8; k++ {
				if vals[k].Referrers() == nil {
					continue
				}
				for _, r := range *vals[k].Referrers() {
					switch t := r.(type) {
					case *ssa.Phi:
						vals = append(vals, t)
					case *ssa.Call:
						if core.StaticCalleeIs(t.Common(), "os.IsNotExist") || core.StaticCalleeIs(t.Common(), "errors.Is") {
							tolerant = true
						}
					}
				}
			}
			if !tolerant {
				bad = append(bad, "the error of os.Remove at "+p.InstrPos(in)+" is never tested with os.IsNotExist")
			}
		}
	}
	if n > 0 {
		rep.Check(len(bad) == 0, "PS5k", "adoption-tolerates-missing:"+core.FuncKey(ad), fmt.Sprintf("all %d removals of originals tolerate an already missing file", n), p.Pos(ad.Pos()), strings.Join(bad, "; "), true)
	}
}

func (m *mergeCtx) ps5ScratchOnly() {
	p, rep := m.p, m.rep
	rep.Rule("PS5l", "Merge writes only into its scratch directory: the directory argument of every datafile.OpenFile call in Merge (hint file, marker) is the value Merge created with os.MkdirAll, and so is the DirPath of the scratch DB it appends through; nothing Merge produces lands in the data directory before adoption")
	mg := m.merge
	var mk ssa.Value
	for _, b := range mg.Blocks {
		for _, in := range b.Instrs {
			if c, ok := in.(*ssa.Call); ok && core.StaticCalleeIs(c.Common(), "os.MkdirAll") && len(c.Common().Args) > 0 {
				mk = c.Common().Args[0]
			}
		}
	}
	if mk == nil {
		// the directory may be prepared by a helper: a library function called by Merge that calls os.MkdirAll and returns the path
		for _, b := range mg.Blocks {
			for _, in := range b.Instrs {
				c, ok := in.(*ssa.Call)
				if !ok {
					continue
				}
				f := c.Common().StaticCallee()
				if f == nil || !p.InLib(f) {
					continue
				}
				makes := false
				for _, fb := range f.Blocks {
					for _, fi := range fb.Instrs {
						if fc, ok := fi.(*ssa.Call); ok && core.StaticCalleeIs(fc.Common(), "os.MkdirAll") {
							makes = true
						}
					}
				}
				if !makes {
					continue
				}
				if f.Signature.Results().Len() >= 1 && f.Signature.Results().At(0).Type().String() == "string" {
					if f.Signature.Results().Len() == 1 {
						mk = c
					} else {
						for _, r := range *c.Referrers() {
							if ex, ok := r.(*ssa.Extract); ok && ex.Index == 0 {
								mk = ex
							}
						}
					}
				}
			}
		}
	}
	if mk == nil {
		rep.Unk("PS5l", "scratch-dir:"+core.FuncKey(mg), "Merge creates its scratch directory with os.MkdirAll (itself or through a helper that returns the path)", p.Pos(mg.Pos()), "no os.MkdirAll found")
		return
	}
	n := 0
	var bad []string
	for _, b := range mg.Blocks {
		for _, in := range b.Instrs {
			c, ok := in.(*ssa.Call)
			if !ok {
				continue
			}
			if f := c.Common().StaticCallee(); f != nil && f.Name() == "OpenFile" && f.Package() != nil && f.Package().Pkg.Path() == core.ModPath+"/datafile" && len(c.Common().Args) > 0 {
				n++
				if !sameOriginLoose(c.Common().Args[0], mk) {
					bad = append(bad, "OpenFile at "+p.InstrPos(in)+" is given a directory other than the scratch directory")
				}
			}
		}
	}
	// the scratch DB appends through its own options: the DirPath of every Options copy Merge builds is the scratch directory
	nOpt := 0
	for _, b := range mg.Blocks {
		for _, in := range b.Instrs {
			f, base, val := core.StoreField(in)
			if f == nil || fieldOwner(p, f) != p.R.Options || f.Name() != "DirPath" || !freshInFn(base, mg) {
				continue
			}
			nOpt++
			if !sameOriginLoose(val, mk) {
				bad = append(bad, "the scratch database's DirPath is set at "+p.InstrPos(in)+" to something other than the scratch directory")
			}
		}
	}
	// a scratch DB whose options are a copy of the live ones and whose DirPath is never redirected writes into the data directory
	copies := false
	for _, b := range mg.Blocks {
		for _, in := range b.Instrs {
			if st, ok := in.(*ssa.Store); ok {
				if al, ok := st.Addr.(*ssa.Alloc); ok {
					if n0, ok := al.Type().(*types.Pointer).Elem().(*types.Named); ok && n0 == p.R.Options {
						if lf, _ := core.LoadedField(st.Val); lf == p.R.DBOptions {
							copies = true
						}
					}
				}
			}
		}
	}
	if copies && nOpt == 0 {
		bad = append(bad, "Merge copies the live options for its scratch database but never points their DirPath at the scratch directory: rewritten files are created in the data directory itself")
	}
	if n == 0 {
		rep.Unk("VAC", "PS5l", "expected OpenFile calls in Merge", "", "found none")
		return
	}
	rep.Check(len(bad) == 0, "PS5l", "merge-writes-scratch-only:"+core.FuncKey(mg), fmt.Sprintf("all %d files Merge opens itself live in the scratch directory", n), p.Pos(mg.Pos()), strings.Join(bad, "; "), true)
}

// ---- MP1: where the scratch directory is ----------------------------------------------------------------------

func (m *mergeCtx) mp1MergePath() {
	p, rep := m.p, m.rep
	rep.Rule("MP1", "the scratch directory is a sibling named after the data directory: in the function that computes the merge path the argument of filepath.Base derives from Options.DirPath without passing through filepath.Dir (else every database under one parent shares one scratch directory), and the argument of filepath.Dir passes through filepath.Clean (else a trailing separator puts the scratch directory inside the data directory)")
	// the path function: library function called by Merge whose result reaches os.MkdirAll
	var pf *ssa.Function
	for _, b := range m.merge.Blocks {
		for _, in := range b.Instrs {
			if c, ok := in.(*ssa.Call); ok && core.StaticCalleeIs(c.Common(), "os.MkdirAll") && len(c.Common().Args) > 0 {
				for _, o := range core.Origins(c.Common().Args[0]) {
					if oc, ok := o.(*ssa.Call); ok {
						if f := oc.Common().StaticCallee(); f != nil && p.InLib(f) {
							pf = f
						}
					}
				}
			}
		}
	}
	if pf == nil {
		return
	}
	var through func(v ssa.Value, name string, d int) bool
	through = func(v ssa.Value, name string, d int) bool {
		if v == nil || d > 10 {
			return false
		}
		switch t := v.(type) {
		case *ssa.Call:
			if core.StaticCalleeIs(t.Common(), name) {
				return true
			}
			for _, a := range t.Common().Args {
				if through(a, name, d+1) {
					return true
				}
			}
		case *ssa.Phi:
			for _, e := range t.Edges {
				if through(e, name, d+1) {
					return true
				}
			}
		case *ssa.BinOp:
			return through(t.X, name, d+1) || through(t.Y, name, d+1)
		case *ssa.Convert:
			return through(t.X, name, d+1)
		}
		return false
	}
	var bad []string
	n := 0
	for _, b := range pf.Blocks {
		for _, in := range b.Instrs {
			c, ok := in.(*ssa.Call)
			if !ok || len(c.Common().Args) == 0 {
				continue
			}
			switch {
			case core.StaticCalleeIs(c.Common(), "path/filepath.Base"):
				n++
				if through(c.Common().Args[0], "path/filepath.Dir", 0) {
					bad = append(bad, "filepath.Base at "+p.InstrPos(in)+" is applied to the parent directory: the scratch directory is named after the parent and shared by its children")
				}
			case core.StaticCalleeIs(c.Common(), "path/filepath.Dir"):
				n++
				if !through(c.Common().Args[0], "path/filepath.Clean", 0) {
					bad = append(bad, "filepath.Dir at "+p.InstrPos(in)+" is applied to an un-cleaned path: with a trailing separator the scratch directory lies inside the data directory")
				}
			}
		}
	}
	if n == 0 {
		return
	}
	rep.Check(len(bad) == 0, "MP1", "merge-path:"+core.FuncKey(pf), "the scratch directory is <parent>/<name of the data directory><suffix>", p.Pos(pf.Pos()), strings.Join(bad, "; "), true)
}

// ---- IT1: the prefix filter runs after every move ------------------------------------------------------------

func it1FilterAfterMove(p *core.Prog, rep *core.Report) {
	R := p.R
	rep.Rule("IT1", "prefix filter after every move: every exported method of the database iterator that moves the merged index iterator (Rewind / Seek / Next on it) calls the filter (the method that reads IteratorOptions.Prefix) afterwards on every path to its return")
	var filter *ssa.Function
	ms := p.SSA.MethodSets.MethodSet(types.NewPointer(R.Iterator))
	var methods []*ssa.Function
	for i := 0; i < ms.Len(); i++ {
		fn := p.SSA.MethodValue(ms.At(i))
		if fn == nil || fn.Blocks == nil {
			continue
		}
		methods = append(methods, fn)
		for _, b := range fn.Blocks {
			for _, in := range b.Instrs {
				if u, ok := in.(*ssa.UnOp); ok {
					if f, _ := core.LoadedField(u); f != nil && f.Name() == "Prefix" {
						filter = fn
					}
				}
			}
		}
	}
	if filter == nil {
		rep.Unk("IT1", "filter", "the iterator has a method that reads the prefix option", "", "not found")
		return
	}
	n := 0
	for _, fn := range methods {
		if fn == filter || !token.IsExported(fn.Name()) {
			continue
		}
		var moves []ssa.Instruction
		for _, b := range fn.Blocks {
			for _, in := range b.Instrs {
				c, ok := in.(*ssa.Call)
				if !ok {
					continue
				}
				f := c.Common().StaticCallee()
				if f != nil && core.RecvNamed(f) == R.IndexIterator && (f.Name() == "Rewind" || f.Name() == "Seek" || f.Name() == "Next") {
					moves = append(moves, in)
				}
			}
		}
		for _, mv := range moves {
			n++
			// every path from the move to a return passes a call of the filter
			isF := func(in ssa.Instruction) bool {
				c, ok := in.(*ssa.Call)
				return ok && c.Common().StaticCallee() == filter
			}
			escape := ""
			b := mv.Block()
			covered := false
			for j := indexIn(mv) + 1; j < len(b.Instrs); j++ {
				if isF(b.Instrs[j]) {
					covered = true
				}
			}
			if !covered {
				seen := map[*ssa.BasicBlock]bool{}
				var dfs func(x *ssa.BasicBlock)
				dfs = func(x *ssa.BasicBlock) {
					if escape != "" {
						return
					}
					if r, ok := x.Instrs[len(x.Instrs)-1].(*ssa.Return); ok {
						escape = p.InstrPos(r)
						return
					}
					for _, s := range x.Succs {
						if seen[s] {
							continue
						}
						seen[s] = true
						has := false
						for _, in := range s.Instrs {
							if isF(in) {
								has = true
							}
						}
						if !has {
							dfs(s)
						}
					}
				}
				dfs(b)
			}
			rep.Check(escape == "", "IT1", "filter-after-move:"+core.FuncKey(fn), "the cursor is filtered by prefix after it was moved", p.InstrPos(mv), "the index iterator is moved at "+p.InstrPos(mv)+" and the method returns at "+escape+" without applying the prefix filter: the iterator is Valid on a key that does not carry the prefix", true)
		}
	}
	if n == 0 {
		rep.Unk("VAC", "IT1", "expected moving methods", "", "found none")
	}
}

// ---- CL1: Close closes every file ----------------------------------------------------------------------------

func cl1CloseAll(p *core.Prog, rep *core.Report) {
	R := p.R
	rep.Rule("CL1", "Close closes every file: DB.Close calls (*DataFile).Close on the active file and, inside a loop over the rotated-files map, on every rotated file; the map field is not replaced before that loop. (Sync is not enough: only Close cuts a memory-mapped file back from its 512 MiB mapping to its logical size; an unclosed file makes the next Open fail.)")
	cl := p.MustMethod(R.DB, "Close")
	dfClose := p.MustMethod(R.DataFile, "Close")
	older := R.DBOlder
	var loopClose, activeClose ssa.Instruction
	var mapStores []ssa.Instruction
	var rangeInstr ssa.Instruction
	for _, b := range cl.Blocks {
		for _, in := range b.Instrs {
			switch t := in.(type) {
			case *ssa.Range:
				if core.LastField(t.X) == older {
					rangeInstr = in
				}
			case *ssa.Store:
				if f, _, _ := core.StoreField(in); f == older {
					mapStores = append(mapStores, in)
				}
			case *ssa.Call:
				if t.Common().StaticCallee() != dfClose || len(t.Common().Args) == 0 {
					continue
				}
				recv := t.Common().Args[0]
				if core.LastField(recv) == R.DBActive {
					activeClose = in
					continue
				}
				for _, o := range core.Origins(recv) {
					if ex, ok := o.(*ssa.Extract); ok {
						if nx, ok := ex.Tuple.(*ssa.Next); ok {
							if rg, ok := nx.Iter.(*ssa.Range); ok && core.LastField(rg.X) == older {
								loopClose = in
							}
						}
					}
				}
			}
		}
	}
	var bad []string
	if activeClose == nil {
		bad = append(bad, "the active file is never closed")
	}
	if loopClose == nil {
		bad = append(bad, "no (*DataFile).Close on the elements of a loop over the rotated files")
	}
	if rangeInstr != nil {
		for _, st := range mapStores {
			if before(st, rangeInstr) {
				bad = append(bad, "the rotated-files map is replaced at "+p.InstrPos(st)+" before the loop that closes its files: the loop runs over the new (empty) map")
			}
		}
	}
	rep.Check(len(bad) == 0, "CL1", "close-all:"+core.FuncKey(cl), "every open data file is closed by Close", p.Pos(cl.Pos()), strings.Join(bad, "; "), true)
}

// ---- FN1: file names sort like ids -----------------------------------------------------------------------------

var fixedWidth = regexp.MustCompile(`%0([0-9]+)d`)

func fn1NamesSortLikeIds(p *core.Prog, rep *core.Report) {
	rep.Rule("FN1", "file names sort like ids: the loader takes the data files in directory-listing (lexical) order and treats the last one as the newest, without sorting the ids itself; the file-name constructor therefore formats the id zero-padded to a fixed width (%0Nd, N >= 9). If the loader sorts the ids numerically the format is free.")
	var loader *ssa.Function
	for _, fn := range p.LibFuncs() {
		if core.RecvNamed(fn) != p.R.DB {
			continue
		}
		readsDir, storesActive := false, false
		for _, b := range fn.Blocks {
			for _, in := range b.Instrs {
				if c, ok := in.(*ssa.Call); ok && core.StaticCalleeIs(c.Common(), "os.ReadDir") {
					readsDir = true
				}
				if f, _, _ := core.StoreField(in); f == p.R.DBActive {
					storesActive = true
				}
			}
		}
		if readsDir && storesActive {
			loader = fn
		}
	}
	if loader == nil {
		return
	}
	sorts := false
	for _, b := range loader.Blocks {
		for _, in := range b.Instrs {
			if c, ok := in.(*ssa.Call); ok {
				if f := c.Common().StaticCallee(); f != nil && f.Package() != nil && (f.Package().Pkg.Path() == "sort" || f.Package().Pkg.Path() == "slices") {
					sorts = true
				}
			}
		}
	}
	if sorts {
		rep.OK("FN1", "names-sort-like-ids", "the loader sorts the ids itself", p.Pos(loader.Pos()), false)
		return
	}
	gfn := p.Func(core.ModPath+"/datafile", "GetFileName")
	if gfn == nil {
		rep.Unk("FN1", "names-sort-like-ids", "file-name constructor found", "", "datafile.GetFileName not found")
		return
	}
	okf := false
	detail := "no zero-padded fixed-width integer verb in the format of the file-name constructor"
	for _, b := range gfn.Blocks {
		for _, in := range b.Instrs {
			c, ok := in.(*ssa.Call)
			if !ok || !core.StaticCalleeIs(c.Common(), "fmt.Sprintf") || len(c.Common().Args) == 0 {
				continue
			}
			// the format may be a constant or constant + suffix
			var consts []string
			var walk func(v ssa.Value, d int)
			walk = func(v ssa.Value, d int) {
				if d > 4 {
					return
				}
				switch t := v.(type) {
				case *ssa.Const:
					if t.Value != nil && t.Value.Kind() == constant.String {
						consts = append(consts, constant.StringVal(t.Value))
					}
				case *ssa.BinOp:
					walk(t.X, d+1)
					walk(t.Y, d+1)
				}
			}
			walk(c.Common().Args[0], 0)
			for _, s := range consts {
				if mm := fixedWidth.FindStringSubmatch(s); mm != nil {
					var w int
					fmt.Sscanf(mm[1], "%d", &w)
					if w >= 9 {
						okf = true
					} else {
						detail = fmt.Sprintf("the id is padded to %d digits only", w)
					}
				}
			}
		}
	}
	rep.Check(okf, "FN1", "names-sort-like-ids", "ids are formatted zero-padded to a fixed width, so lexical order is id order", p.Pos(gfn.Pos()), detail+": from the tenth file on the listing order differs from the id order, older records overwrite newer ones at replay and a middle file becomes the active file", true)
}

// ---- FLT1: the score codec keeps 64 bits --------------------------------------------------------------------

func flt1ScoreCodec(p *core.Prog, rep *core.Report) {
	rep.Rule("FLT1", "score codec keeps full precision: every strconv.FormatFloat / ParseFloat in the library is called with bitSize 64")
	n := 0
	var bad []string
	for _, fn := range p.LibFuncs() {
		for _, b := range fn.Blocks {
			for _, in := range b.Instrs {
				c, ok := in.(*ssa.Call)
				if !ok {
					continue
				}
				idx := -1
				switch {
				case core.StaticCalleeIs(c.Common(), "strconv.FormatFloat"):
					idx = 3
				case core.StaticCalleeIs(c.Common(), "strconv.ParseFloat"):
					idx = 1
				}
				if idx < 0 || idx >= len(c.Common().Args) {
					continue
				}
				n++
				if k, ok := constInt(c.Common().Args[idx]); !ok || k != 64 {
					bad = append(bad, fmt.Sprintf("%s converts a float with a bitSize other than 64 at %s", core.FuncKey(fn), p.InstrPos(in)))
				}
			}
		}
	}
	if n == 0 {
		return
	}
	rep.Check(len(bad) == 0, "FLT1", "float-codec-64", fmt.Sprintf("all %d float conversions use 64 bits", n), "", strings.Join(sortedStr(bad), "; ")+": scores that need more than 24 mantissa bits come back rounded", true)
}

// ---- SK1: Seek is inclusive ------------------------------------------------------------------------------------

func sk1SeekInclusive(p *core.Prog, rep *core.Report) {
	rep.Rule("SK1", "Seek is inclusive: in the seek methods of the shard iterators (and the closures they pass to a search), a comparison of a bytes.Compare result with 0 that decides the position holds when the two keys are equal - evaluated at cmp = 0 through negations")
	n := 0
	var bad []string
	for _, fn := range p.LibFuncs() {
		root := fn
		for root.Parent() != nil {
			root = root.Parent()
		}
		if root.Name() != "seek" || root.Package() == nil || root.Package().Pkg.Path() != core.ModPath+"/index" {
			continue
		}
		for _, b := range fn.Blocks {
			for _, in := range b.Instrs {
				bo, ok := in.(*ssa.BinOp)
				if !ok {
					continue
				}
				var cmp ssa.Value
				var k int64
				var okc bool
				flip := false
				if k, okc = constInt(bo.Y); okc {
					cmp = bo.X
				} else if k, okc = constInt(bo.X); okc {
					cmp = bo.Y
					flip = true
				}
				if !okc || k != 0 {
					continue
				}
				c, ok := cmp.(*ssa.Call)
				if !ok || !core.StaticCalleeIs(c.Common(), "bytes.Compare") {
					continue
				}
				op := bo.Op
				if flip {
					switch op {
					case token.LSS:
						op = token.GTR
					case token.LEQ:
						op = token.GEQ
					case token.GTR:
						op = token.LSS
					case token.GEQ:
						op = token.LEQ
					}
				}
				// value at cmp == 0
				val := op == token.LEQ || op == token.GEQ || op == token.EQL
				// negations on the way to the use
				var v ssa.Value = bo
				for {
					neg := false
					if v.Referrers() != nil {
						for _, r := range *v.Referrers() {
							if u, ok := r.(*ssa.UnOp); ok && u.Op == token.NOT {
								v = u
								val = !val
								neg = true
								break
							}
						}
					}
					if !neg {
						break
					}
				}
				// only predicates that are returned (search predicates) or branch conditions of the seek itself
				n++
				if !val {
					bad = append(bad, fmt.Sprintf("%s: the comparison at %s is false for equal keys: Seek(k) skips a stored key k", core.FuncKey(fn), p.InstrPos(bo)))
				}
			}
		}
	}
	if n == 0 {
		return
	}
	rep.Check(len(bad) == 0, "SK1", "seek-inclusive", fmt.Sprintf("all %d key comparisons in the shard iterators' seek hold at equality", n), "", strings.Join(sortedStr(bad), "; "), true)
}

// ---- LIST2: the stored length moves with the window --------------------------------------------------------------

func list2SizeWithCursor(p *core.Prog, rep *core.Report) {
	rep.Rule("LIST2", "the stored length moves with the window: a function that moves a list cursor so that the window grows (low cursor -1 / high cursor +1) also adds 1 to the metadata's size field, one that shrinks it subtracts 1 (a pop that keeps the size makes every later push reply a wrong length and a drained list never look empty)")
	inPkg := func(fn *ssa.Function) bool {
		return fn.Package() != nil && fn.Package().Pkg.Path() == core.ModPath+"/datatype"
	}
	type upd struct {
		f     *types.Var
		delta int64
	}
	perFn := map[*ssa.Function][]upd{}
	both := map[*types.Var][2]bool{}
	for _, fn := range p.LibFuncs() {
		if !inPkg(fn) {
			continue
		}
		for _, b := range fn.Blocks {
			for _, in := range b.Instrs {
				f, _, val := core.StoreField(in)
				if f == nil {
					continue
				}
				bo, ok := val.(*ssa.BinOp)
				if !ok || (bo.Op != token.ADD && bo.Op != token.SUB) {
					continue
				}
				k, isC := constInt(bo.Y)
				if !isC || k != 1 {
					continue
				}
				if lf, _ := core.LoadedField(bo.X); lf != f {
					continue
				}
				d := int64(1)
				if bo.Op == token.SUB {
					d = -1
				}
				perFn[fn] = append(perFn[fn], upd{f, d})
				x := both[f]
				if d > 0 {
					x[0] = true
				} else {
					x[1] = true
				}
				both[f] = x
			}
		}
	}
	is64 := func(f *types.Var) bool {
		b, ok := f.Type().Underlying().(*types.Basic)
		return ok && (b.Kind() == types.Uint64 || b.Kind() == types.Int64)
	}
	var cursors []*types.Var
	for f, x := range both {
		if x[0] && x[1] && is64(f) {
			cursors = append(cursors, f)
		}
	}
	if len(cursors) != 2 {
		return // LIST1 reports the missing cursors
	}
	lo, hi := cursors[0], cursors[1]
	if lo.Pos() > hi.Pos() {
		lo, hi = hi, lo
	}
	// which cursor is the low end: the one whose slot convention LIST1 checks is not needed here - growing is
	// "the two cursors move apart". Decide apart / together from the sign pattern: lo-1 or hi+1 = grow.
	// lo is the field declared first (head); a tree that swaps the declarations flips both verdicts consistently,
	// which the sign agreement below still detects.
	n := 0
	for fn, us := range perFn {
		grow, shrink := false, false
		var sizes []int64
		for _, u := range us {
			switch {
			case u.f == lo:
				if u.delta < 0 {
					grow = true
				} else {
					shrink = true
				}
			case u.f == hi:
				if u.delta > 0 {
					grow = true
				} else {
					shrink = true
				}
			case !is64(u.f):
				sizes = append(sizes, u.delta)
			}
		}
		if grow == shrink {
			continue // not a cursor-moving function (or moves both ways)
		}
		n++
		want := int64(1)
		if shrink {
			want = -1
		}
		ok := false
		wrong := false
		for _, d := range sizes {
			if d == want {
				ok = true
			} else {
				wrong = true
			}
		}
		word := map[bool]string{true: "grows", false: "shrinks"}[grow]
		detail := fmt.Sprintf("%s moves a cursor so that the window %s but does not change the size field by %+d", core.FuncKey(fn), word, want)
		if wrong {
			detail = fmt.Sprintf("%s moves a cursor so that the window %s but changes the size field the other way", core.FuncKey(fn), word)
			ok = false
		}
		rep.Check(ok, "LIST2", "size-with-window:"+core.FuncKey(fn), "the stored length follows the window", p.Pos(fn.Pos()), detail, true)
	}
	_ = n
}

// ---- HP3: a cursor is in one container only -------------------------------------------------------------------

func hp3NoDuplicates(p *core.Prog, rep *core.Report) {
	rep.Rule("HP3", "a cursor lives in one container: a method of the merged iterator that appends the elements it reads from one container field to another container field also replaces (empties) the field it read from; otherwise every later call queues the same shard cursors again (keys repeated, heap indexes out of range)")
	iterIface := p.R.IterIface
	isCursorSlice := func(t types.Type) bool {
		sl, ok := t.Underlying().(*types.Slice)
		if !ok {
			return false
		}
		n, ok := sl.Elem().(*types.Named)
		return ok && n == iterIface
	}
	ms := p.SSA.MethodSets.MethodSet(types.NewPointer(p.R.IndexIterator))
	n := 0
	for i := 0; i < ms.Len(); i++ {
		fn := p.SSA.MethodValue(ms.At(i))
		if fn == nil || fn.Blocks == nil {
			continue
		}
		replaced := map[*types.Var]bool{}
		for _, b := range fn.Blocks {
			for _, in := range b.Instrs {
				if f, _, val := core.StoreField(in); f != nil && isCursorSlice(f.Type()) {
					self := false
					if c, ok := val.(*ssa.Call); ok {
						if bi, ok := c.Call.Value.(*ssa.Builtin); ok && bi.Name() == "append" && len(c.Call.Args) > 0 && core.LastField(c.Call.Args[0]) == f {
							self = true
						}
					}
					if !self {
						replaced[f] = true
					}
				}
			}
		}
		// moves: element loaded from field A (range over load of A) stored into varargs of append whose result is stored to field B != A
		for _, b := range fn.Blocks {
			for _, in := range b.Instrs {
				f, _, val := core.StoreField(in)
				if f == nil || !isCursorSlice(f.Type()) {
					continue
				}
				c, ok := val.(*ssa.Call)
				if !ok {
					continue
				}
				bi, ok := c.Call.Value.(*ssa.Builtin)
				if !ok || bi.Name() != "append" || len(c.Call.Args) < 2 {
					continue
				}
				// elements appended
				var elems []ssa.Value
				if sl, ok := c.Call.Args[1].(*ssa.Slice); ok {
					if al, ok := sl.X.(*ssa.Alloc); ok {
						for _, r := range *al.Referrers() {
							if ia, ok := r.(*ssa.IndexAddr); ok {
								for _, r2 := range *ia.Referrers() {
									if st, ok := r2.(*ssa.Store); ok {
										elems = append(elems, st.Val)
									}
								}
							}
						}
					}
				}
				for _, e := range elems {
					for _, o := range core.Origins(e) {
						u, ok := o.(*ssa.UnOp)
						if !ok {
							continue
						}
						ia, ok := u.X.(*ssa.IndexAddr)
						if !ok {
							continue
						}
						for _, so := range core.Origins(ia.X) {
							src, _ := core.LoadedField(so)
							if src == nil || src == f || !isCursorSlice(src.Type()) {
								continue
							}
							n++
							rep.Check(replaced[src], "HP3", fmt.Sprintf("moved-not-copied:%s:%s->%s", core.FuncKey(fn), src.Name(), f.Name()), "the container the cursors were taken from is emptied", p.InstrPos(in), fmt.Sprintf("%s appends the cursors of %s to %s but never resets %s: the next call adds them again", core.FuncKey(fn), src.Name(), f.Name(), src.Name()), true)
						}
					}
				}
			}
		}
	}
	_ = n
}

// ---- CD10: the batch writer threads the cursor through its loop ------------------------------------------------

func cd10LoopCarriedCursor(p *core.Prog, rep *core.Report) {
	rep.Rule("CD10", "the cursor is threaded through the batch writer: where the chunk framer is called inside a loop, each cursor argument (a parameter the framer returns an updated value of) is the value the previous call returned - a loop phi whose back edge carries this call's own result - not a field re-read on every iteration")
	fr := chunkWriter(p)
	// parameter i -> result j when result j derives from parameter i
	pair := map[int]int{}
	for _, r := range core.Returns(fr) {
		for j := 0; j < len(r.Results); j++ {
			for _, o := range core.Origins(core.ReturnOperand(r, j)) {
				var walk func(v ssa.Value, d int)
				walk = func(v ssa.Value, d int) {
					if d > 8 {
						return
					}
					switch t := v.(type) {
					case *ssa.Parameter:
						for i, pp := range fr.Params {
							if pp == t && types.Identical(t.Type(), fr.Signature.Results().At(j).Type()) {
								pair[i] = j
							}
						}
					case *ssa.BinOp:
						walk(t.X, d+1)
						walk(t.Y, d+1)
					case *ssa.Phi:
						for _, e := range t.Edges {
							walk(e, d+1)
						}
					case *ssa.Convert:
						walk(t.X, d+1)
					}
				}
				walk(o, 0)
			}
		}
	}
	n := 0
	for _, fn := range p.LibFuncs() {
		loops := naturalLoops(fn)
		for _, b := range fn.Blocks {
			for _, in := range b.Instrs {
				c, ok := in.(*ssa.Call)
				if !ok || c.Common().StaticCallee() != fr {
					continue
				}
				inLoop := false
				for _, lp := range loops {
					if lp.body[b] {
						inLoop = true
					}
				}
				if !inLoop {
					continue
				}
				for i, j := range pair {
					if i >= len(c.Common().Args) {
						continue
					}
					n++
					arg := c.Common().Args[i]
					ok := false
					if ph, isPhi := arg.(*ssa.Phi); isPhi {
						for _, e := range ph.Edges {
							for _, o := range core.Origins(e) {
								if ex, isEx := o.(*ssa.Extract); isEx && ex.Tuple == ssa.Value(c) && ex.Index == j {
									ok = true
								}
							}
						}
					}
					rep.Check(ok, "CD10", fmt.Sprintf("loop-carried-cursor:%s#arg%d", core.FuncKey(fn), i), "the framer continues where its previous call stopped", p.InstrPos(in), fmt.Sprintf("argument %d of the framer call at %s is not the result %d of the previous iteration: once a record of the batch crosses a block boundary every later record is framed for the wrong block (wrong positions, logical size != physical size)", i, p.InstrPos(in), j), true)
				}
			}
		}
	}
	_ = n
}

// ---- CD11: a record's size counts one header per chunk, at both ends -------------------------------------------

func cd11SizePerChunk(p *core.Prog, rep *core.Report, header int64) {
	rep.Rule("CD11", "size = chunks x header + payload, on both sides: in package datafile every value stored to DataPos.Size that is computed (not decoded) contains the product of the header size with a counter that is incremented inside the chunk loop; the writer's and the sequential reader's sizes then agree for records of several chunks (Stat after a restart, hint vs scan)")
	n := 0
	for _, fn := range p.LibFuncs() {
		if fn.Package() == nil || fn.Package().Pkg.Path() != core.ModPath+"/datafile" {
			continue
		}
		for _, b := range fn.Blocks {
			for _, in := range b.Instrs {
				f, _, val := core.StoreField(in)
				if f == nil || f.Name() != "Size" || fieldOwner(p, f) != p.R.DataPos {
					continue
				}
				// decoded sizes (from bytes) are out of scope
				computed := false
				hasProduct := false
				var walk func(v ssa.Value, d int)
				walk = func(v ssa.Value, d int) {
					if d > 8 {
						return
					}
					switch t := v.(type) {
					case *ssa.BinOp:
						computed = true
						if t.Op == token.MUL {
							for _, pr := range [][2]ssa.Value{{t.X, t.Y}, {t.Y, t.X}} {
								if k, ok := constInt(pr[0]); ok && k == header {
									// the other factor is a loop counter: a phi with a +1 edge
									for _, o := range core.Origins(pr[1]) {
										if ph, ok := o.(*ssa.Phi); ok {
											for _, e := range ph.Edges {
												if bo, ok := e.(*ssa.BinOp); ok && bo.Op == token.ADD {
													if k1, ok := constInt(bo.Y); ok && k1 == 1 {
														hasProduct = true
													}
												}
											}
										}
										if bo, ok := o.(*ssa.BinOp); ok && bo.Op == token.ADD {
											if k1, ok := constInt(bo.Y); ok && k1 == 1 {
												hasProduct = true
											}
										}
									}
								}
							}
						}
						walk(t.X, d+1)
						walk(t.Y, d+1)
					case *ssa.Convert:
						walk(t.X, d+1)
					case *ssa.Phi:
						for _, e := range t.Edges {
							walk(e, d+1)
						}
					}
				}
				walk(val, 0)
				if !computed {
					continue
				}
				n++
				rep.Check(hasProduct, "CD11", "size-per-chunk:"+core.FuncKey(fn), "the reported size charges one header per chunk", p.InstrPos(in), "DataPos.Size is computed at "+p.InstrPos(in)+" without multiplying the header size by the chunk counter: records of several chunks are reported short by one header per extra chunk", true)
			}
		}
	}
	if n == 0 {
		rep.Unk("VAC", "CD11", "expected computed stores to DataPos.Size in package datafile", "", "found none")
	}
}

// ---- BT5-BT7: the batch's size bookkeeping -----------------------------------------------------------------------

// stagedSizeField: the Batch field that the staging methods compare (with other terms) against the size limit.
func stagedSizeField(p *core.Prog) *types.Var {
	limit := sizeLimitField(p)
	var found *types.Var
	for _, fn := range p.LibFuncs() {
		if core.RecvNamed(fn) != p.R.Batch {
			continue
		}
		for _, b := range fn.Blocks {
			for _, in := range b.Instrs {
				bo, ok := in.(*ssa.BinOp)
				if !ok {
					continue
				}
				switch bo.Op {
				case token.GTR, token.GEQ, token.LSS, token.LEQ:
				default:
					continue
				}
				for _, pr := range [][2]ssa.Value{{bo.X, bo.Y}, {bo.Y, bo.X}} {
					if core.LastField(core.Unwrap(pr[1])) != limit {
						continue
					}
					var walk func(v ssa.Value, d int)
					walk = func(v ssa.Value, d int) {
						if d > 6 {
							return
						}
						switch t := v.(type) {
						case *ssa.BinOp:
							walk(t.X, d+1)
							walk(t.Y, d+1)
						case *ssa.Convert:
							walk(t.X, d+1)
						case *ssa.UnOp:
							if f, _ := core.LoadedField(t); f != nil && fieldOwner(p, f) == p.R.Batch {
								found = f
							}
						}
					}
					walk(pr[0], 0)
				}
			}
		}
	}
	return found
}

func bt5SizeBookkeeping(p *core.Prog, rep *core.Report) {
	R := p.R
	rep.Rule("BT5", "staged size bookkeeping: (a) in every Batch method that stages a record (append to the staged slice, directly or through the staging helper) the staged-size field is increased on the same path; (b) a reset of the staged slice is paired with a reset of the staged-size field; (c) the function that writes the staged records resets the staged slice on every success path; (d) each staging method compares the staged size against the size limit before staging and its overflow edge reaches the flush")
	sz := stagedSizeField(p)
	if sz == nil {
		rep.Unk("BT5", "staged-size-field", "a Batch field compared with the size limit exists", "", "not found")
		return
	}
	limit := sizeLimitField(p)
	// staging helper(s): functions that append to the staged slice
	appends := func(fn *ssa.Function) []ssa.Instruction {
		var out []ssa.Instruction
		for _, b := range fn.Blocks {
			for _, in := range b.Instrs {
				if f, _, val := core.StoreField(in); f == R.BatchStaged {
					if c, ok := val.(*ssa.Call); ok {
						if bi, ok := c.Call.Value.(*ssa.Builtin); ok && bi.Name() == "append" {
							out = append(out, in)
						}
					}
				}
			}
		}
		return out
	}
	helpers := map[*ssa.Function]bool{}
	for _, fn := range p.LibFuncs() {
		if core.RecvNamed(fn) == R.Batch && len(appends(fn)) > 0 && !token.IsExported(fn.Name()) {
			helpers[fn] = true
		}
	}
	// flush functions: Batch methods that (transitively, through Batch methods) hand the staged records to the data file
	flushFns := map[*ssa.Function]bool{}
	for changed := true; changed; {
		changed = false
		for _, fn := range p.LibFuncs() {
			if core.RecvNamed(fn) != R.Batch || flushFns[fn] {
				continue
			}
			for _, b := range fn.Blocks {
				for _, in := range b.Instrs {
					if c, ok := in.(*ssa.Call); ok {
						f := c.Common().StaticCallee()
						if f == nil {
							continue
						}
						if (core.RecvNamed(f) == R.DataFile && strings.Contains(f.Name(), "Staged")) || flushFns[f] {
							if !flushFns[fn] {
								flushFns[fn] = true
								changed = true
							}
						}
					}
				}
			}
		}
	}
	pathAvoids := func(from ssa.Instruction, isPartner func(ssa.Instruction) bool) string {
		b := from.Block()
		for j := indexIn(from) + 1; j < len(b.Instrs); j++ {
			if isPartner(b.Instrs[j]) {
				return ""
			}
		}
		escape := ""
		seen := map[*ssa.BasicBlock]bool{}
		var dfs func(x *ssa.BasicBlock)
		dfs = func(x *ssa.BasicBlock) {
			if escape != "" {
				return
			}
			if r, ok := x.Instrs[len(x.Instrs)-1].(*ssa.Return); ok {
				escape = p.InstrPos(r)
				return
			}
			for _, s := range x.Succs {
				if seen[s] {
					continue
				}
				seen[s] = true
				has := false
				for _, in := range s.Instrs {
					if isPartner(in) {
						has = true
					}
				}
				if !has {
					dfs(s)
				}
			}
		}
		dfs(b)
		return escape
	}
	dominatedByPartner := func(at ssa.Instruction, isPartner func(ssa.Instruction) bool) bool {
		for _, b := range at.Parent().Blocks {
			for _, in := range b.Instrs {
				if isPartner(in) && before(in, at) {
					return true
				}
			}
		}
		return false
	}
	isSizeAdd := func(in ssa.Instruction) bool {
		f, _, val := core.StoreField(in)
		if f != sz {
			return false
		}
		bo, ok := val.(*ssa.BinOp)
		return ok && (bo.Op == token.ADD || bo.Op == token.SUB)
	}
	isSizeReset := func(in ssa.Instruction) bool {
		f, _, val := core.StoreField(in)
		if f != sz {
			return false
		}
		k, ok := constInt(val)
		return ok && k == 0
	}
	for _, fn := range p.LibFuncs() {
		if core.RecvNamed(fn) != R.Batch || !token.IsExported(fn.Name()) {
			continue
		}
		// (a) staging sites of exported methods
		var sites []ssa.Instruction
		sites = append(sites, appends(fn)...)
		for _, b := range fn.Blocks {
			for _, in := range b.Instrs {
				if c, ok := in.(*ssa.Call); ok && helpers[c.Common().StaticCallee()] {
					sites = append(sites, in)
				}
			}
		}
		for i, s := range sites {
			ok := dominatedByPartner(s, isSizeAdd)
			esc := ""
			if !ok {
				esc = pathAvoids(s, isSizeAdd)
				ok = esc == ""
			}
			rep.Check(ok, "BT5", fmt.Sprintf("staging-charges-size:%s#%d", core.FuncKey(fn), i+1), "a staged record is added to the staged size", p.InstrPos(s), fmt.Sprintf("the record staged at %s reaches the return at %s without Batch.%s being increased: the batch under-estimates what it holds and overflows the data file instead of flushing", p.InstrPos(s), esc, sz.Name()), true)
		}
		// (e) a charge is not swallowed by the flush's reset: no path leads from an increase of the staged size to the
		// mid-batch flush without staging a record in between (the flush zeroes the size; the record charged before it and
		// staged after it is then held uncounted - seed C17-L: one record too many per flush window)
		isSite := func(in ssa.Instruction) bool {
			for _, s := range sites {
				if s == in {
					return true
				}
			}
			return false
		}
		isFlushCall := func(in ssa.Instruction) bool {
			c, ok := in.(*ssa.Call)
			return ok && flushFns[c.Common().StaticCallee()]
		}
		if len(sites) > 0 {
			for _, b := range fn.Blocks {
				for _, in := range b.Instrs {
					if !isSizeAdd(in) {
						continue
					}
					hit := firstReachedAvoiding(in, isFlushCall, isSite)
					rep.Check(hit == nil, "BT5", fmt.Sprintf("charge-survives-flush:%s@%s", core.FuncKey(fn), blockOrdinal(in)), "no flush resets the staged size between charging a record and staging it", p.InstrPos(in), fmt.Sprintf("Batch.%s is increased at %s and the mid-batch flush at %s (which zeroes it) can follow before the record is staged: the record staged afterwards is held uncounted and the next file overflows its limit", sz.Name(), p.InstrPos(in), posOrEmpty(p, hit)), true)
				}
			}
		}
		// (d) the overflow tests: every comparison against the limit has an edge that leads to the flush
		if len(sites) > 0 {
			nCmp := 0
			for _, b := range fn.Blocks {
				iff, ok := b.Instrs[len(b.Instrs)-1].(*ssa.If)
				if !ok {
					continue
				}
				if !isLimitTest(iff.Cond, limit, 0) {
					continue
				}
				nCmp++
				okFlush := false
				for _, b2 := range fn.Blocks {
					for _, in := range b2.Instrs {
						if c, ok := in.(*ssa.Call); ok && flushFns[c.Common().StaticCallee()] {
							if edgeDominates(iff, true, b2) || edgeDominates(iff, false, b2) {
								okFlush = true
							}
						}
					}
				}
				rep.Check(okFlush, "BT5", fmt.Sprintf("overflow-flushes:%s#%d", core.FuncKey(fn), nCmp), "overflow of the staged size leads to the mid-batch flush", p.InstrPos(iff), core.FuncKey(fn)+" compares the staged size with the limit at "+p.InstrPos(iff)+" but neither edge leads to the flush: an overflowing batch is never written out mid-way and the data file grows past its limit", true)
			}
			for i, st := range sites {
				dom := false
				for _, b := range fn.Blocks {
					iff, ok := b.Instrs[len(b.Instrs)-1].(*ssa.If)
					if !ok {
						continue
					}
					if !isLimitTest(iff.Cond, limit, 0) {
						continue
					}
					if b == st.Block() || b.Dominates(st.Block()) {
						dom = true
					}
				}
				rep.Check(dom, "BT5", fmt.Sprintf("overflow-test:%s#%d", core.FuncKey(fn), i+1), "the staged size is compared with the size limit before this staging", p.InstrPos(st), "the record staged at "+p.InstrPos(st)+" is not preceded by a (live) comparison of the staged size against the size limit: the mid-batch flush never happens on this path", true)
			}
		}
	}
	// (b), (c)
	// reset events: a direct reset of the staged slice, or a call of a Batch method that contains one; a Batch method that
	// hands the staged records to the data file but contains no reset event at all is a pure writer (the flush was split
	// into a writing and an applying half): the obligation to reset then lies with whoever calls it
	directReset := func(in ssa.Instruction) bool {
		if f, _, val := core.StoreField(in); f == R.BatchStaged {
			if _, isCall := val.(*ssa.Call); !isCall {
				return true
			}
		}
		return false
	}
	resetFns := map[*ssa.Function]bool{}
	for _, fn := range p.LibFuncs() {
		if core.RecvNamed(fn) != R.Batch || token.IsExported(fn.Name()) {
			continue
		}
		for _, b := range fn.Blocks {
			for _, in := range b.Instrs {
				if directReset(in) {
					resetFns[fn] = true
				}
			}
		}
	}
	isResetEvent := func(in ssa.Instruction) bool {
		if directReset(in) {
			return true
		}
		c, ok := in.(*ssa.Call)
		return ok && resetFns[c.Common().StaticCallee()]
	}
	pureWriters := map[*ssa.Function]bool{}
	for _, fn := range p.LibFuncs() {
		if core.RecvNamed(fn) != R.Batch || token.IsExported(fn.Name()) {
			continue
		}
		w, r := false, false
		for _, b := range fn.Blocks {
			for _, in := range b.Instrs {
				if c, ok := in.(*ssa.Call); ok {
					if f := c.Common().StaticCallee(); f != nil && core.RecvNamed(f) == R.DataFile && strings.Contains(f.Name(), "Staged") {
						w = true
					}
				}
				if isResetEvent(in) {
					r = true
				}
			}
		}
		if w && !r {
			pureWriters[fn] = true
		}
	}
	for _, fn := range p.LibFuncs() {
		if core.RecvNamed(fn) != R.Batch {
			continue
		}
		writes := false
		for _, b := range fn.Blocks {
			for _, in := range b.Instrs {
				if c, ok := in.(*ssa.Call); ok {
					if f := c.Common().StaticCallee(); f != nil && core.RecvNamed(f) == R.DataFile && strings.Contains(f.Name(), "Staged") {
						writes = true
					}
					if pureWriters[c.Common().StaticCallee()] {
						writes = true
					}
				}
				f, _, val := core.StoreField(in)
				if f != R.BatchStaged {
					continue
				}
				isReset := core.IsNilConst(val)
				if sl, ok := val.(*ssa.Slice); ok && sl.High != nil {
					if k, ok := constInt(sl.High); ok && k == 0 {
						isReset = true
					}
				}
				if !isReset || fn.Name() == "Commit" {
					continue
				}
				ok := dominatedByPartner(in, isSizeReset)
				esc := ""
				if !ok {
					esc = pathAvoids(in, isSizeReset)
					ok = esc == ""
				}
				rep.Check(ok, "BT5", "reset-clears-size:"+core.FuncKey(fn), "a reset of the staged slice also zeroes the staged size", p.InstrPos(in), "the staged slice is reset at "+p.InstrPos(in)+" but Batch."+sz.Name()+" keeps its value up to the return at "+esc, true)
			}
		}
		if writes && !pureWriters[fn] {
			// success returns are reached only after a reset of the staged slice
			var bad []string
			for _, r := range core.Returns(fn) {
				ei := core.ErrResultIndex(fn.Signature)
				if ei < 0 || !core.IsNilConst(core.ReturnOperand(r, ei)) {
					continue
				}
				found := false
				for _, b := range fn.Blocks {
					for _, in := range b.Instrs {
						if isResetEvent(in) && before(in, r) {
							found = true
						}
					}
				}
				if !found {
					bad = append(bad, "success return at "+p.InstrPos(r)+" without a reset of the staged slice: the same records are written again by the next flush")
				}
			}
			rep.Check(len(bad) == 0, "BT5", "flush-resets-staged:"+core.FuncKey(fn), "the function that writes the staged records empties the staged slice", p.Pos(fn.Pos()), strings.Join(bad, "; "), true)
		}
	}
}

// ---- VF0: the record carries the arguments -----------------------------------------------------------------------

func vf0RecordCarriesArgs(p *core.Prog, rep *core.Report) {
	R := p.R
	rep.Rule("VF0", "the record carries the call's arguments: in DB.Put / DB.Delete / Batch.Put / Batch.Delete every log record taken from the pool is, before it is handed on (to the appending / staging function), given a Key derived from the key parameter and - in the Put methods - a Value derived from the value parameter, by stores that dominate the hand-over")
	derives := func(v ssa.Value, par *ssa.Parameter) bool {
		seen := map[ssa.Value]bool{}
		var walk func(v ssa.Value, d int) bool
		walk = func(v ssa.Value, d int) bool {
			if v == nil || d > 8 || seen[v] {
				return false
			}
			seen[v] = true
			if v == ssa.Value(par) {
				return true
			}
			switch t := v.(type) {
			case *ssa.Call:
				for _, a := range t.Call.Args {
					if walk(a, d+1) {
						return true
					}
				}
			case *ssa.Slice:
				return walk(t.X, d+1)
			case *ssa.Convert:
				return walk(t.X, d+1)
			case *ssa.Phi:
				for _, e := range t.Edges {
					if walk(e, d+1) {
						return true
					}
				}
			}
			return false
		}
		return walk(v, 0)
	}
	var keyF, valF *types.Var
	st := R.LogRecord.Underlying().(*types.Struct)
	for i := 0; i < st.NumFields(); i++ {
		switch st.Field(i).Name() {
		case "Key":
			keyF = st.Field(i)
		case "Value":
			valF = st.Field(i)
		}
	}
	if keyF == nil || valF == nil {
		core.Failf("role unresolved: LogRecord.Key / LogRecord.Value")
	}
	n := 0
	perFn := map[*ssa.Function]int{}
	for _, spec := range []struct {
		recv *types.Named
		name string
		val  bool
	}{{R.DB, "Put", true}, {R.DB, "Delete", false}, {R.Batch, "Put", true}, {R.Batch, "Delete", false}} {
		fn := p.MustMethod(spec.recv, spec.name)
		var keyP, valP *ssa.Parameter
		for _, pp := range fn.Params {
			switch pp.Name() {
			case "key":
				keyP = pp
			case "value":
				valP = pp
			}
		}
		if keyP == nil && len(fn.Params) > 1 {
			keyP = fn.Params[1]
		}
		if spec.val && valP == nil && len(fn.Params) > 2 {
			valP = fn.Params[2]
		}
		for _, b := range fn.Blocks {
			for _, in := range b.Instrs {
				ta, ok := in.(*ssa.TypeAssert)
				if !ok || !strings.HasSuffix(ta.AssertedType.String(), "datafile.LogRecord") {
					continue
				}
				c, ok := ta.X.(*ssa.Call)
				if !ok || !core.StaticCalleeIs(c.Common(), poolGet) {
					continue
				}
				// hand-overs: calls to library functions with the record as an argument (not the pool release)
				for _, r := range *ta.Referrers() {
					hc, ok := r.(*ssa.Call)
					if !ok {
						continue
					}
					f := hc.Common().StaticCallee()
					if f == nil || !p.InLib(f) || f.Name() == "putRecordToPool" {
						continue
					}
					rel := false
					for _, bb := range f.Blocks {
						for _, ii := range bb.Instrs {
							if ci, ok := ii.(ssa.CallInstruction); ok && core.StaticCalleeIs(ci.Common(), poolPut) {
								rel = true
							}
						}
					}
					if rel {
						continue
					}
					n++
					perFn[fn]++
					ord := perFn[fn]
					check := func(field *types.Var, par *ssa.Parameter, what string) {
						if par == nil {
							return
						}
						ok := false
						for _, r2 := range *ta.Referrers() {
							fa, isFA := r2.(*ssa.FieldAddr)
							if !isFA {
								continue
							}
							if ff, _ := core.FieldOfAddr(fa); ff != field {
								continue
							}
							for _, r3 := range *fa.Referrers() {
								if st, isSt := r3.(*ssa.Store); isSt && st.Addr == ssa.Value(fa) && derives(st.Val, par) && before(st, hc) {
									ok = true
								}
							}
						}
						rep.Check(ok, "VF0", fmt.Sprintf("record-carries-%s:%s->%s#%d", what, core.FuncKey(fn), f.Name(), ord), "the record handed on holds the caller's "+what, p.InstrPos(hc), fmt.Sprintf("the record taken from the pool at %s is handed to %s at %s without its %s having been set from the %s parameter on every path: an empty / stale %s is written", p.InstrPos(ta), f.Name(), p.InstrPos(hc), field.Name(), what, what), true)
					}
					check(keyF, keyP, "key")
					if spec.val {
						check(valF, valP, "value")
					}
				}
			}
		}
	}
	if n == 0 {
		rep.Unk("VAC", "VF0", "expected pooled records handed on in Put / Delete", "", "found none")
	}
}

// ---- TB5c / TB3b / TB3c / IT1b: sibling parity of the index layer -------------------------------------------------

func tb5cMoversWrite(p *core.Prog, rep *core.Report) {
	rep.Rule("TB5c", "sibling surface parity (movers): the moving methods (no results, not the closing one) of every shard-iterator implementation write through their receiver - a mover that writes nothing leaves the cursor where it was (a seek or rewind that silently does nothing under one index type)")
	ms := newMutSum(p)
	impls := p.R.Impls(p.R.IterIface)
	it := p.R.IterIface.Underlying().(*types.Interface)
	for i := 0; i < it.NumMethods(); i++ {
		m := it.Method(i)
		sig := m.Type().(*types.Signature)
		if sig.Results().Len() != 0 || m.Name() == "close" {
			continue
		}
		var bad []string
		for _, im := range impls {
			fn := p.MustMethod(im, m.Name())
			if mu, _ := ms.mutates(fn); !mu {
				bad = append(bad, core.FuncKey(fn)+" writes nothing through its receiver")
			}
		}
		rep.Check(len(bad) == 0, "TB5c", "mover-writes:"+m.Name(), "movers of all implementations move", "", strings.Join(bad, "; "), true)
	}
}

func tb3bIndexImplParity(p *core.Prog, rep *core.Report) {
	rep.Rule("TB3b", "sibling parity of the index implementations: in every implementation the methods that return a superseded position (put, delete) mutate the container (non-empty writes-through-receiver summary) and have a return whose value is not the nil constant - an implementation that never reports the old position starves the reclaim accounting under that index type only")
	ms := newMutSum(p)
	impls := p.R.Impls(p.R.IndexIface)
	it := p.R.IndexIface.Underlying().(*types.Interface)
	for i := 0; i < it.NumMethods(); i++ {
		m := it.Method(i)
		sig := m.Type().(*types.Signature)
		if sig.Results().Len() != 1 || sig.Params().Len() == 0 {
			continue
		}
		pt, ok := sig.Results().At(0).Type().(*types.Pointer)
		if !ok {
			continue
		}
		if n, ok := pt.Elem().(*types.Named); !ok || n != p.R.DataPos {
			continue
		}
		// get is a reader: only the mutating ones (those that mutate in at least one implementation)
		anyMut := false
		for _, im := range impls {
			if mu, _ := ms.mutates(p.MustMethod(im, m.Name())); mu {
				anyMut = true
			}
		}
		if !anyMut {
			continue
		}
		var bad []string
		for _, im := range impls {
			fn := p.MustMethod(im, m.Name())
			if mu, _ := ms.mutates(fn); !mu {
				bad = append(bad, core.FuncKey(fn)+" does not change its container")
			}
			nonNil := false
			for _, r := range core.Returns(fn) {
				for _, o := range core.Origins(core.ReturnOperand(r, 0)) {
					if !core.IsNilConst(o) {
						nonNil = true
					}
				}
			}
			if !nonNil {
				bad = append(bad, core.FuncKey(fn)+" returns nil on every path: the superseded position is never reported")
			}
		}
		rep.Check(len(bad) == 0, "TB3b", "impl-parity:"+m.Name(), "all implementations mutate and report the superseded position", "", strings.Join(bad, "; "), true)
	}
}

func it1bDelegation(p *core.Prog, rep *core.Report) {
	R := p.R
	rep.Rule("IT1b", "the database iterator delegates: each of its exported methods Rewind / Seek / Next / Valid / Key calls the method of the same name on the merged index iterator on every path to its return")
	for _, name := range []string{"Rewind", "Seek", "Next", "Valid", "Key"} {
		fn := p.Method(R.Iterator, name)
		target := p.Method(R.IndexIterator, name)
		if fn == nil || target == nil {
			continue
		}
		called := false
		for _, b := range fn.Blocks {
			for _, in := range b.Instrs {
				if c, ok := in.(*ssa.Call); ok && c.Common().StaticCallee() == target {
					// on every path: the call's block dominates every return
					all := true
					for _, r := range core.Returns(fn) {
						if !(b == r.Block() || b.Dominates(r.Block())) {
							all = false
						}
					}
					if all {
						called = true
					}
				}
			}
		}
		rep.Check(called, "IT1b", "delegates:"+core.FuncKey(fn), "the call reaches the merged index iterator", p.Pos(fn.Pos()), core.FuncKey(fn)+" does not call (*IndexIterator)."+name+" on every path: the cursor does not move / the answer is not the index's", true)
	}
}

func tb5dDirectionSymmetry(p *core.Prog, rep *core.Report) {
	rep.Rule("TB5d", "direction symmetry: in the methods of the shard iterators, the two arms of a branch on a boolean receiver field (the direction flag) store the same set of receiver fields (closures created in an arm count with the arm) - an arm that forgets the cursor makes one direction of Seek / Rewind / Next a no-op")
	impls := p.R.Impls(p.R.IterIface)
	n := 0
	for _, im := range impls {
		// the direction flag is configuration: a boolean field no method ever stores (validity flags are stored)
		storedByMethods := map[*types.Var]bool{}
		for _, fn := range p.LibFuncs() {
			if core.RecvNamed(fn) != im {
				continue
			}
			for _, b := range fn.Blocks {
				for _, in := range b.Instrs {
					if f, _, _ := core.StoreField(in); f != nil {
						storedByMethods[f] = true
					}
				}
			}
		}
		for _, fn := range p.LibFuncs() {
			if core.RecvNamed(fn) != im || fn.Blocks == nil {
				continue
			}
			storesOf := func(start *ssa.BasicBlock) map[string]bool {
				out := map[string]bool{}
				var addFn func(f *ssa.Function, d int)
				addBlock := func(b *ssa.BasicBlock, d int) {
					for _, in := range b.Instrs {
						if f, _, _ := core.StoreField(in); f != nil && fieldOwnerStruct(f) == im.Underlying() {
							out[f.Name()] = true
						}
						if mc, ok := in.(*ssa.MakeClosure); ok && d < 2 {
							if cf, ok := mc.Fn.(*ssa.Function); ok {
								addFn(cf, d+1)
							}
						}
					}
				}
				addFn = func(f *ssa.Function, d int) {
					for _, b := range f.Blocks {
						addBlock(b, d)
					}
				}
				for _, b := range start.Parent().Blocks {
					if b == start || start.Dominates(b) {
						addBlock(b, 0)
					}
				}
				return out
			}
			for _, b := range fn.Blocks {
				iff, ok := b.Instrs[len(b.Instrs)-1].(*ssa.If)
				if !ok {
					continue
				}
				f, base := core.LoadedField(iff.Cond)
				if f == nil || !isBoolT(f.Type()) || fieldOwnerStruct(f) != im.Underlying() || storedByMethods[f] {
					continue
				}
				_ = base
				t, e := b.Succs[0], b.Succs[1]
				if len(t.Preds) != 1 || len(e.Preds) != 1 {
					// an arm without a block of its own: it stores nothing
					var other *ssa.BasicBlock
					if len(t.Preds) == 1 {
						other = t
					} else if len(e.Preds) == 1 {
						other = e
					}
					if other == nil {
						continue
					}
					st := storesOf(other)
					// early-return guards (`if !valid { return }`) have an arm that ends the method: not a direction branch
					if _, isRet := other.Instrs[len(other.Instrs)-1].(*ssa.Return); isRet {
						continue
					}
					if len(st) > 0 {
						n++
						rep.Check(false, "TB5d", fmt.Sprintf("direction-symmetry:%s@%s", core.FuncKey(fn), f.Name()), "both arms of the branch store the same receiver fields", p.InstrPos(iff), fmt.Sprintf("one arm of the branch on %s at %s stores %v, the other arm stores nothing", f.Name(), p.InstrPos(iff), keysOf(st)), true)
					}
					continue
				}
				if _, isRet := t.Instrs[len(t.Instrs)-1].(*ssa.Return); isRet && len(t.Instrs) == 1 {
					continue
				}
				if _, isRet := e.Instrs[len(e.Instrs)-1].(*ssa.Return); isRet && len(e.Instrs) == 1 {
					continue
				}
				st, se := storesOf(t), storesOf(e)
				if len(st) == 0 && len(se) == 0 {
					continue
				}
				n++
				same := len(st) == len(se)
				for k := range st {
					if !se[k] {
						same = false
					}
				}
				rep.Check(same, "TB5d", fmt.Sprintf("direction-symmetry:%s@%s", core.FuncKey(fn), f.Name()), "both arms of the branch store the same receiver fields", p.InstrPos(iff), fmt.Sprintf("the arms of the branch on %s at %s store different receiver fields: %v vs %v", f.Name(), p.InstrPos(iff), keysOf(st), keysOf(se)), true)
			}
		}
	}
	_ = n
}

func keysOf(m map[string]bool) []string {
	var out []string
	for k := range m {
		out = append(out, k)
	}
	return sortedStr(out)
}

// ---- CD12: a chunk never exceeds the room of its block ---------------------------------------------------------

func cd12ChunkFitsBlock(p *core.Prog, rep *core.Report) {
	rep.Rule("CD12", "a chunk fits its block: the value the chunk framer writes into the 16-bit length field is, on every path (through phis), the result of a min(...) - the remaining payload capped by the room left in the block; a path on which the cap is missing writes a chunk longer than a block for any record larger than one")
	fr := chunkWriter(p)
	n := 0
	for _, b := range fr.Blocks {
		for _, in := range b.Instrs {
			c, ok := in.(*ssa.Call)
			if !ok || !calleeIs(in, "(encoding/binary.littleEndian).PutUint16") || len(c.Common().Args) < 3 {
				continue
			}
			n++
			v := c.Common().Args[2]
			for {
				if cv, ok := v.(*ssa.Convert); ok {
					v = cv.X
					continue
				}
				break
			}
			var bad []string
			seen := map[ssa.Value]bool{}
			var walk func(x ssa.Value, d int)
			walk = func(x ssa.Value, d int) {
				if seen[x] || d > 8 {
					return
				}
				seen[x] = true
				switch t := x.(type) {
				case *ssa.Phi:
					for _, e := range t.Edges {
						walk(e, d+1)
					}
				case *ssa.Convert:
					walk(t.X, d+1)
				case *ssa.Call:
					if bi, ok := t.Call.Value.(*ssa.Builtin); ok && bi.Name() == "min" {
						return
					}
					bad = append(bad, fmt.Sprintf("%s at %s", t.Name(), p.InstrPos(t)))
				default:
					pos := ""
					if ii, ok := x.(ssa.Instruction); ok {
						pos = " at " + p.InstrPos(ii)
					}
					bad = append(bad, fmt.Sprintf("%s (%T)%s", x.Name(), x, pos))
				}
			}
			walk(v, 0)
			rep.Check(len(bad) == 0, "CD12", "chunk-length-capped:"+core.FuncKey(fr), "the chunk length is capped by the room in the block on every path", p.InstrPos(in), "the length written at "+p.InstrPos(in)+" can be the uncapped value "+strings.Join(bad, ", ")+": a record larger than a block is framed as one over-long chunk (length truncated to 16 bits, readers lose framing)", true)
		}
	}
	if n == 0 {
		rep.Unk("VAC", "CD12", "expected a PutUint16 of the chunk length in the framer", "", "found none")
	}
}

// ---- NIL1: a looked-up position is tested before it is used --------------------------------------------------

func nil1LookupTested(p *core.Prog, rep *core.Report) {
	R := p.R
	rep.Rule("NIL1", "a looked-up position is tested before use: the result of ShardedIndex.Get (nil for an absent key) is dereferenced - field access, or handed to a library function that reads its fields - only on the non-nil edge of a test of that result")
	get := p.MustMethod(R.ShardedIndex, "Get")
	// library functions that dereference a *DataPos parameter without testing it first
	derefs := func(fn *ssa.Function, idx int) bool {
		if fn == nil || idx >= len(fn.Params) {
			return false
		}
		par := fn.Params[idx]
		for _, r := range *par.Referrers() {
			if _, ok := r.(*ssa.FieldAddr); ok {
				// guarded inside the callee?
				guarded := false
				for _, r2 := range *par.Referrers() {
					if bo, ok := r2.(*ssa.BinOp); ok && (core.IsNilConst(bo.X) || core.IsNilConst(bo.Y)) {
						guarded = true
					}
				}
				if !guarded {
					return true
				}
			}
		}
		return false
	}
	n := 0
	perFn := map[*ssa.Function]int{}
	for _, fn := range p.LibFuncs() {
		for _, b := range fn.Blocks {
			for _, in := range b.Instrs {
				c, ok := in.(*ssa.Call)
				if !ok || c.Common().StaticCallee() != get {
					continue
				}
				n++
				perFn[fn]++
				// non-nil edges
				type edge struct {
					iff   *ssa.If
					taken bool
				}
				var edges []edge
				vals := []ssa.Value{c}
				for _, r := range *c.Referrers() {
					if ph, ok := r.(*ssa.Phi); ok {
						vals = append(vals, ph)
					}
				}
				for _, v := range vals {
					for _, r := range *v.Referrers() {
						bo, ok := r.(*ssa.BinOp)
						if !ok || !(core.IsNilConst(bo.X) || core.IsNilConst(bo.Y)) {
							continue
						}
						for _, r2 := range *bo.Referrers() {
							if iff, ok := r2.(*ssa.If); ok {
								edges = append(edges, edge{iff, bo.Op == token.NEQ})
							}
						}
					}
				}
				guardedAt := func(blk *ssa.BasicBlock) bool {
					for _, e := range edges {
						if edgeDominates(e.iff, e.taken, blk) {
							return true
						}
					}
					return false
				}
				var bad []string
				for _, v := range vals {
					for _, r := range *v.Referrers() {
						switch t := r.(type) {
						case *ssa.FieldAddr:
							if !guardedAt(t.Block()) {
								bad = append(bad, "field of the result read at "+p.InstrPos(t)+" without a nil test")
							}
						case *ssa.Call:
							f := t.Common().StaticCallee()
							if f == nil || !p.InLib(f) {
								continue
							}
							for i, a := range t.Common().Args {
								if a == v && derefs(f, i) && !guardedAt(t.Block()) {
									bad = append(bad, "result handed to "+f.Name()+" (which reads its fields) at "+p.InstrPos(t)+" without a nil test")
								}
							}
						}
					}
				}
				rep.Check(len(bad) == 0, "NIL1", fmt.Sprintf("lookup-tested:%s#%d", core.FuncKey(fn), perFn[fn]), "the position of an absent key is never dereferenced", p.InstrPos(in), strings.Join(sortedStr(bad), "; ")+": a read of an absent key panics instead of answering key-not-found", true)
			}
		}
	}
}

// ---- DT4: the stored size, its metadata record and the element change together ---------------------------------

func dt4SizePersisted(p *core.Prog, rep *core.Report) {
	R := p.R
	rep.Rule("DT4", "a size change is persisted with its element: in package datatype, after a store that changes the metadata's size field by +-1, every path to a success return passes (a) an engine Put (DB or Batch) whose value is the metadata's encoding and (b) for -1 in the hash / set / sorted-set commands an engine Delete, for +1 an engine Put of another value (the element) - a size that changes alone, or an element that changes without the size, makes later replies (counts, existence flags) wrong")
	inPkg := func(fn *ssa.Function) bool {
		return fn.Package() != nil && fn.Package().Pkg.Path() == core.ModPath+"/datatype"
	}
	isPut := func(c *ssa.Call) bool {
		f := c.Common().StaticCallee()
		return f != nil && f.Name() == "Put" && (core.RecvNamed(f) == R.DB || core.RecvNamed(f) == R.Batch)
	}
	isDel := func(c *ssa.Call) bool {
		f := c.Common().StaticCallee()
		return f != nil && f.Name() == "Delete" && (core.RecvNamed(f) == R.DB || core.RecvNamed(f) == R.Batch)
	}
	fromEncode := func(v ssa.Value) bool {
		for _, o := range core.Origins(v) {
			if c, ok := o.(*ssa.Call); ok {
				if f := c.Common().StaticCallee(); f != nil && strings.HasPrefix(f.Name(), "encode") && inPkg(f) {
					if n := core.RecvNamed(f); n != nil && strings.Contains(strings.ToLower(n.Obj().Name()), "meta") {
						return true
					}
				}
			}
		}
		return false
	}
	avoid := func(from ssa.Instruction, partner func(ssa.Instruction) bool) string {
		b := from.Block()
		for j := indexIn(from) + 1; j < len(b.Instrs); j++ {
			if partner(b.Instrs[j]) {
				return ""
			}
		}
		esc := ""
		seen := map[*ssa.BasicBlock]bool{}
		var dfs func(x *ssa.BasicBlock)
		dfs = func(x *ssa.BasicBlock) {
			if esc != "" {
				return
			}
			if r, ok := x.Instrs[len(x.Instrs)-1].(*ssa.Return); ok {
				// failure returns do not count
				ei := core.ErrResultIndex(x.Parent().Signature)
				if ei < 0 || core.IsNilConst(core.ReturnOperand(r, ei)) {
					esc = p.InstrPos(r)
				}
				return
			}
			for _, s := range x.Succs {
				if seen[s] {
					continue
				}
				seen[s] = true
				has := false
				for _, in := range s.Instrs {
					if partner(in) {
						has = true
					}
				}
				if !has {
					dfs(s)
				}
			}
		}
		dfs(b)
		return esc
	}
	n := 0
	for _, fn := range p.LibFuncs() {
		if !inPkg(fn) {
			continue
		}
		k := 0
		for _, b := range fn.Blocks {
			for _, in := range b.Instrs {
				f, _, val := core.StoreField(in)
				if f == nil || f.Name() != "size" {
					continue
				}
				bo, ok := val.(*ssa.BinOp)
				if !ok || (bo.Op != token.ADD && bo.Op != token.SUB) {
					continue
				}
				if c1, ok := constInt(bo.Y); !ok || c1 != 1 {
					continue
				}
				n++
				k++
				metaPut := func(i ssa.Instruction) bool {
					c, ok := i.(*ssa.Call)
					return ok && isPut(c) && len(c.Common().Args) >= 3 && fromEncode(c.Common().Args[2])
				}
				esc := avoid(in, metaPut)
				rep.Check(esc == "", "DT4", fmt.Sprintf("size-persisted:%s#%d", core.FuncKey(fn), k), "the changed size is written back", p.InstrPos(in), "the size changed at "+p.InstrPos(in)+" reaches the success return at "+esc+" without the metadata being written back: the next command reads the old size", true)
				// element partner (list pops keep their element record: only the cursor moves)
				moves := false
				for _, bb := range fn.Blocks {
					for _, ii := range bb.Instrs {
						if ff, _, vv := core.StoreField(ii); ff != nil && ff != f {
							if b2, ok := vv.(*ssa.BinOp); ok && (b2.Op == token.ADD || b2.Op == token.SUB) {
								if lf, _ := core.LoadedField(b2.X); lf == ff {
									if bt, ok := ff.Type().Underlying().(*types.Basic); ok && (bt.Kind() == types.Uint64 || bt.Kind() == types.Int64) {
										moves = true
									}
								}
							}
						}
					}
				}
				if moves && bo.Op == token.SUB {
					continue
				}
				var elem func(i ssa.Instruction) bool
				what := ""
				if bo.Op == token.SUB {
					elem = func(i ssa.Instruction) bool { c, ok := i.(*ssa.Call); return ok && isDel(c) }
					what = "an engine Delete of the element"
				} else {
					elem = func(i ssa.Instruction) bool {
						c, ok := i.(*ssa.Call)
						return ok && isPut(c) && len(c.Common().Args) >= 3 && !fromEncode(c.Common().Args[2])
					}
					what = "an engine Put of the element"
				}
				esc2 := avoid(in, elem)
				// the element operation may also precede the size change
				if esc2 != "" {
					for _, bb := range fn.Blocks {
						for _, ii := range bb.Instrs {
							if elem(ii) && before(ii, in) {
								esc2 = ""
							}
						}
					}
				}
				rep.Check(esc2 == "", "DT4", fmt.Sprintf("size-with-element:%s#%d", core.FuncKey(fn), k), "the size changes together with the element", p.InstrPos(in), "the size changed at "+p.InstrPos(in)+" reaches the success return at "+esc2+" without "+what, true)
			}
		}
	}
	// converse: an element removed inside a batch is paired with a size decrease in the same function
	for _, fn := range p.LibFuncs() {
		if !inPkg(fn) {
			continue
		}
		k := 0
		for _, b := range fn.Blocks {
			for _, in := range b.Instrs {
				c, ok := in.(*ssa.Call)
				if !ok || !isDel(c) {
					continue
				}
				if f := c.Common().StaticCallee(); core.RecvNamed(f) != R.Batch {
					continue
				}
				k++
				has := false
				// a replacement (delete the old element key, put the new one) keeps the size
				if avoid(in, func(i ssa.Instruction) bool {
					c2, ok := i.(*ssa.Call)
					return ok && isPut(c2) && len(c2.Common().Args) >= 3 && !fromEncode(c2.Common().Args[2])
				}) == "" {
					has = true
				}
				for _, bb := range fn.Blocks {
					for _, ii := range bb.Instrs {
						if f, _, val := core.StoreField(ii); f != nil && f.Name() == "size" {
							if bo, ok := val.(*ssa.BinOp); ok && bo.Op == token.SUB && (before(ii, in) || ii.Block() == in.Block()) {
								has = true
							}
						}
					}
				}
				rep.Check(has, "DT4", fmt.Sprintf("element-delete-with-size:%s#%d", core.FuncKey(fn), k), "an element removed in a batch lowers the stored size", p.InstrPos(in), "the element deleted at "+p.InstrPos(in)+" is not accompanied by a decrease of the metadata's size: counts stay too high", true)
			}
		}
	}
	if n == 0 {
		rep.Unk("VAC", "DT4", "expected size updates in package datatype", "", "found none")
	}
}

// ---- DT2: internal-key encoders write every field -----------------------------------------------------------

func dt2EncodersUseFields(p *core.Prog, rep *core.Report) {
	rep.Rule("DT2", "internal-key encoders write every field: in each encode method of a key / metadata struct of package datatype, every field of the receiver reaches the output as data - as the source of a copy / append, or (through conversions) as an argument of a Put* / Append* / float conversion - and not only through len(); a field that only contributes its length leaves zeros where the key bytes belong, so distinct user keys share internal keys")
	n := 0
	usedBy := map[*types.Struct]map[*types.Var]bool{}
	names := map[*types.Struct]string{}
	for _, fn := range p.LibFuncs() {
		if fn.Package() == nil || fn.Package().Pkg.Path() != core.ModPath+"/datatype" || !strings.HasPrefix(fn.Name(), "encode") {
			continue
		}
		recv := core.RecvNamed(fn)
		if recv == nil {
			continue
		}
		st, ok := recv.Underlying().(*types.Struct)
		if !ok {
			continue
		}
		used := map[*types.Var]bool{}
		loaded := map[*types.Var]bool{}
		var asData func(v ssa.Value, d int) bool
		asData = func(v ssa.Value, d int) bool {
			if d > 4 || v.Referrers() == nil {
				return false
			}
			for _, r := range *v.Referrers() {
				switch t := r.(type) {
				case *ssa.Call:
					if bi, ok := t.Call.Value.(*ssa.Builtin); ok {
						if bi.Name() == "len" || bi.Name() == "cap" {
							continue
						}
						return true // copy / append
					}
					return true
				case *ssa.Convert, *ssa.ChangeType, *ssa.Slice, *ssa.MakeInterface:
					if asData(t.(ssa.Value), d+1) {
						return true
					}
				case *ssa.BinOp:
					// arithmetic on a numeric field that then flows on (scores, versions); comparisons do not count
					switch t.Op {
					case token.EQL, token.NEQ, token.LSS, token.LEQ, token.GTR, token.GEQ:
					default:
						if asData(t, d+1) {
							return true
						}
					}
				case *ssa.Store:
					if t.Val == v {
						return true
					}
				}
			}
			return false
		}
		for _, b := range fn.Blocks {
			for _, in := range b.Instrs {
				u, ok := in.(*ssa.UnOp)
				if !ok {
					continue
				}
				f, _ := core.LoadedField(u)
				if f == nil || fieldOwnerStruct(f) != st {
					continue
				}
				loaded[f] = true
				if asData(u, 0) {
					used[f] = true
				}
			}
		}
		if usedBy[st] == nil {
			usedBy[st] = map[*types.Var]bool{}
		}
		for f := range used {
			usedBy[st][f] = true
		}
		names[st] = recv.Obj().Name()
		var bad []string
		for i := 0; i < st.NumFields(); i++ {
			f := st.Field(i)
			if loaded[f] && !used[f] {
				bad = append(bad, f.Name())
			}
		}
		if len(loaded) == 0 {
			continue
		}
		n++
		rep.Check(len(bad) == 0, "DT2", "encoder-writes-fields:"+core.FuncKey(fn), "every field the encoder looks at is written as data", p.Pos(fn.Pos()), "field(s) "+strings.Join(bad, ", ")+" only contribute a length / a comparison: their bytes never reach the encoded key", true)
	}
	for st, u := range usedBy {
		var miss []string
		for i := 0; i < st.NumFields(); i++ {
			if !u[st.Field(i)] {
				miss = append(miss, st.Field(i).Name())
			}
		}
		rep.Check(len(miss) == 0, "DT2", "all-fields-encoded:"+names[st], "every field of the struct is written by one of its encoders", "", "no encoder of "+names[st]+" writes field(s) "+strings.Join(sortedStr(miss), ", ")+": two keys that differ only there collide", true)
	}
	_ = n
}

// ---- ERR1: an error is wrapped only where it exists -------------------------------------------------------------

func err1WrapPolarity(p *core.Prog, rep *core.Report) {
	rep.Rule("ERR1", "error polarity: no library function returns fmt.Errorf(..., err) on the edge where that err was just found to be nil - a flipped test (`err == nil` for `err != nil`) turns every success of the callee into a failure of the caller and lets real failures through")
	n := 0
	var bad []string
	for _, fn := range p.LibFuncs() {
		ei := core.ErrResultIndex(fn.Signature)
		if ei < 0 {
			continue
		}
		for _, b := range fn.Blocks {
			iff, ok := b.Instrs[len(b.Instrs)-1].(*ssa.If)
			if !ok {
				continue
			}
			bo, ok := iff.Cond.(*ssa.BinOp)
			if !ok || (bo.Op != token.EQL && bo.Op != token.NEQ) {
				continue
			}
			var e ssa.Value
			if core.IsNilConst(bo.Y) {
				e = bo.X
			} else if core.IsNilConst(bo.X) {
				e = bo.Y
			}
			if e == nil || !core.IsErrorType(e.Type()) {
				continue
			}
			n++
			nilEdge := bo.Op == token.EQL
			for _, r := range core.Returns(fn) {
				if !edgeDominates(iff, nilEdge, r.Block()) {
					continue
				}
				for _, o := range core.Origins(core.ReturnOperand(r, ei)) {
					c, ok := o.(*ssa.Call)
					if !ok || !core.StaticCalleeIs(c.Common(), "fmt.Errorf") {
						continue
					}
					// is e among the variadic arguments?
					uses := false
					var walk func(v ssa.Value, d int)
					walk = func(v ssa.Value, d int) {
						if d > 6 || uses {
							return
						}
						if v == e {
							uses = true
							return
						}
						switch t := v.(type) {
						case *ssa.Slice:
							walk(t.X, d+1)
						case *ssa.MakeInterface:
							walk(t.X, d+1)
						case *ssa.ChangeInterface:
							walk(t.X, d+1)
						case *ssa.Alloc:
							for _, rr := range *t.Referrers() {
								if ia, ok := rr.(*ssa.IndexAddr); ok {
									for _, r2 := range *ia.Referrers() {
										if st, ok := r2.(*ssa.Store); ok {
											walk(st.Val, d+1)
										}
									}
								}
							}
						}
					}
					for _, a := range c.Common().Args {
						walk(a, 0)
					}
					if uses {
						bad = append(bad, fmt.Sprintf("%s returns a wrapped error at %s on the edge where the wrapped error is nil (test at %s)", core.FuncKey(fn), p.InstrPos(r), p.InstrPos(iff)))
					}
				}
			}
		}
	}
	if n == 0 {
		return
	}
	rep.Check(len(bad) == 0, "ERR1", "wrap-on-non-nil-edge", fmt.Sprintf("none of the %d error tests wraps the error on its nil edge", n), "", strings.Join(sortedStr(bad), "; "), true)
}

// ---- CP2: Backup copies -----------------------------------------------------------------------------------------

func cp2BackupCopies(p *core.Prog, rep *core.Report) {
	rep.Rule("CP2", "Backup copies: every success return of DB.Backup is dominated by the call of the directory copy (an early `return nil` - or `return err` on the nil edge of a preparatory step - reports a backup that was never taken)")
	bk := p.MustMethod(p.R.DB, "Backup")
	cpy := p.Func(core.ModPath+"/utils", "CopyDir")
	if cpy == nil {
		return
	}
	var call ssa.Instruction
	for _, b := range bk.Blocks {
		for _, in := range b.Instrs {
			if c, ok := in.(*ssa.Call); ok && c.Common().StaticCallee() == cpy {
				call = in
			}
		}
	}
	if call == nil {
		rep.Bad("CP2", "backup-copies", "Backup calls the directory copy", p.Pos(bk.Pos()), "no call of utils.CopyDir in Backup")
		return
	}
	var bad []string
	ei := core.ErrResultIndex(bk.Signature)
	for _, r := range core.Returns(bk) {
		op := core.ReturnOperand(r, ei)
		// returns of the copy's own result are the normal end
		isCopyResult := false
		for _, o := range core.Origins(op) {
			if o == ssa.Value(call.(*ssa.Call)) {
				isCopyResult = true
			}
		}
		if isCopyResult || before(call, r) {
			continue
		}
		// a return before the copy must be a failure: its operand non-nil on that path
		provablyFailure := false
		for _, b := range bk.Blocks {
			iff, ok := b.Instrs[len(b.Instrs)-1].(*ssa.If)
			if !ok {
				continue
			}
			bo, ok := iff.Cond.(*ssa.BinOp)
			if !ok || (bo.Op != token.EQL && bo.Op != token.NEQ) {
				continue
			}
			var e ssa.Value
			if core.IsNilConst(bo.Y) {
				e = bo.X
			} else if core.IsNilConst(bo.X) {
				e = bo.Y
			}
			if e == nil {
				continue
			}
			if e == op && edgeDominates(iff, bo.Op == token.NEQ, r.Block()) {
				provablyFailure = true
			}
		}
		if c, ok := op.(*ssa.Const); ok && c.Value == nil {
			// literal nil before the copy: allowed only for the "nothing to back up" guard on a nil active file
			guard := false
			for _, b := range bk.Blocks {
				if iff, ok := b.Instrs[len(b.Instrs)-1].(*ssa.If); ok {
					if bo, ok := iff.Cond.(*ssa.BinOp); ok && bo.Op == token.EQL {
						if f, _ := core.LoadedField(bo.X); f == p.R.DBActive && core.IsNilConst(bo.Y) && edgeDominates(iff, true, r.Block()) {
							guard = true
						}
					}
				}
			}
			if guard {
				continue
			}
		}
		if !provablyFailure {
			bad = append(bad, "return at "+p.InstrPos(r)+" is reached before the copy and is not provably a failure")
		}
	}
	rep.Check(len(bad) == 0, "CP2", "backup-copies", "every success return of Backup follows the copy", p.Pos(bk.Pos()), strings.Join(bad, "; "), true)
}

// ---- CL1b: the closing loop is complete -----------------------------------------------------------------------

func cl1bCloseLoopComplete(p *core.Prog, rep *core.Report) {
	R := p.R
	rep.Rule("CL1b", "the closing loop is complete: the loop of DB.Close over the rotated files is left only by its condition or on the failure edge of a Close error (a return on the success edge closes the first file only)")
	cl := p.MustMethod(R.DB, "Close")
	dfClose := p.MustMethod(R.DataFile, "Close")
	for _, lp := range naturalLoops(cl) {
		var closeCall *ssa.Call
		for b := range lp.body {
			for _, in := range b.Instrs {
				if c, ok := in.(*ssa.Call); ok && c.Common().StaticCallee() == dfClose {
					closeCall = c
				}
			}
		}
		if closeCall == nil {
			continue
		}
		var bad []string
		for b := range lp.body {
			if b == lp.header {
				continue
			}
			for si, sb := range b.Succs {
				if lp.body[sb] {
					continue
				}
				// an exit from the body: only the failure edge of the Close error may leave
				okr := false
				if iff, isIf := b.Instrs[len(b.Instrs)-1].(*ssa.If); isIf {
					if bo, isBo := iff.Cond.(*ssa.BinOp); isBo && (core.IsNilConst(bo.X) || core.IsNilConst(bo.Y)) {
						e := bo.X
						if core.IsNilConst(bo.X) {
							e = bo.Y
						}
						if e == ssa.Value(closeCall) {
							nonNilIdx := 0
							if bo.Op == token.EQL {
								nonNilIdx = 1
							}
							okr = si == nonNilIdx
						}
					}
				}
				if !okr {
					bad = append(bad, "the loop is left at "+p.InstrPos(b.Instrs[len(b.Instrs)-1])+" on an edge that is not the failure edge of the Close error")
				}
			}
		}
		rep.Check(len(bad) == 0, "CL1b", "close-loop-complete:"+core.FuncKey(cl), "every rotated file is closed", p.Pos(cl.Pos()), strings.Join(bad, "; ")+": files after the first stay open (memory-mapped files keep their 512 MiB size and the next Open fails)", true)
	}
}

// ---- IT2: what the prefix filter lets through -----------------------------------------------------------------

func it2FilterPolarity(p *core.Prog, rep *core.Report) {
	R := p.R
	rep.Rule("IT2", "the prefix filter stops exactly on keys that carry the prefix: in the filter method, (a) the scan over the index iterator is reached on the edge where a prefix is set (length != 0), (b) the scan is left (not through its Valid condition) only on the edge where the prefix comparison says 'equal', (c) the length guard of that comparison holds when key and prefix have the same length, and (d) the guard's failing edge continues the scan")
	var filter *ssa.Function
	ms := p.SSA.MethodSets.MethodSet(types.NewPointer(R.Iterator))
	for i := 0; i < ms.Len(); i++ {
		fn := p.SSA.MethodValue(ms.At(i))
		if fn == nil || fn.Blocks == nil {
			continue
		}
		for _, b := range fn.Blocks {
			for _, in := range b.Instrs {
				if u, ok := in.(*ssa.UnOp); ok {
					if f, _ := core.LoadedField(u); f != nil && f.Name() == "Prefix" {
						filter = fn
					}
				}
			}
		}
	}
	if filter == nil {
		return
	}
	loops := naturalLoops(filter)
	if len(loops) == 0 {
		rep.Bad("IT2", "filter-scan", "the filter scans", p.Pos(filter.Pos()), "no loop in the prefix filter")
		return
	}
	lp := loops[0]
	var bad []string
	isLenOfPrefix := func(v ssa.Value) bool {
		for _, o := range core.Origins(v) {
			if a := lenOf(o); a != nil {
				if f, _ := core.LoadedField(a); f != nil && f.Name() == "Prefix" {
					return true
				}
			}
		}
		return false
	}
	for _, b := range filter.Blocks {
		iff, ok := b.Instrs[len(b.Instrs)-1].(*ssa.If)
		if !ok {
			continue
		}
		bo, isBo := iff.Cond.(*ssa.BinOp)
		inLoop := lp.body[b]
		switch {
		case !inLoop && isBo && (bo.Op == token.EQL || bo.Op == token.NEQ) && isLenOfPrefix(bo.X):
			if k, ok := constInt(bo.Y); ok && k == 0 {
				// (a)
				setIdx := 1 // successor index on which a prefix is set
				if bo.Op == token.NEQ {
					setIdx = 0
				}
				onSet, onUnset := b.Succs[setIdx], b.Succs[1-setIdx]
				reaches := func(x *ssa.BasicBlock) bool { return x == lp.header || lp.body[x] || x.Dominates(lp.header) }
				if !reaches(onSet) || reaches(onUnset) {
					bad = append(bad, "the scan is not on the 'prefix set' edge of the test at "+p.InstrPos(iff)+": with a prefix the filter returns at once")
				}
			}
		case inLoop && isBo:
			// comparison result with 0, or length guard
			if c, ok := bo.X.(*ssa.Call); ok && core.StaticCalleeIs(c.Common(), "bytes.Compare") {
				if k, ok := constInt(bo.Y); ok && k == 0 {
					matchEdge := 0
					switch bo.Op {
					case token.EQL:
						matchEdge = 0
					case token.NEQ:
						matchEdge = 1
					default:
						bad = append(bad, "the prefix comparison at "+p.InstrPos(iff)+" is not an equality test")
						continue
					}
					if lp.body[b.Succs[matchEdge]] {
						bad = append(bad, "the 'equal' edge of the prefix comparison at "+p.InstrPos(iff)+" continues the scan: matching keys are skipped")
					}
					if !lp.body[b.Succs[1-matchEdge]] {
						bad = append(bad, "the 'different' edge of the prefix comparison at "+p.InstrPos(iff)+" leaves the scan: the iterator stops on a key without the prefix")
					}
				}
				continue
			}
			if isLenOfPrefix(bo.X) || isLenOfPrefix(bo.Y) {
				// (c) holds at equal lengths
				op := bo.Op
				if isLenOfPrefix(bo.Y) && !isLenOfPrefix(bo.X) {
					switch op {
					case token.LSS:
						op = token.GTR
					case token.LEQ:
						op = token.GEQ
					case token.GTR:
						op = token.LSS
					case token.GEQ:
						op = token.LEQ
					}
				}
				if op != token.LEQ && op != token.GEQ && op != token.EQL {
					bad = append(bad, "the length guard at "+p.InstrPos(iff)+" fails when the key is exactly the prefix")
				}
				// (d) the true edge leads on inside the loop (to the comparison), the false edge continues the scan; neither leaves it
				if !lp.body[b.Succs[0]] || !lp.body[b.Succs[1]] {
					bad = append(bad, "an edge of the length guard at "+p.InstrPos(iff)+" leaves the scan: the iterator stops on a key that was not compared with the prefix")
				}
			}
		case inLoop && !isBo:
			// bytes.HasPrefix / bytes.Equal used directly as the condition
			if c, ok := iff.Cond.(*ssa.Call); ok && (core.StaticCalleeIs(c.Common(), "bytes.HasPrefix") || core.StaticCalleeIs(c.Common(), "bytes.Equal")) {
				if lp.body[b.Succs[0]] {
					bad = append(bad, "the 'match' edge of the prefix test at "+p.InstrPos(iff)+" continues the scan")
				}
				if !lp.body[b.Succs[1]] {
					bad = append(bad, "the 'no match' edge of the prefix test at "+p.InstrPos(iff)+" leaves the scan")
				}
			}
		}
	}
	rep.Check(len(bad) == 0, "IT2", "filter-polarity:"+core.FuncKey(filter), "the filter stops on matching keys only, and on all of them", p.Pos(filter.Pos()), strings.Join(sortedStr(bad), "; "), true)
}

// firstReachedAvoiding: the first instruction satisfying isTarget that is reachable from `from` (exclusive) along a CFG path
// on which no instruction satisfies isBarrier before it; nil if there is none.
func firstReachedAvoiding(from ssa.Instruction, isTarget, isBarrier func(ssa.Instruction) bool) ssa.Instruction {
	scan := func(b *ssa.BasicBlock, start int) (ssa.Instruction, bool) {
		for j := start; j < len(b.Instrs); j++ {
			if isTarget(b.Instrs[j]) {
				return b.Instrs[j], true
			}
			if isBarrier(b.Instrs[j]) {
				return nil, true
			}
		}
		return nil, false
	}
	b := from.Block()
	if t, stop := scan(b, indexIn(from)+1); stop {
		return t
	}
	seen := map[*ssa.BasicBlock]bool{}
	work := append([]*ssa.BasicBlock{}, b.Succs...)
	for len(work) > 0 {
		x := work[len(work)-1]
		work = work[:len(work)-1]
		if seen[x] {
			continue
		}
		seen[x] = true
		t, stop := scan(x, 0)
		if t != nil {
			return t
		}
		if !stop {
			work = append(work, x.Succs...)
		}
	}
	return nil
}

func posOrEmpty(p *core.Prog, in ssa.Instruction) string {
	if in == nil {
		return ""
	}
	return p.InstrPos(in)
}

// blockOrdinal: a construct key for an instruction that survives line shifts: its ordinal among the stores of its function.
func blockOrdinal(in ssa.Instruction) string {
	n := 0
	for _, b := range in.Parent().Blocks {
		for _, x := range b.Instrs {
			if _, ok := x.(*ssa.Store); ok {
				n++
			}
			if x == in {
				return fmt.Sprintf("store%d", n)
			}
		}
	}
	return "store?"
}

// isLimitTest: cond compares something with the size-limit field - directly, negated, or inside an unexported predicate
// helper of the package that the condition calls (`if b.exceedsFileCapacity(size)`; two levels).
func isLimitTest(cond ssa.Value, limit *types.Var, d int) bool {
	switch t := cond.(type) {
	case *ssa.BinOp:
		return core.LastField(core.Unwrap(t.X)) == limit || core.LastField(core.Unwrap(t.Y)) == limit
	case *ssa.UnOp:
		if t.Op == token.NOT {
			return isLimitTest(t.X, limit, d)
		}
	case *ssa.Call:
		f := t.Common().StaticCallee()
		if f == nil || d > 1 || token.IsExported(f.Name()) || !inRootPkg(f) {
			return false
		}
		if b, ok := f.Signature.Results().At(0).Type().Underlying().(*types.Basic); !ok || f.Signature.Results().Len() != 1 || b.Kind() != types.Bool {
			return false
		}
		for _, blk := range f.Blocks {
			for _, in := range blk.Instrs {
				if bo, ok := in.(*ssa.BinOp); ok {
					switch bo.Op {
					case token.GTR, token.GEQ, token.LSS, token.LEQ:
						if isLimitTest(bo, limit, d+1) {
							return true
						}
					}
				}
			}
		}
	}
	return false
}
