package rules

import (
	"golang.org/x/tools/go/ssa"

	"xkvverif/internal/core"
)

func C11(p *core.Prog, rep *core.Report) {
	codecAgreement(p, rep)
	h := cd2Header(p, rep)
	bs, hdr := cd3Threshold(p, rep, h)
	cd3bPadPerRecord(p, rep, bs, hdr)
	cd5Width(p, rep, bs, hdr)
	cd7LogicalSize(p, rep)
	chunkTypeProtocol(p, rep)
	bd2Sign(p, rep)
	bd4Window(p, rep)
	wr1SingleWrite(p, rep)
	eof1(p, rep)
	rep.Assumptions = append(rep.Assumptions, "the variable of the pad/skip predicates ranges over [0, blockSize): it is produced by '% blockSize' (writer) and reset at block boundaries (reader)")
	rep.NotCovered = append(rep.NotCovered, "the round trip itself: every min()/%/+header boundary case over all (offset, length) pairs; byte equality; both back-ends storing identical bytes (no solver is used)")
}

func C12(p *core.Prog, rep *core.Report) {
	bd1Bounds(p, rep)
	bd2Sign(p, rep)
	bd3Crc(p, rep)
	bd4Window(p, rep)
	ps8Readers(p, rep, "read")
	eof1(p, rep)
	chunkTypeProtocol(p, rep)
	rep.Assumptions = append(rep.Assumptions, "content that passes CRC-32 is trusted by the post-checksum decoders (negative or oversized varint lengths inside a CRC-valid record are not guarded)")
	rep.NotCovered = append(rep.NotCovered, "'returns the originally written value' (value equality); CRC collisions; panics in post-checksum decoders on crafted CRC-valid content")
}

func C15(p *core.Prog, rep *core.Report) {
	rt1(p, rep, false)
	rt2(p, rep)
	rt3Parity(p, rep)
	poolReset(p, rep)
	rep.NotCovered = append(rep.NotCovered, "nothing beyond the trusted classification of append/copy/string conversions and the body-less dependency functions (listed under tables)")
}

func C17(p *core.Prog, rep *core.Report) {
	v := newVF(p, rep)
	v.vf4()
	ps7SizeCheck(p, rep, true)
	full := core.NewReport("C09")
	l := runLockRules(p, full, false)
	_ = l
	total, reclaim := v.counters()
	rep.Rule("LK1", full.Rules["LK1"])
	n := 0
	for _, o := range full.Obls {
		if o.Rule == "LK1" && (containsAny(o.Construct, "DB."+total.Name(), "DB."+reclaim.Name())) {
			rep.Add(*o)
			n++
		}
	}
	if n < 4 {
		core.Failf("vacuity guard: C17 expected >= 4 guarded accesses to the accounting counters, found %d", n)
	}
	rep.Assumptions = append(rep.Assumptions, "hint load: the index is empty and hint keys are unique by construction of the hint file, so no superseded position exists to charge")
	rep.NotCovered = append(rep.NotCovered, "the numeric identity at every step of every history (needs the sizes); KeyNum / DataFileNum are one-line reads covered by LK1 only; the estimate GetLogRecordDiskSize >= real size")
}

var _ = (*ssa.Function)(nil)
