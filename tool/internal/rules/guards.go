package rules

import (
	"fmt"
	"go/constant"
	"go/token"
	"go/types"
	"strings"

	"golang.org/x/tools/go/ssa"

	"xkvverif/internal/core"
)

// ---------------------------------------------------------------------------------------------------
// E7: dominating-guard facts for untrusted quantities (BD1-BD4, DESIGN 2.7)
// ---------------------------------------------------------------------------------------------------

const (
	crcIEEE   = "hash/crc32.ChecksumIEEE"
	crcUpdate = "hash/crc32.Update"
)

func calleeIs(in ssa.Instruction, names ...string) bool {
	ci, ok := in.(ssa.CallInstruction)
	if !ok {
		return false
	}
	f := ci.Common().StaticCallee()
	if f == nil {
		return false
	}
	for _, n := range names {
		if f.String() == n {
			return true
		}
	}
	return false
}

func isLEUint(in ssa.Instruction, bits string) bool {
	return calleeIs(in, "(encoding/binary.littleEndian).Uint"+bits)
}

// chunkDecoder: the function of package datafile that verifies a chunk: computes an IEEE CRC, reads a stored
// 32-bit sum and returns (payload, type, error).
func chunkDecoder(p *core.Prog) *ssa.Function {
	var found *ssa.Function
	for _, fn := range p.LibFuncs() {
		if fn.Package() == nil || fn.Package().Pkg.Path() != core.ModPath+"/datafile" {
			continue
		}
		crc, u32 := false, false
		for _, b := range fn.Blocks {
			for _, in := range b.Instrs {
				if calleeIs(in, crcIEEE) {
					crc = true
				}
				if isLEUint(in, "32") {
					u32 = true
				}
			}
		}
		if crc && u32 && core.ErrResultIndex(fn.Signature) >= 0 && fn.Signature.Results().Len() == 3 {
			if found != nil {
				core.Failf("role ambiguous: chunk decoder (%s, %s)", found.Name(), fn.Name())
			}
			found = fn
		}
	}
	if found == nil {
		core.Failf("role unresolved: chunk decoder (CRC + stored sum + (payload,type,error))")
	}
	return found
}

// chunkReaders: functions of package datafile that directly invoke ReadWriter.Read.
func chunkReaders(p *core.Prog) []*ssa.Function {
	var out []*ssa.Function
	for _, fn := range p.LibFuncs() {
		for _, b := range fn.Blocks {
			for _, in := range b.Instrs {
				if ci, ok := in.(ssa.CallInstruction); ok && isReadPrimitive(p, ci.Common()) {
					out = append(out, fn)
					goto next
				}
			}
		}
	next:
	}
	return out
}

type lenFact struct {
	iff   *ssa.If
	taken bool
	base  ssa.Value // the sliced operand whose len is bounded
	k     int64     // len(base) >= k          (kind 'K')
	v     ssa.Value // v <= len(base)          (kind 'V')
}

func lenOf(v ssa.Value) ssa.Value {
	v = core.Unwrap(v)
	if c, ok := v.(*ssa.Call); ok {
		if b, ok := c.Call.Value.(*ssa.Builtin); ok && b.Name() == "len" && len(c.Call.Args) == 1 {
			return c.Call.Args[0]
		}
	}
	return nil
}

func constInt(v ssa.Value) (int64, bool) {
	v = core.Unwrap(v)
	c, ok := v.(*ssa.Const)
	if !ok || c.Value == nil || c.Value.Kind() != constant.Int {
		return 0, false
	}
	i, ok := constant.Int64Val(c.Value)
	return i, ok
}

func lenFacts(fn *ssa.Function) []lenFact {
	var out []lenFact
	for _, b := range fn.Blocks {
		iff, ok := b.Instrs[len(b.Instrs)-1].(*ssa.If)
		if !ok {
			continue
		}
		bo, ok := iff.Cond.(*ssa.BinOp)
		if !ok {
			continue
		}
		op := bo.Op
		x, y := bo.X, bo.Y
		// normalise so that the len() side is on the left: L op R
		if lenOf(x) == nil && lenOf(y) != nil {
			x, y = y, x
			switch op {
			case token.LSS:
				op = token.GTR
			case token.LEQ:
				op = token.GEQ
			case token.GTR:
				op = token.LSS
			case token.GEQ:
				op = token.LEQ
			}
		}
		base := lenOf(x)
		if base == nil {
			continue
		}
		if k, ok := constInt(y); ok {
			switch op {
			case token.LSS: // len < k : false => len >= k
				out = append(out, lenFact{iff: iff, taken: false, base: base, k: k})
			case token.LEQ:
				out = append(out, lenFact{iff: iff, taken: false, base: base, k: k + 1})
			case token.GEQ:
				out = append(out, lenFact{iff: iff, taken: true, base: base, k: k})
			case token.GTR:
				out = append(out, lenFact{iff: iff, taken: true, base: base, k: k + 1})
			}
			continue
		}
		v := core.Unwrap(y)
		switch op {
		case token.LSS, token.LEQ: // len < v  / len <= v : false => v <= len (or v < len)
			out = append(out, lenFact{iff: iff, taken: false, base: base, v: v, k: -1})
		case token.GEQ, token.GTR: // len >= v : true => v <= len
			out = append(out, lenFact{iff: iff, taken: true, base: base, v: v, k: -1})
		}
	}
	return out
}

func factCovers(f lenFact, blk *ssa.BasicBlock) bool { return edgeDominates(f.iff, f.taken, blk) }

// bd1Bounds: every slice/index of the decoder's input is bounded by a dominating guard.
func bd1Bounds(p *core.Prog, rep *core.Report) {
	rep.Rule("BD1", "untrusted bounds: in the chunk decoder (which runs before the checksum can vouch for anything) every slice / index of the input buffer is dominated by a guard that bounds it by the buffer's length: constant bounds by len >= c, the stored-length-derived bound by bound <= len")
	d := chunkDecoder(p)
	facts := lenFacts(d)
	n := 0
	var bad []string
	check := func(in ssa.Instruction, base ssa.Value, cbound int64, vbound ssa.Value) {
		n++
		for _, f := range facts {
			if !sameOrigin(f.base, base) || !factCovers(f, in.Block()) {
				continue
			}
			if vbound == nil && f.k >= cbound {
				return
			}
			if vbound != nil && f.v != nil && (f.v == core.Unwrap(vbound) || sameOrigin(f.v, vbound)) {
				return
			}
		}
		_ = 0
		what := fmt.Sprintf("constant bound %d", cbound)
		if vbound != nil {
			what = "data-dependent bound " + vbound.Name()
		}
		bad = append(bad, fmt.Sprintf("%s at %s is not dominated by a length guard", what, p.InstrPos(in)))
	}
	for _, b := range d.Blocks {
		for _, in := range b.Instrs {
			switch t := in.(type) {
			case *ssa.Slice:
				if _, isParam := core.Origins(t.X)[0].(*ssa.Parameter); !isParam {
					continue
				}
				var cmax int64 = -1
				for _, bd := range []ssa.Value{t.Low, t.High} {
					if bd == nil {
						continue
					}
					if k, ok := constInt(bd); ok {
						if k > cmax {
							cmax = k
						}
					} else {
						check(in, t.X, 0, bd)
						// the bound is computed from the stored 16-bit length: its type must be wide enough that
						// headerSize + 65535 cannot wrap (a wrapped bound passes the guard)
						if bt, ok := bd.Type().Underlying().(*types.Basic); ok && (bt.Kind() == types.Uint16 || bt.Kind() == types.Int16 || bt.Kind() == types.Uint8 || bt.Kind() == types.Int8) {
							bad = append(bad, fmt.Sprintf("data-dependent bound %s at %s has the %s type: header size + stored length wraps around", bd.Name(), p.InstrPos(in), bt.Name()))
						}
					}
				}
				if cmax > 0 {
					check(in, t.X, cmax, nil)
				}
			case *ssa.IndexAddr:
				if _, isParam := core.Origins(t.X)[0].(*ssa.Parameter); !isParam {
					continue
				}
				if k, ok := constInt(t.Index); ok {
					check(in, t.X, k+1, nil)
				} else {
					check(in, t.X, 0, t.Index)
				}
			}
		}
	}
	if n < 4 {
		core.Failf("vacuity guard: BD1 expected >= 4 accesses to the decoder's input, found %d", n)
	}
	rep.Check(len(bad) == 0, "BD1", "chunk-decoder-bounds:"+core.FuncKey(d), fmt.Sprintf("all %d accesses to the undecoded input are bounded by a dominating length guard", n), p.Pos(d.Pos()), strings.Join(bad, "; "), true)

	// little-endian fixed-width reads of decoded content elsewhere in datafile need a length guard too
	for _, fn := range p.LibFuncs() {
		if fn == d || fn.Package() == nil || fn.Package().Pkg.Path() != core.ModPath+"/datafile" {
			continue
		}
		fs := lenFacts(fn)
		for _, b := range fn.Blocks {
			for _, in := range b.Instrs {
				for _, w := range []struct {
					bits string
					n    int64
				}{{"16", 2}, {"32", 4}, {"64", 8}} {
					if !isLEUint(in, w.bits) {
						continue
					}
					arg := in.(ssa.CallInstruction).Common().Args[1]
					if sl, ok := arg.(*ssa.Slice); ok && sl.High != nil {
						continue // explicit window: bounded by the slice expression itself (checked where it is built)
					}
					ok2 := false
					for _, f := range fs {
						if f.v == nil && f.k >= w.n && factCovers(f, b) && sameOrigin(f.base, arg) {
							ok2 = true
						}
					}
					rep.Check(ok2, "BD1", "fixed-width-read:"+core.FuncKey(fn), "a fixed-width read of decoded content is guarded by a length test", p.InstrPos(in), fmt.Sprintf("Uint%s on a buffer whose length is not tested (a short, CRC-valid payload would panic)", w.bits), true)
				}
			}
		}
	}
}

// subOperands finds a signed subtraction in the operand tree of v (through min/max/convert).
func subOperands(v ssa.Value, depth int) (a, b ssa.Value) {
	if v == nil || depth > 5 {
		return nil, nil
	}
	switch u := v.(type) {
	case *ssa.BinOp:
		if u.Op == token.SUB {
			return u.X, u.Y
		}
	case *ssa.Convert:
		return subOperands(u.X, depth+1)
	case *ssa.Call:
		if bi, ok := u.Call.Value.(*ssa.Builtin); ok && (bi.Name() == "min" || bi.Name() == "max") {
			for _, arg := range u.Call.Args {
				if x, y := subOperands(arg, depth+1); x != nil {
					return x, y
				}
			}
		}
	}
	return nil, nil
}

func isUnsigned(t types.Type) bool {
	b, ok := t.Underlying().(*types.Basic)
	return ok && b.Info()&types.IsUnsigned != 0
}

func isSigned(t types.Type) bool {
	b, ok := t.Underlying().(*types.Basic)
	return ok && b.Info()&types.IsInteger != 0 && b.Info()&types.IsUnsigned == 0
}

func sameSCC(a, b *ssa.BasicBlock) bool {
	return a == b || (reachBlock(a, b) && reachBlock(b, a))
}

func reachBlock(a, b *ssa.BasicBlock) bool {
	seen := map[*ssa.BasicBlock]bool{}
	work := append([]*ssa.BasicBlock(nil), a.Succs...)
	for len(work) > 0 {
		x := work[len(work)-1]
		work = work[:len(work)-1]
		if x == b {
			return true
		}
		if seen[x] {
			continue
		}
		seen[x] = true
		work = append(work, x.Succs...)
	}
	return false
}

// bd2Sign: an unsigned conversion of a file-size difference is guarded, inside the same loop iteration.
func bd2Sign(p *core.Prog, rep *core.Report) {
	rep.Rule("BD2", "clean EOF: in both chunk readers the unsigned conversion of (fileSize - blockOffset) is dominated, inside the same loop iteration, by a guard that excludes a negative difference (offset >= fileSize exits)")
	// the chunk readers and the unexported helpers of the package they call directly (the block-extent computation is
	// often shared by both readers through one helper; a conversion guarded inside the helper is guarded at every call)
	inDF := func(fn *ssa.Function) bool {
		return fn != nil && fn.Package() != nil && fn.Package().Pkg.Path() == core.ModPath+"/datafile"
	}
	var cands []*ssa.Function
	owner := map[*ssa.Function][]*ssa.Function{} // candidate -> readers it serves
	seenC := map[*ssa.Function]bool{}
	var dfReaders []*ssa.Function
	for _, fn := range chunkReaders(p) {
		if !inDF(fn) {
			continue
		}
		dfReaders = append(dfReaders, fn)
		add := func(c *ssa.Function) {
			owner[c] = append(owner[c], fn)
			if !seenC[c] {
				seenC[c] = true
				cands = append(cands, c)
			}
		}
		add(fn)
		for _, b := range fn.Blocks {
			for _, in := range b.Instrs {
				if ci, ok := in.(ssa.CallInstruction); ok {
					if c := ci.Common().StaticCallee(); inDF(c) && c != fn && !token.IsExported(c.Name()) && c.Blocks != nil {
						add(c)
					}
				}
			}
		}
	}
	perReader := map[*ssa.Function]int{}
	n := 0
	for _, fn := range cands {
		for _, b := range fn.Blocks {
			for _, in := range b.Instrs {
				cv, ok := in.(*ssa.Convert)
				if !ok || !isUnsigned(cv.Type()) || !isSigned(cv.X.Type()) {
					continue
				}
				a, bsub := subOperands(cv.X, 0)
				if a == nil {
					continue
				}
				n++
				for _, r := range owner[fn] {
					perReader[r]++
				}
				guarded := false
				for _, g := range relGuards(p, fn) {
					// relation between g.x and g.y on each edge
					for _, taken := range []bool{true, false} {
						op := g.op
						if taken != g.holdsOn {
							if g.oneSided {
								continue
							}
							op = negateCmp(op)
						}
						nonNeg := (g.x == a && g.y == bsub && (op == token.GEQ || op == token.GTR)) ||
							(g.x == bsub && g.y == a && (op == token.LEQ || op == token.LSS))
						if !nonNeg || !edgeDominates(g.iff, taken, b) {
							continue
						}
						if blockInLoop(b) && !sameSCC(g.iff.Block(), b) {
							continue // guard hoisted out of the loop: later iterations are unguarded
						}
						guarded = true
					}
				}
				rep.Check(guarded, "BD2", "eof-guard:"+core.FuncKey(fn), "the size of the current block is computed only when the block starts inside the file", p.InstrPos(in), "unsigned conversion of (fileSize - offset) without a dominating in-loop guard: at a file that ends before this block the value wraps and the following slice panics", true)
			}
		}
	}
	missing := 0
	for _, r := range dfReaders {
		if perReader[r] == 0 {
			missing++
		}
	}
	if len(dfReaders) < 2 || missing > 0 {
		core.Failf("vacuity guard: BD2 expected the two chunk readers, found %d conversions", n-0)
	}
}

// bd3Crc: payload leaves the decoder only on the checksum-equal edge; READ is followed by the decoder.
func bd3Crc(p *core.Prog, rep *core.Report) {
	rep.Rule("BD3", "CRC on every read path: the chunk decoder returns a payload only on the edge where stored and computed checksum are equal; ReadWriter.Read is invoked only by the chunk readers of package datafile, each of which passes the bytes read to the decoder and builds its result from the decoder's output only")
	d := chunkDecoder(p)
	var eq *ssa.If
	eqTaken := false
	for _, b := range d.Blocks {
		iff, ok := b.Instrs[len(b.Instrs)-1].(*ssa.If)
		if !ok {
			continue
		}
		bo, ok := iff.Cond.(*ssa.BinOp)
		if !ok || (bo.Op != token.EQL && bo.Op != token.NEQ) {
			continue
		}
		isSum := func(v ssa.Value) bool {
			in, ok := core.Unwrap(v).(ssa.Instruction)
			return ok && (calleeIs(in, crcIEEE, crcUpdate))
		}
		isStored := func(v ssa.Value) bool {
			in, ok := core.Unwrap(v).(ssa.Instruction)
			return ok && isLEUint(in, "32")
		}
		if (isSum(bo.X) && isStored(bo.Y)) || (isSum(bo.Y) && isStored(bo.X)) {
			eq = iff
			eqTaken = bo.Op == token.EQL
		}
	}
	if eq == nil {
		rep.Bad("BD3", "crc-compare:"+core.FuncKey(d), "the decoder compares the stored with the computed checksum", p.Pos(d.Pos()), "no comparison between the stored 32-bit sum and the computed CRC")
	} else {
		var bad []string
		n := 0
		for _, r := range core.Returns(d) {
			v := core.ReturnOperand(r, 0)
			if core.IsNilConst(v) {
				continue
			}
			n++
			if !edgeDominates(eq, eqTaken, r.Block()) {
				bad = append(bad, "payload returned at "+p.InstrPos(r)+" without passing the checksum-equal edge")
			}
		}
		if n == 0 {
			bad = append(bad, "decoder never returns a payload")
		}
		rep.Check(len(bad) == 0, "BD3", "crc-gates-payload:"+core.FuncKey(d), "payload is returned only on the checksum-equal edge", p.Pos(d.Pos()), strings.Join(bad, "; "), true)
		// the checksum covers length, type and payload: the CRC input starts right after the stored sum
		for _, b := range d.Blocks {
			for _, in := range b.Instrs {
				if calleeIs(in, crcIEEE) {
					arg := in.(ssa.CallInstruction).Common().Args[0]
					okc := false
					if sl, ok := arg.(*ssa.Slice); ok {
						if lo, ok := constInt(sl.Low); ok && lo == 4 && sl.High != nil {
							if _, isC := constInt(sl.High); !isC {
								okc = true
							}
						}
					}
					rep.Check(okc, "BD3", "crc-coverage:"+core.FuncKey(d), "the verified checksum covers the length, the type and the payload (input[4:end])", p.InstrPos(in), "checksum input is not input[4:end] with a payload-dependent end", true)
				}
			}
		}
	}
	// who may call READ
	readers := chunkReaders(p)
	if len(readers) < 2 {
		core.Failf("vacuity guard: expected >= 2 functions invoking ReadWriter.Read, found %d", len(readers))
	}
	for _, fn := range readers {
		inDF := fn.Package() != nil && fn.Package().Pkg.Path() == core.ModPath+"/datafile"
		if core.RecvNamed(fn) == p.R.MMap || core.RecvNamed(fn) == p.R.FileIO {
			continue
		}
		if !inDF {
			rep.Bad("BD3", "read-caller:"+core.FuncKey(fn), "ReadWriter.Read is invoked only by the chunk readers", p.Pos(fn.Pos()), "raw file bytes are read outside package datafile's chunk readers (bypasses the checksum)")
			continue
		}
		// the bytes read are decoded, and the result is built from decoder output only
		var readBuf ssa.Value
		decoded, pure := false, true
		for _, b := range fn.Blocks {
			for _, in := range b.Instrs {
				ci, ok := in.(ssa.CallInstruction)
				if !ok {
					continue
				}
				if isReadPrimitive(p, ci.Common()) {
					args := ci.Common().Args
					a := args[0]
					if !ci.Common().IsInvoke() && len(args) > 1 {
						a = args[1]
					}
					if sl, ok := a.(*ssa.Slice); ok {
						readBuf = sl.X
					} else {
						readBuf = a
					}
				}
			}
		}
		for _, b := range fn.Blocks {
			for _, in := range b.Instrs {
				c, ok := in.(*ssa.Call)
				if !ok {
					continue
				}
				if c.Common().StaticCallee() == d {
					if sl, ok := c.Common().Args[0].(*ssa.Slice); ok && readBuf != nil && sameOrigin(sl.X, readBuf) {
						decoded = true
					}
				}
				if bi, ok := c.Call.Value.(*ssa.Builtin); ok && bi.Name() == "append" && len(c.Call.Args) == 2 {
					// data appended to the result must be decoder output
					if _, isBytes := c.Type().Underlying().(*types.Slice); isBytes {
						dc, idx := extractOf(c.Call.Args[1])
						if dc == nil || dc.Common().StaticCallee() != d || idx != 0 {
							pure = false
						}
					}
				}
			}
		}
		rep.Check(decoded && pure, "BD3", "read-then-decode:"+core.FuncKey(fn), "the bytes read are handed to the chunk decoder and only its output reaches the caller", p.Pos(fn.Pos()), fmt.Sprintf("decoded=%v result-built-from-decoder-output-only=%v", decoded, pure), true)
	}
}

// bd4Window: the slice handed to the decoder ends where the bytes just read end.
func bd4Window(p *core.Prog, rep *core.Report) {
	rep.Rule("BD4", "decode window: the slice handed to the chunk decoder is bounded above by the same value that bounded the read (bytes just read), not by the capacity of the reused block buffer")
	d := chunkDecoder(p)
	n := 0
	for _, fn := range chunkReaders(p) {
		if fn.Package() == nil || fn.Package().Pkg.Path() != core.ModPath+"/datafile" || core.RecvNamed(fn) == p.R.MMap || core.RecvNamed(fn) == p.R.FileIO {
			continue
		}
		var readHigh ssa.Value
		for _, b := range fn.Blocks {
			for _, in := range b.Instrs {
				if ci, ok := in.(ssa.CallInstruction); ok && isReadPrimitive(p, ci.Common()) {
					a := ci.Common().Args[0]
					if sl, ok := a.(*ssa.Slice); ok {
						readHigh = sl.High
					}
				}
			}
		}
		for _, b := range fn.Blocks {
			for _, in := range b.Instrs {
				c, ok := in.(*ssa.Call)
				if !ok || c.Common().StaticCallee() != d {
					continue
				}
				n++
				okw := false
				if sl, ok := c.Common().Args[0].(*ssa.Slice); ok && sl.High != nil && readHigh != nil && sl.High == readHigh {
					okw = true
				}
				rep.Check(okw, "BD4", "decode-window:"+core.FuncKey(fn), "the decoder sees only the bytes just read", p.InstrPos(in), "decoder argument is not bounded by the size of the read: bytes of a previously read block can be decoded (and pass their CRC) beyond a truncated end", true)
				// BD5: the window is not inverted: low < high is established by a dominating in-loop guard (a position past
				// the end of a short last block - only possible with damaged / truncated files reached through a hint -
				// must be an error, not a slice-bounds panic)
				okl := false
				if sl, ok := c.Common().Args[0].(*ssa.Slice); ok && sl.High != nil {
					if sl.Low == nil {
						okl = true
					}
					for _, gb := range fn.Blocks {
						iff, isIf := gb.Instrs[len(gb.Instrs)-1].(*ssa.If)
						if !isIf || sl.Low == nil {
							continue
						}
						bo, isBo := iff.Cond.(*ssa.BinOp)
						if !isBo {
							continue
						}
						var okTaken, match bool
						switch {
						case sameOrigin(bo.X, sl.Low) && (bo.Y == sl.High || sameOrigin(bo.Y, sl.High)): // low op high
							match = true
							switch bo.Op {
							case token.GEQ, token.GTR:
								okTaken = false
							case token.LSS, token.LEQ:
								okTaken = true
							default:
								match = false
							}
						case sameOrigin(bo.Y, sl.Low) && (bo.X == sl.High || sameOrigin(bo.X, sl.High)): // high op low
							match = true
							switch bo.Op {
							case token.GTR, token.GEQ:
								okTaken = true
							case token.LSS, token.LEQ:
								okTaken = false
							default:
								match = false
							}
						}
						if match && edgeDominates(iff, okTaken, b) && (!blockInLoop(b) || sameSCC(gb, b)) {
							okl = true
						}
					}
				}
				rep.Check(okl, "BD4", "decode-window-not-inverted:"+core.FuncKey(fn), "the start of the decode window lies before its end", p.InstrPos(in), "no dominating in-loop guard establishes offset < size before block[offset:size]: a position beyond a short last block panics with slice bounds out of range", true)
			}
		}
	}
	if n < 2 {
		core.Failf("vacuity guard: BD4 expected 2 decoder calls in the chunk readers, found %d", n)
	}
}

func bd2EOF(p *core.Prog, rep *core.Report) { bd2Sign(p, rep) }

// relGuard: on the edge `holdsOn` of iff the relation (x op y) holds; on the other edge its negation.
type relGuard struct {
	iff      *ssa.If
	x, y     ssa.Value
	op       token.Token
	holdsOn  bool
	oneSided bool // nothing is known on the other edge (helper-derived facts)
}

func negateCmp(op token.Token) token.Token {
	switch op {
	case token.LSS:
		return token.GEQ
	case token.LEQ:
		return token.GTR
	case token.GTR:
		return token.LEQ
	case token.GEQ:
		return token.LSS
	case token.EQL:
		return token.NEQ
	case token.NEQ:
		return token.EQL
	}
	return token.ILLEGAL
}

// relGuards lists the ordering facts the branches of fn establish: direct comparisons, and tests of the error of a
// library helper whose nil returns are all dominated by one comparison of two of its parameters (the comparison then
// holds for the arguments on the caller's nil edge).
func relGuards(p *core.Prog, fn *ssa.Function) []relGuard {
	var out []relGuard
	for _, gb := range fn.Blocks {
		iff, ok := gb.Instrs[len(gb.Instrs)-1].(*ssa.If)
		if !ok {
			continue
		}
		bo, ok := iff.Cond.(*ssa.BinOp)
		if !ok {
			continue
		}
		switch bo.Op {
		case token.LSS, token.LEQ, token.GTR, token.GEQ:
			out = append(out, relGuard{iff, bo.X, bo.Y, bo.Op, true, false})
			continue
		case token.EQL, token.NEQ:
		default:
			continue
		}
		// err ==/!= nil with err the result of a helper
		var ev ssa.Value
		if isNilConst(bo.Y) {
			ev = bo.X
		} else if isNilConst(bo.X) {
			ev = bo.Y
		} else {
			continue
		}
		var call *ssa.Call
		switch t := ev.(type) {
		case *ssa.Call:
			call = t
		case *ssa.Extract:
			call, _ = t.Tuple.(*ssa.Call)
		}
		if call == nil {
			continue
		}
		h := call.Common().StaticCallee()
		if h == nil || !p.InLib(h) || len(h.Blocks) == 0 || len(h.Blocks) > 12 {
			continue
		}
		ei := core.ErrResultIndex(h.Signature)
		if ei < 0 {
			continue
		}
		var nilRets []*ssa.Return
		for _, r := range core.Returns(h) {
			if isNilConst(core.ReturnOperand(r, ei)) {
				nilRets = append(nilRets, r)
			}
		}
		if len(nilRets) == 0 {
			continue
		}
		pidx := func(v ssa.Value) int {
			if c, ok := v.(*ssa.Convert); ok {
				v = c.X
			}
			for i, pp := range h.Params {
				if ssa.Value(pp) == v {
					return i
				}
			}
			return -1
		}
		for _, hb := range h.Blocks {
			hif, ok := hb.Instrs[len(hb.Instrs)-1].(*ssa.If)
			if !ok {
				continue
			}
			hbo, ok := hif.Cond.(*ssa.BinOp)
			if !ok {
				continue
			}
			switch hbo.Op {
			case token.LSS, token.LEQ, token.GTR, token.GEQ:
			default:
				continue
			}
			i, j := pidx(hbo.X), pidx(hbo.Y)
			if i < 0 || j < 0 || i >= len(call.Call.Args) || j >= len(call.Call.Args) {
				continue
			}
			for _, edge := range []bool{true, false} {
				all := true
				for _, r := range nilRets {
					if !edgeDominates(hif, edge, r.Block()) {
						all = false
					}
				}
				if !all {
					continue
				}
				op := hbo.Op
				if !edge {
					op = negateCmp(op)
				}
				// (arg_i op arg_j) holds whenever the helper returned nil: the caller's edge where err == nil
				out = append(out, relGuard{iff, call.Call.Args[i], call.Call.Args[j], op, bo.Op == token.EQL, true})
			}
		}
	}
	return out
}

func isNilConst(v ssa.Value) bool {
	c, ok := v.(*ssa.Const)
	return ok && c.Value == nil
}
