package rules

import (
	"fmt"
	"go/token"
	"go/types"
	"strings"

	"golang.org/x/tools/go/ssa"

	"xkvverif/internal/core"
)

// ---------------------------------------------------------------------------------------------------
// writes-through-receiver summary (DESIGN 2.2 LK7, 3/C10.S4): does a function (transitively) store to
// memory that is not a fresh allocation of its own activation? Computed from SSA for library code and for
// the dependencies the index layer uses (btree, skiplist).
// ---------------------------------------------------------------------------------------------------

type mutSum struct {
	p    *core.Prog
	memo map[*ssa.Function]*mutRes
	prog map[*ssa.Function]bool
}

type mutRes struct {
	mut bool
	why string
}

func newMutSum(p *core.Prog) *mutSum {
	return &mutSum{p: p, memo: map[*ssa.Function]*mutRes{}, prog: map[*ssa.Function]bool{}}
}

// rootKinds: classification of the memory an address/value is rooted at.
// 'A' fresh allocation of this activation, 'P' parameter/receiver, 'F' free variable, 'G' global,
// 'C' result of a call (unknown provenance), 'K' constant/other.
func roots(v ssa.Value, fn *ssa.Function, seen map[ssa.Value]bool, out map[byte][]ssa.Value, depth int) {
	if v == nil || seen[v] || depth > 30 {
		return
	}
	seen[v] = true
	switch u := v.(type) {
	case *ssa.FieldAddr:
		roots(u.X, fn, seen, out, depth+1)
	case *ssa.IndexAddr:
		roots(u.X, fn, seen, out, depth+1)
	case *ssa.Field:
		roots(u.X, fn, seen, out, depth+1)
	case *ssa.Index:
		roots(u.X, fn, seen, out, depth+1)
	case *ssa.Slice:
		roots(u.X, fn, seen, out, depth+1)
	case *ssa.Lookup:
		roots(u.X, fn, seen, out, depth+1)
	case *ssa.Extract:
		roots(u.Tuple, fn, seen, out, depth+1)
	case *ssa.Next:
		roots(u.Iter, fn, seen, out, depth+1)
	case *ssa.Range:
		roots(u.X, fn, seen, out, depth+1)
	case *ssa.Phi:
		for _, e := range u.Edges {
			roots(e, fn, seen, out, depth+1)
		}
	case *ssa.Convert:
		roots(u.X, fn, seen, out, depth+1)
	case *ssa.ChangeType:
		roots(u.X, fn, seen, out, depth+1)
	case *ssa.ChangeInterface:
		roots(u.X, fn, seen, out, depth+1)
	case *ssa.MakeInterface:
		roots(u.X, fn, seen, out, depth+1)
	case *ssa.TypeAssert:
		roots(u.X, fn, seen, out, depth+1)
	case *ssa.UnOp:
		if u.Op == token.MUL {
			if al, ok := u.X.(*ssa.Alloc); ok && al.Parent() == fn {
				// local cell: the loaded value is whatever was stored
				n := 0
				for _, ref := range *al.Referrers() {
					if st, ok := ref.(*ssa.Store); ok && st.Addr == ssa.Value(al) {
						roots(st.Val, fn, seen, out, depth+1)
						n++
					}
				}
				if n == 0 {
					out['A'] = append(out['A'], v)
				}
				return
			}
			// pointer loaded from memory: the pointee is as shared as the memory it was loaded from
			roots(u.X, fn, seen, out, depth+1)
			return
		}
		out['K'] = append(out['K'], v)
	case *ssa.Alloc:
		out['A'] = append(out['A'], v)
	case *ssa.MakeSlice, *ssa.MakeMap, *ssa.MakeChan, *ssa.MakeClosure:
		out['A'] = append(out['A'], v)
	case *ssa.Parameter:
		out['P'] = append(out['P'], v)
	case *ssa.FreeVar:
		out['F'] = append(out['F'], v)
	case *ssa.Global:
		out['G'] = append(out['G'], v)
	case *ssa.Call:
		if b, ok := u.Call.Value.(*ssa.Builtin); ok && b.Name() == "append" {
			// append result shares (or freshly owns) its first argument's array
			roots(u.Call.Args[0], fn, seen, out, depth+1)
			return
		}
		out['C'] = append(out['C'], v)
	default:
		out['K'] = append(out['K'], v)
	}
}

// sharedRoot reports whether v may be rooted in memory that outlives / predates the activation.
func sharedRoot(v ssa.Value, fn *ssa.Function) (bool, string) {
	out := map[byte][]ssa.Value{}
	roots(v, fn, map[ssa.Value]bool{}, out, 0)
	for _, k := range []byte{'P', 'F', 'G', 'C'} {
		if len(out[k]) > 0 {
			return true, fmt.Sprintf("%c:%s", k, out[k][0].Name())
		}
	}
	return false, ""
}

func isPointerLike(t types.Type) bool {
	switch t.Underlying().(type) {
	case *types.Pointer, *types.Slice, *types.Map, *types.Chan, *types.Interface, *types.Signature:
		return true
	}
	return false
}

var pureCallees = map[string]bool{}

// mutates: does fn write to non-fresh memory (directly or through callees)?
func (m *mutSum) mutates(fn *ssa.Function) (bool, string) {
	if r, ok := m.memo[fn]; ok {
		return r.mut, r.why
	}
	if m.prog[fn] {
		return false, "" // cycle: least fixed point
	}
	m.prog[fn] = true
	defer delete(m.prog, fn)
	res := &mutRes{}
	if fn.Blocks == nil {
		// no body: assembly / runtime / intrinsic. sync/atomic writers are mutators; everything else is
		// treated as pure (frozen: bytes.Compare, crc32, memmove-free helpers)
		if pk := fn.Package(); pk != nil && pk.Pkg.Path() == "sync/atomic" && !strings.HasPrefix(fn.Name(), "Load") {
			res.mut, res.why = true, "sync/atomic."+fn.Name()
		}
		m.memo[fn] = res
		return res.mut, res.why
	}
	if pk := fn.Package(); pk != nil {
		switch pk.Pkg.Path() {
		case "sync":
			// mutex / pool traffic is synchronisation, not a data write relevant to a reader lock
			m.memo[fn] = res
			return false, ""
		}
	}
	set := func(why string) {
		if !res.mut {
			res.mut, res.why = true, why
		}
	}
	for _, b := range fn.Blocks {
		if res.mut {
			break
		}
		for _, in := range b.Instrs {
			switch t := in.(type) {
			case *ssa.Store:
				if sh, why := sharedRoot(t.Addr, fn); sh {
					set(fmt.Sprintf("store through %s at %s", why, m.p.InstrPos(in)))
				}
			case *ssa.MapUpdate:
				if sh, why := sharedRoot(t.Map, fn); sh {
					set(fmt.Sprintf("map update through %s at %s", why, m.p.InstrPos(in)))
				}
			case ssa.CallInstruction:
				c := t.Common()
				if bi, ok := c.Value.(*ssa.Builtin); ok {
					switch bi.Name() {
					case "delete", "copy", "clear":
						if sh, why := sharedRoot(c.Args[0], fn); sh {
							set(fmt.Sprintf("builtin %s on %s at %s", bi.Name(), why, m.p.InstrPos(in)))
						}
					}
					continue
				}
				if _, isGo := in.(*ssa.Go); isGo {
					continue
				}
				// which arguments are shared?
				var args []ssa.Value
				if c.IsInvoke() {
					args = append(args, c.Value)
				} else if mc, ok := c.Value.(*ssa.MakeClosure); ok {
					args = append(args, mc.Bindings...)
				}
				args = append(args, c.Args...)
				anyShared := false
				for _, a := range args {
					if !isPointerLike(a.Type()) {
						continue
					}
					if sh, _ := sharedRoot(a, fn); sh {
						anyShared = true
						break
					}
				}
				if !anyShared {
					continue
				}
				for _, callee := range m.p.Callees(t) {
					if mu, why := m.mutates(callee); mu {
						set(fmt.Sprintf("calls %s at %s (%s)", core.FuncKey(callee), m.p.InstrPos(in), why))
						break
					}
				}
			}
			if res.mut {
				break
			}
		}
	}
	m.memo[fn] = res
	return res.mut, res.why
}
