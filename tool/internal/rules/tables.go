package rules

import (
	"fmt"
	"sort"
	"strings"

	"golang.org/x/tools/go/ssa"

	"xkvverif/internal/core"
)

func freshInFn(v ssa.Value, fn *ssa.Function) bool {
	return core.AllOrigins(v, func(o ssa.Value) bool {
		a, ok := o.(*ssa.Alloc)
		return ok && a.Parent() == fn
	})
}

// tb2Positions: a DataPos is written only before it is published (through a pointer fresh in the storing function).
func tb2Positions(p *core.Prog, rep *core.Report) {
	rep.Rule("TB2", "positions are write-once: every store to a DataPos field goes through a pointer allocated by the storing function itself (not yet published); published positions are immutable")
	n := 0
	var bad []string
	for _, fn := range p.LibFuncs() {
		for _, b := range fn.Blocks {
			for _, in := range b.Instrs {
				f, base, _ := core.StoreField(in)
				if f == nil || fieldOwner(p, f) != p.R.DataPos {
					continue
				}
				n++
				if !freshInFn(base, fn) {
					bad = append(bad, fmt.Sprintf("%s stores DataPos.%s through a non-fresh pointer at %s", core.FuncKey(fn), f.Name(), p.InstrPos(in)))
				}
			}
		}
	}
	if n == 0 {
		core.Failf("vacuity guard: TB2 found no store to a DataPos field")
	}
	sort.Strings(bad)
	rep.Check(len(bad) == 0, "TB2", "datapos-write-once", fmt.Sprintf("all %d stores to DataPos fields go through a pointer fresh in the storing function", n), "", strings.Join(bad, "; "), true)
}

// tb2FilesStayOpen: a published position stays resolvable: files leave DB.older only in Close.
func tb2FilesStayOpen(p *core.Prog, rep *core.Report) {
	rep.Rule("TB2b", "a published position is resolvable: entries are removed from the rotated-files map (delete / reassignment of the field) only by Close or while constructing a fresh DB")
	cl := p.MustMethod(p.R.DB, "Close")
	var bad []string
	n := 0
	for _, fn := range p.LibFuncs() {
		for _, b := range fn.Blocks {
			for _, in := range b.Instrs {
				switch t := in.(type) {
				case ssa.CallInstruction:
					if bi, ok := t.Common().Value.(*ssa.Builtin); ok && (bi.Name() == "delete" || bi.Name() == "clear") {
						if f, _ := core.LoadedField(t.Common().Args[0]); f == p.R.DBOlder {
							n++
							if fn != cl {
								bad = append(bad, fmt.Sprintf("%s removes a rotated file from the map at %s", core.FuncKey(fn), p.InstrPos(in)))
							}
						}
					}
				case *ssa.Store:
					if f, base, _ := core.StoreField(in); f == p.R.DBOlder {
						n++
						if fn != cl && !freshInFn(base, fn) {
							bad = append(bad, fmt.Sprintf("%s replaces the rotated-files map at %s", core.FuncKey(fn), p.InstrPos(in)))
						}
					}
				}
			}
		}
	}
	if n == 0 {
		core.Failf("vacuity guard: TB2b found no store to the rotated-files map field")
	}
	rep.Check(len(bad) == 0, "TB2b", "older-files-only-grow", fmt.Sprintf("%d store/delete site(s) on the rotated-files map: all in Close or on a fresh DB", n), "", strings.Join(bad, "; "), false)
}
