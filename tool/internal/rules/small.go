package rules

import (
	"fmt"
	"go/types"
	"strings"

	"golang.org/x/tools/go/ssa"

	"xkvverif/internal/core"
)

// mmapCloseTruncates (C02.S3c): MMap.Close restores the logical size before closing the descriptor.
func mmapCloseTruncates(p *core.Prog, rep *core.Report) {
	rep.Rule("TR1", "mmap files are truncated back to their logical size on Close: on every path of (*MMap).Close the descriptor is closed only after (*os.File).Truncate was called with the field that Size() reports")
	cl := p.MustMethod(p.R.MMap, "Close")
	sz := p.MustMethod(p.R.MMap, "Size")
	var sizeField *types.Var
	for _, r := range core.Returns(sz) {
		if f, _ := core.LoadedField(core.ReturnOperand(r, 0)); f != nil {
			sizeField = f
		}
	}
	if sizeField == nil {
		core.Failf("role unresolved: field returned by (*MMap).Size")
	}
	var bad []string
	nClose := 0
	eng := core.NewEngine(p, core.Hooks{
		Name:   "TR1",
		Follow: func(fn *ssa.Function) bool { return p.InLib(fn) },
		Step: func(x *core.Exec, in ssa.Instruction, a core.AState) ([]core.StepOut, bool) {
			ci, ok := in.(ssa.CallInstruction)
			if !ok {
				return nil, false
			}
			c := ci.Common()
			if core.StaticCalleeIs(c, "(*os.File).Truncate") && len(c.Args) == 2 {
				if f, _ := core.LoadedField(c.Args[1]); f == sizeField {
					return []core.StepOut{{A: "T", Fact: true, Idx: -1, Truth: 0}, {A: a, Fact: true, Idx: -1, Truth: 1}}, true
				}
			}
			if core.StaticCalleeIs(c, osFileClose) {
				nClose++
				if a != "T" {
					bad = append(bad, "descriptor closed at "+p.InstrPos(in)+" without a successful truncation to the logical size")
				}
			}
			return nil, false
		},
	})
	eng.Run(cl, "N", "")
	if nClose == 0 {
		core.Failf("vacuity guard: no (*os.File).Close reachable from (*MMap).Close")
	}
	rep.Check(len(bad) == 0, "TR1", "(*MMap).Close|truncate-before-close", "the file is cut back to its logical size before the descriptor is closed", p.Pos(cl.Pos()), strings.Join(bad, "; "), true)
}

// ps6SealLast (C04.S3): in Commit the staged records are written before the seal, and the seal before every
// success return. States: 0 nothing written, F staged flushed, S sealed.
func ps6SealLast(p *core.Prog, rep *core.Report) {
	R := p.R
	rep.Rule("PS6", "seal ordering: on every path of Batch.Commit the flush of the staged records precedes the write of the record typed BatchFinished, no staged write follows it, and every success return that wrote anything is reached after the seal write succeeded")
	commit := p.MustMethod(R.Batch, "Commit")
	wr := p.Reaches("rw.write", func(site ssa.CallInstruction) bool { return isWritePrimitive(p, site.Common()) })
	v := newVF(p, rep)
	var bad []string
	seals, flushes := 0, 0
	eng := core.NewEngine(p, core.Hooks{
		Name: "PS6",
		Follow: func(fn *ssa.Function) bool {
			if !p.InLib(fn) {
				return false
			}
			n := core.RecvNamed(fn)
			return n != R.DataFile && n != R.ShardedIndex
		},
		Step: func(x *core.Exec, in ssa.Instruction, a core.AState) ([]core.StepOut, bool) {
			ci, ok := in.(ssa.CallInstruction)
			if !ok {
				return nil, false
			}
			if !isSharedActiveWrite(p, wr, ci.Common()) {
				return nil, false
			}
			callee := ci.Common().StaticCallee()
			ei := core.ErrResultIndex(callee.Signature)
			idx := ei
			if callee.Signature.Results().Len() == 1 {
				idx = -1
			}
			rec := v.recordArg(ci.Common())
			if rec != nil && v.storesType(x.Fn, rec, "LogRecordBatchFinished") {
				seals++
				if a != "F" {
					bad = append(bad, fmt.Sprintf("seal written at %s in state %s (before the staged records were flushed)", p.InstrPos(in), a))
				}
				return []core.StepOut{{A: "S", Fact: true, Idx: idx, Truth: 0}, {A: a, Fact: true, Idx: idx, Truth: 1}}, true
			}
			flushes++
			if a == "S" {
				bad = append(bad, "staged records written at "+p.InstrPos(in)+" after the seal")
			}
			return []core.StepOut{{A: "F", Fact: true, Idx: idx, Truth: 0}, {A: a, Fact: true, Idx: idx, Truth: 1}}, true
		},
	})
	for _, e := range eng.Run(commit, "0", "") {
		if e.Cls == core.ClsFailure {
			continue
		}
		if e.A == "F" {
			bad = append(bad, "success return at "+p.InstrPos(e.Ret)+" after the staged records were written but without a successful seal write")
		}
	}
	if seals == 0 || flushes == 0 {
		core.Failf("vacuity guard: PS6 found %d seal writes and %d staged writes in Commit", seals, flushes)
	}
	uniq := map[string]bool{}
	for _, b := range bad {
		uniq[b] = true
	}
	rep.Check(len(bad) == 0, "PS6", "(*Batch).Commit|seal-last", "staged flush, then seal, then success", p.Pos(commit.Pos()), strings.Join(sortedKeys(uniq), "; "), true)
}

// stagedOrder (C05.S4): the staged slice only grows by appending one record or is reset.
func stagedOrder(p *core.Prog, rep *core.Report) {
	R := p.R
	rep.Rule("SO1", "staged order is issue order: every store to the batch's staged slice is an append of one record to the current slice, or a reset to empty/nil")
	n := 0
	var bad []string
	for _, fn := range p.LibFuncs() {
		for _, b := range fn.Blocks {
			for _, in := range b.Instrs {
				f, _, val := core.StoreField(in)
				if f != R.BatchStaged {
					continue
				}
				n++
				ok := core.IsNilConst(val)
				if sl, isSl := val.(*ssa.Slice); isSl && sl.High != nil {
					if k, isC := constInt(sl.High); isC && k == 0 {
						ok = true
					}
				}
				if c, isCall := val.(*ssa.Call); isCall {
					if bi, isB := c.Call.Value.(*ssa.Builtin); isB && bi.Name() == "append" && len(c.Call.Args) == 2 {
						if core.LastField(c.Call.Args[0]) == R.BatchStaged {
							ok = true
						}
					}
				}
				if !ok {
					bad = append(bad, fmt.Sprintf("%s stores the staged slice from something other than append(staged, record) / reset at %s", core.FuncKey(fn), p.InstrPos(in)))
				}
			}
		}
	}
	if n < 2 {
		core.Failf("vacuity guard: SO1 expected >= 2 stores to the staged slice, found %d", n)
	}
	rep.Check(len(bad) == 0, "SO1", "staged-slice-stores", fmt.Sprintf("all %d stores to the staged slice are appends or resets", n), "", strings.Join(bad, "; "), false)
}

// cfg1OptionsImmutable: the scenario constants every path rule relies on (SyncStrategy, BatchOptions.Sync, IndexType ...)
// are constants only if nobody writes them after construction.
func cfg1OptionsImmutable(p *core.Prog, rep *core.Report) {
	rep.Rule("CFG1", "configuration is immutable after construction: a field of Options / BatchOptions is stored only into a private copy (a local allocation, or a parameter that every call site binds to one); the copy held by an open DB / a live Batch is written as a whole and only by a function that returns the owner (constructor)")
	R := p.R
	isCfg := func(n *types.Named) bool { return n == R.Options || n == R.BatchOptions }
	var private func(in *ssa.Function, v ssa.Value, d int) (bool, string)
	private = func(in *ssa.Function, v ssa.Value, d int) (bool, string) {
		path, root := core.FieldPath(v)
		for _, o := range core.Origins(root) {
			switch t := o.(type) {
			case *ssa.Alloc:
				// a local object (the configuration copy itself, or an owner still under construction in this function)
				if t.Parent() != in {
					return false, "the written object was allocated by " + core.FuncKey(t.Parent()) + " and is shared with this function"
				}
			case *ssa.Parameter:
				if len(path) > 0 {
					return false, "the configuration lives inside " + t.Name() + " (" + t.Type().String() + "), a shared object"
				}
				if d > 3 {
					return false, "parameter chain too deep"
				}
				fn := t.Parent()
				idx := -1
				for i, pp := range fn.Params {
					if pp == t {
						idx = i
					}
				}
				sites := libCallSites(p, fn)
				if idx < 0 || len(sites) == 0 {
					return false, "reached through parameter " + t.Name() + " of " + core.FuncKey(fn) + " (no resolvable call site)"
				}
				for _, cs := range sites {
					if idx >= len(cs.Common().Args) {
						return false, "call site arity"
					}
					if ok, why := private(cs.Parent(), cs.Common().Args[idx], d+1); !ok {
						return false, why
					}
				}
			default:
				return false, fmt.Sprintf("the written object is not a private copy (%T in %s)", o, core.FuncKey(rootFn(o)))
			}
		}
		return true, ""
	}
	var bad []string
	n := 0
	for _, fn := range p.LibFuncs() {
		for _, b := range fn.Blocks {
			for _, in := range b.Instrs {
				f, base, _ := core.StoreField(in)
				if f == nil {
					continue
				}
				owner := fieldOwner(p, f)
				switch {
				case owner != nil && isCfg(owner):
					n++
					if ok, why := private(fn, base, 0); !ok {
						bad = append(bad, fmt.Sprintf("%s.%s written in %s at %s: %s", owner.Obj().Name(), f.Name(), core.FuncKey(fn), p.InstrPos(in), why))
					}
				case owner == R.DB || owner == R.Batch:
					if nt, _ := f.Type().(*types.Named); nt != nil && isCfg(nt) {
						n++
						if ok, _ := private(fn, base, 0); ok {
							continue
						}
						ctor := false
						res := fn.Signature.Results()
						for i := 0; i < res.Len(); i++ {
							if pt, ok := res.At(i).Type().(*types.Pointer); ok && pt.Elem() == types.Type(owner) {
								ctor = true
							}
						}
						if !ctor {
							bad = append(bad, fmt.Sprintf("%s.%s replaced in %s at %s, which is not a constructor of %s", owner.Obj().Name(), f.Name(), core.FuncKey(fn), p.InstrPos(in), owner.Obj().Name()))
						}
					}
				}
			}
		}
	}
	if n == 0 {
		rep.Unk("VAC", "CFG1", "no store to a configuration field found (expected at least the constructor stores)", "", "vacuous")
		return
	}
	rep.Check(len(bad) == 0, "CFG1", "options-immutable", fmt.Sprintf("%d stores to configuration fields, all into private copies or by constructors", n), "", strings.Join(sortedStr(bad), "; "), true)
}

func rootFn(v ssa.Value) *ssa.Function {
	if in, ok := v.(ssa.Instruction); ok {
		return in.Parent()
	}
	if pr, ok := v.(*ssa.Parameter); ok {
		return pr.Parent()
	}
	return nil
}
