package rules

import (
	"fmt"
	"go/token"
	"strings"

	"golang.org/x/tools/go/ssa"

	"xkvverif/internal/core"
)

const (
	flockTry    = "(*github.com/gofrs/flock.Flock).TryLock"
	flockUnlock = "(*github.com/gofrs/flock.Flock).Unlock"
	flockLock   = "(*github.com/gofrs/flock.Flock).Lock"
	flockNew    = "github.com/gofrs/flock.New"
)

// fsMutations: FS-MUTATION primitives (DESIGN 1.2).
var fsMutations = map[string]bool{
	"os.Remove": true, "os.RemoveAll": true, "os.Rename": true, "os.WriteFile": true, "os.MkdirAll": true, "os.Mkdir": true,
	"os.OpenFile": true, "os.Create": true, "os.Truncate": true,
	"(*os.File).Truncate": true, "(*os.File).Write": true, "(*os.File).WriteAt": true, "(*os.File).WriteString": true,
}

func fsMutationName(c *ssa.CallCommon) string {
	if f := c.StaticCallee(); f != nil && fsMutations[f.String()] {
		return f.String()
	}
	return ""
}

// C16 / PS4: directory-lock typestate over Open and Close. States: U unlocked, T tried (TryLock returned
// without error, result not yet tested), L locked.
func C16(p *core.Prog, rep *core.Report) {
	rep.Rule("PS4", "directory-lock typestate over Open/Close (path-sensitive, with callee summaries incl. closures and defers): unlocked at every failure return of Open, locked at its success return, every file-system mutation dominated by the held edge, Close unlocks on every return")
	open := p.Func(core.ModPath, "Open")
	if open == nil {
		core.Failf("role unresolved: Open")
	}
	var touched []string
	var tryCalls int
	eng := core.NewEngine(p, core.Hooks{
		Name:   "PS4",
		Follow: func(fn *ssa.Function) bool { return p.InLib(fn) },
		Step: func(x *core.Exec, in ssa.Instruction, a core.AState) ([]core.StepOut, bool) {
			ci, ok := in.(ssa.CallInstruction)
			if !ok {
				return nil, false
			}
			if _, isGo := in.(*ssa.Go); isGo {
				return []core.StepOut{{A: a}}, true
			}
			c := ci.Common()
			switch {
			case core.StaticCalleeIs(c, flockTry):
				tryCalls++
				return []core.StepOut{{A: "T", Fact: true, Idx: 1, Truth: 0}, {A: a, Fact: true, Idx: 1, Truth: 1}}, true
			case core.StaticCalleeIs(c, flockLock):
				x.Report("PS4", "Open|non-blocking-acquire", "directory lock acquired with the blocking Lock: a second opener hangs instead of failing with the directory-in-use error", in)
				return []core.StepOut{{A: "L"}}, true
			case core.StaticCalleeIs(c, flockUnlock):
				return []core.StepOut{{A: "U"}}, true
			}
			if name := fsMutationName(c); name != "" {
				if a != "L" {
					if name == "os.MkdirAll" && x.Fn == open {
						// table row: creating the data directory itself before the lock can exist in it
						return nil, false
					}
					ek := "Open"
					if x.Root().Fn != open {
						ek = core.FuncKey(x.Root().Fn)
					}
					x.Report("PS4", ek+"|touch-under-lock", fmt.Sprintf("%s is reached while the directory lock is not held (state %s): another opener may own the directory", name, lockState(a)), in)
				} else {
					touched = append(touched, name+"@"+p.InstrPos(in))
				}
			}
			return nil, false
		},
		Edge: func(x *core.Exec, iff *ssa.If, taken bool, a core.AState) (core.AState, bool) {
			if a != "T" {
				return a, true
			}
			cond := iff.Cond
			neg := false
			for {
				if u, ok := cond.(*ssa.UnOp); ok && u.Op == token.NOT {
					cond, neg = u.X, !neg
					continue
				}
				break
			}
			if ex, ok := cond.(*ssa.Extract); ok && ex.Index == 0 {
				if call, ok := ex.Tuple.(*ssa.Call); ok && core.StaticCalleeIs(call.Common(), flockTry) {
					held := taken != neg
					if held {
						return "L", true
					}
					return "U", true
				}
			}
			return a, true
		},
	})
	exits := eng.Run(open, "U", "")
	var badFail, badSucc, notInUse []string
	nFail, nSucc := 0, 0
	var failPath, succPath []string
	for _, e := range exits {
		pos := p.InstrPos(e.Ret)
		switch e.Cls {
		case core.ClsFailure:
			nFail++
			if e.A != "U" {
				badFail = append(badFail, fmt.Sprintf("failure return at %s leaves the directory lock in state %s", pos, lockState(e.A)))
				if failPath == nil {
					failPath = e.Trace
				}
			}
		case core.ClsSuccess:
			nSucc++
			if e.A != "L" {
				badSucc = append(badSucc, fmt.Sprintf("success return at %s in state %s", pos, lockState(e.A)))
				succPath = e.Trace
			}
		default:
			// unknown class: must satisfy both requirements, which is impossible; report as undecided
			rep.Unk("PS4", "Open|return-classification", "every return of Open is classified as success or failure", pos, "return whose error operand could not be classified (state "+lockState(e.A)+")")
		}
	}
	if tryCalls == 0 {
		rep.Bad("PS4", "Open|non-blocking-acquire", "Open acquires the directory lock with the non-blocking TryLock", p.Pos(open.Pos()), "no call to flock.TryLock on any path of Open")
	} else {
		rep.OK("PS4", "Open|non-blocking-acquire", "Open acquires the directory lock with the non-blocking TryLock", p.Pos(open.Pos()), false)
	}
	if nFail == 0 || nSucc == 0 {
		core.Failf("vacuity guard: PS4 found %d failure and %d success returns in Open", nFail, nSucc)
	}
	o := rep.Add(core.Obligation{Rule: "PS4", Construct: "Open|failure-returns", What: fmt.Sprintf("the directory lock is released (or was never taken) at each of the %d failure exits of Open", nFail), Status: status(len(badFail) == 0), Pos: p.Pos(open.Pos()), Detail: strings.Join(badFail, "; "), Nontrivial: true})
	o.Path = failPath
	o = rep.Add(core.Obligation{Rule: "PS4", Construct: "Open|success-returns", What: "the directory lock is held at the success return of Open", Status: status(len(badSucc) == 0), Pos: p.Pos(open.Pos()), Detail: strings.Join(badSucc, "; "), Nontrivial: true})
	o.Path = succPath

	// the not-held edge returns the directory-in-use error; the lock object is stored in the returned DB
	inUse, stored := false, false
	// the acquisition may live in an unexported helper of the package that Open calls (`lockDir(dir) (*flock.Flock, error)`)
	lockFns := []*ssa.Function{open}
	for _, b := range core.ReachableBlocks(open) {
		for _, in := range b.Instrs {
			if c, ok := in.(*ssa.Call); ok {
				h := c.Common().StaticCallee()
				if h == nil || h == open || !inRootPkg(h) || token.IsExported(h.Name()) || h.Blocks == nil {
					continue
				}
				tries := false
				for _, hb := range h.Blocks {
					for _, hin := range hb.Instrs {
						if hc, ok := hin.(*ssa.Call); ok && core.StaticCalleeIs(hc.Common(), flockTry) {
							tries = true
						}
					}
				}
				if tries {
					lockFns = append(lockFns, h)
				}
			}
		}
	}
	fromFlockNew := func(o ssa.Value) bool {
		call, ok := o.(*ssa.Call)
		return ok && core.StaticCalleeIs(call.Common(), flockNew)
	}
	helperReturnsNew := func(h *ssa.Function) bool {
		n := 0
		for _, r := range core.Returns(h) {
			v := core.ReturnOperand(r, 0)
			if core.IsNilConst(v) {
				continue
			}
			n++
			if !core.AllOrigins(v, fromFlockNew) {
				return false
			}
		}
		return n > 0
	}
	for _, b := range core.ReachableBlocks(open) {
		for _, in := range b.Instrs {
			if f, _, val := core.StoreField(in); f == p.R.DBFileLock {
				if core.AllOrigins(val, func(o ssa.Value) bool {
					if fromFlockNew(o) {
						return true
					}
					if ex, ok := o.(*ssa.Extract); ok && ex.Index == 0 {
						if call, ok := ex.Tuple.(*ssa.Call); ok {
							for _, h := range lockFns[1:] {
								if call.Common().StaticCallee() == h && helperReturnsNew(h) {
									return true
								}
							}
						}
					}
					return false
				}) {
					stored = true
				}
			}
		}
	}
	var lockReturns []*ssa.Return
	for _, fn := range lockFns {
		lockReturns = append(lockReturns, core.Returns(fn)...)
	}
	for _, r := range lockReturns {
		v := core.ReturnOperand(r, 1)
		if u, ok := v.(*ssa.UnOp); ok && u.Op == token.MUL {
			if g, ok := u.X.(*ssa.Global); ok && g.Name() == "ErrDatabaseIsUsing" {
				// the return must be control dependent on the hold test: its block is the not-held successor
				for _, pb := range r.Block().Preds {
					if iff, ok := pb.Instrs[len(pb.Instrs)-1].(*ssa.If); ok {
						c := iff.Cond
						if u2, ok := c.(*ssa.UnOp); ok && u2.Op == token.NOT {
							c = u2.X
						}
						if ex, ok := c.(*ssa.Extract); ok {
							if call, ok := ex.Tuple.(*ssa.Call); ok && core.StaticCalleeIs(call.Common(), flockTry) {
								inUse = true
							}
						}
					}
				}
			}
		}
	}
	_ = notInUse
	rep.Check(inUse, "PS4", "Open|in-use-error", "the lock-not-acquired edge returns ErrDatabaseIsUsing", p.Pos(open.Pos()), "no return of ErrDatabaseIsUsing controlled by the TryLock result", true)
	rep.Check(stored, "PS4", "Open|lock-stored", "the lock object acquired by Open is stored in the returned DB (so Close can release it)", p.Pos(open.Pos()), "DB's directory-lock field is not initialised from flock.New in Open", false)
	for _, f := range eng.Findings {
		ob := rep.Bad(f.Rule, f.Construct, f.Msg, f.Pos, f.Msg)
		ob.Path, ob.Stack = f.Trace, f.Stack
	}
	eng.Findings = nil
	if len(touched) == 0 {
		core.Failf("vacuity guard: PS4 saw no file-system mutation under the lock in Open")
	}
	hasTouchBad := false
	for _, ob := range rep.Obls {
		if ob.Construct == "Open|touch-under-lock" {
			hasTouchBad = true
		}
	}
	if !hasTouchBad {
		rep.OK("PS4", "Open|touch-under-lock", fmt.Sprintf("every file-system mutation reachable in Open (%d call paths) happens while the lock is held", len(touched)), p.Pos(open.Pos()), true)
	}
	rep.Tables = append(rep.Tables, "os.MkdirAll(options.DirPath) directly in Open precedes the lock: it creates the directory the lock file lives in; idempotent, creates no content")

	// Close releases on every return
	cl := p.MustMethod(p.R.DB, "Close")
	exits = eng.Run(cl, "L", "")
	var bad []string
	for _, e := range exits {
		if e.A != "U" {
			bad = append(bad, fmt.Sprintf("%s at %s in state %s", e.Cls, p.InstrPos(e.Ret), lockState(e.A)))
		}
	}
	if len(exits) == 0 {
		core.Failf("vacuity guard: no return found in (*DB).Close")
	}
	rep.Check(len(bad) == 0, "PS4", "(*DB).Close|all-returns", fmt.Sprintf("Close releases the directory lock on each of its %d exits", len(exits)), p.Pos(cl.Pos()), strings.Join(bad, "; "), true)
	closeTouch := false
	for _, f := range eng.Findings {
		ob := rep.Bad(f.Rule, f.Construct, f.Msg, f.Pos, f.Msg)
		ob.Path, ob.Stack = f.Trace, f.Stack
		if strings.Contains(f.Construct, "touch-under-lock") {
			closeTouch = true
		}
	}
	if !closeTouch {
		rep.OK("PS4", core.FuncKey(cl)+"|touch-under-lock", "Close performs no file-system mutation after it released the directory lock (the lock file itself is never removed: every opener must lock the same inode)", p.Pos(cl.Pos()), true)
	}
	// every other public entry point keeps the lock: entered locked, it returns locked on every path
	var leak []string
	nE := 0
	for _, fn := range publicEntries(p) {
		if fn == cl {
			continue
		}
		nE++
		for _, e := range eng.Run(fn, "L", "") {
			if e.A != "L" {
				leak = append(leak, fmt.Sprintf("%s returns at %s with the directory lock %s", core.FuncKey(fn), p.InstrPos(e.Ret), lockState(e.A)))
			}
		}
	}
	for _, f := range eng.Findings {
		if !strings.Contains(f.Construct, "touch-under-lock") {
			ob := rep.Bad(f.Rule, f.Construct, f.Msg, f.Pos, f.Msg)
			ob.Path, ob.Stack = f.Trace, f.Stack
		}
	}
	eng.Findings = nil
	rep.Check(len(leak) == 0, "PS4", "lock-survives-api", fmt.Sprintf("none of the %d other public entry points (Put ... Merge, Backup, batches) releases the directory lock of the open database", nE), "", strings.Join(sortedStr(leak), "; ")+" - a second Open then succeeds while the first database is still open", true)
	rep.Stats["activations"] = eng.Activations
	rep.Stats["path_states"] = eng.StatesSeen
	rep.Assumptions = append(rep.Assumptions,
		"flock(2) semantics behind gofrs/flock.TryLock: exclusive, non-blocking, per open file description (a second Flock in the same process also fails)",
		"panicking paths are not exits (Close panics if Unlock fails)")
	rep.NotCovered = append(rep.NotCovered, "races between processes; what the OS does with the lock file", "that a rejected Open leaves bytes unchanged beyond 'no FS-MUTATION primitive is reachable before the lock is held'")
}

func lockState(a string) string {
	return map[string]string{"U": "unlocked", "T": "TryLock-returned-untested", "L": "LOCKED"}[a]
}

func status(ok bool) string {
	if ok {
		return core.Discharged
	}
	return core.Violated
}
