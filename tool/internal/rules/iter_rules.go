package rules

import (
	"fmt"
	"go/constant"
	"go/token"
	"go/types"
	"sort"
	"strings"

	"golang.org/x/tools/go/ssa"

	"xkvverif/internal/core"
)

// itemType: the struct of package index that pairs a key with a position (element of snapshot slices / tree items).
func itemType(p *core.Prog) *types.Named {
	sc := p.Pkg(core.ModPath + "/index").Pkg.Scope()
	var found *types.Named
	for _, name := range sc.Names() {
		tn, ok := sc.Lookup(name).(*types.TypeName)
		if !ok || tn.IsAlias() {
			continue
		}
		n, ok := tn.Type().(*types.Named)
		if !ok {
			continue
		}
		st, ok := n.Underlying().(*types.Struct)
		if !ok || st.NumFields() != 2 {
			continue
		}
		hasKey, hasPos := false, false
		for i := 0; i < 2; i++ {
			if core.TypeIs(st.Field(i).Type(), "[]byte") {
				hasKey = true
			}
			if core.TypeIs(st.Field(i).Type(), "*"+core.ModPath+"/datafile.DataPos") {
				hasPos = true
			}
		}
		if hasKey && hasPos {
			found = n
		}
	}
	if found == nil {
		core.Failf("role unresolved: index item type (key + position)")
	}
	return found
}

func structHasField(n *types.Named, f *types.Var) bool {
	st, ok := n.Underlying().(*types.Struct)
	if !ok {
		return false
	}
	for i := 0; i < st.NumFields(); i++ {
		if st.Field(i) == f {
			return true
		}
	}
	return false
}

// tb2cItems: index items are immutable once created (they are shared between the live container and snapshots).
func tb2cItems(p *core.Prog, rep *core.Report) {
	it := itemType(p)
	rep.Rule("TB2c", "snapshot items are immutable: every store to a field of the index item type (key, position) goes through a pointer allocated by the storing function; items shared between the live container and iterator snapshots (B-tree clone shares item pointers) are never updated in place")
	n := 0
	var bad []string
	for _, fn := range p.LibFuncs() {
		for _, b := range fn.Blocks {
			for _, in := range b.Instrs {
				f, base, _ := core.StoreField(in)
				if f == nil || !structHasField(it, f) {
					continue
				}
				n++
				if !freshInFn(base, fn) {
					bad = append(bad, fmt.Sprintf("%s updates %s.%s of an existing item in place at %s: iterators created earlier see the new value", core.FuncKey(fn), it.Obj().Name(), f.Name(), p.InstrPos(in)))
				}
			}
		}
	}
	if n < 3 {
		core.Failf("vacuity guard: TB2c expected >= 3 item constructions, found %d", n)
	}
	rep.Check(len(bad) == 0, "TB2c", "index-items-immutable", fmt.Sprintf("all %d stores to item fields construct a fresh item", n), "", strings.Join(bad, "; "), true)
}

// tb5Snapshots: the per-shard iterator types own their data.
func tb5Snapshots(p *core.Prog, rep *core.Report) {
	rep.Rule("TB5", "snapshots own their data: in every constructor of a shard-iterator type, each container-typed field (slice, map, tree pointer) is initialised from an allocation of the constructor itself or from the result of a Clone call - never from the live container; constructors are reachable only through ShardedIndex.Iterator, which holds the shard lock (LK7)")
	impls := p.R.Impls(p.R.IterIface)
	if len(impls) < 3 {
		core.Failf("vacuity guard: expected 3 shard-iterator implementations, found %d", len(impls))
	}
	item := itemType(p)
	for _, im := range impls {
		n := 0
		var bad []string
		for _, fn := range p.LibFuncs() {
			for _, b := range fn.Blocks {
				for _, in := range b.Instrs {
					f, base, val := core.StoreField(in)
					if f == nil || !structHasField(im, f) || !freshInFn(base, fn) {
						continue
					}
					switch ft := f.Type().Underlying().(type) {
					case *types.Slice, *types.Map:
					case *types.Pointer:
						if n2, ok := ft.Elem().(*types.Named); ok && n2 == item {
							continue // pointer to an immutable item (TB2c)
						}
					default:
						continue
					}
					n++
					var origins []ssa.Value
					for _, o := range core.Origins(val) {
						// make([]T, const) lowers to a slice of a fresh array
						for {
							sl, ok := o.(*ssa.Slice)
							if !ok {
								break
							}
							os2 := core.Origins(sl.X)
							if len(os2) != 1 {
								break
							}
							o = os2[0]
						}
						origins = append(origins, o)
					}
					for _, o := range origins {
						switch t := o.(type) {
						case *ssa.MakeSlice, *ssa.MakeMap, *ssa.Alloc:
						case *ssa.Const:
						case *ssa.Call:
							if c := t.Common().StaticCallee(); c == nil || !strings.HasSuffix(c.Name(), "Clone") {
								bad = append(bad, fmt.Sprintf("%s.%s initialised from %s at %s", im.Obj().Name(), f.Name(), core.CalleeName(t.Common()), p.InstrPos(in)))
							}
						default:
							bad = append(bad, fmt.Sprintf("%s.%s holds a reference to live data (%s) at %s: later writes disturb the iterator", im.Obj().Name(), f.Name(), o.Name(), p.InstrPos(in)))
						}
					}
				}
			}
		}
		if n == 0 {
			core.Failf("vacuity guard: TB5 found no container field initialisation for %s", im.Obj().Name())
		}
		rep.Check(len(bad) == 0, "TB5", "snapshot-owns-data:"+im.Obj().Name(), "the iterator's containers are private copies", "", strings.Join(bad, "; "), true)
	}
}

// s4Parity: valid/key/value of every shard iterator do not write (the heap may call them in any order).
func iterReadOnlyParity(p *core.Prog, rep *core.Report) {
	rep.Rule("TB5b", "sibling surface parity: the observer methods (no parameters, one result) of all shard-iterator implementations have an empty writes-through-receiver summary")
	ms := newMutSum(p)
	impls := p.R.Impls(p.R.IterIface)
	it := p.R.IterIface.Underlying().(*types.Interface)
	for i := 0; i < it.NumMethods(); i++ {
		m := it.Method(i)
		sig := m.Type().(*types.Signature)
		if sig.Params().Len() != 0 || sig.Results().Len() != 1 {
			continue
		}
		var bad []string
		for _, im := range impls {
			fn := p.MustMethod(im, m.Name())
			if mu, why := ms.mutates(fn); mu {
				bad = append(bad, core.FuncKey(fn)+": "+why)
			}
		}
		rep.Check(len(bad) == 0, "TB5b", "observer-pure:"+m.Name(), "observers of all implementations are read-only", "", strings.Join(bad, "; "), true)
	}
}

// hp1Heap: the merged iterator re-establishes heap order after moving shard cursors.
// States: C consistent, D dirty (a cursor in the heap moved), P an item is outside the heap.
func hp1Heap(p *core.Prog, rep *core.Report) {
	rep.Rule("HP1", "heap order: in every method of the merged index iterator, after a shard cursor that is still inside the heap was moved (rewind / seek / next on a shard iterator) container/heap.Init|Fix|Push is called before the method returns; a popped item may be moved freely")
	iterIface := p.R.IterIface
	n := 0
	ms := p.SSA.MethodSets.MethodSet(types.NewPointer(p.R.IndexIterator))
	for i := 0; i < ms.Len(); i++ {
		fn := p.SSA.MethodValue(ms.At(i))
		if fn == nil || fn.Blocks == nil {
			continue
		}
		moves := 0
		eng := core.NewEngine(p, core.Hooks{
			Name:   "HP1",
			Follow: func(f *ssa.Function) bool { return false },
			Edge: func(x *core.Exec, iff *ssa.If, taken bool, a core.AState) (core.AState, bool) {
				// a heap of at most one item is trivially ordered: the edge of a length test that implies
				// "<= 1 item" re-establishes consistency
				bo, ok := iff.Cond.(*ssa.BinOp)
				if !ok || a != "D" {
					return a, true
				}
				isLen := func(v ssa.Value) bool {
					if lenOf(v) != nil {
						return true
					}
					c, ok := v.(*ssa.Call)
					return ok && c.Common().StaticCallee() != nil && c.Common().StaticCallee().Name() == "Len"
				}
				k, isK := constInt(bo.Y)
				if !isLen(bo.X) || !isK {
					return a, true
				}
				small := false
				switch bo.Op {
				case token.GTR: // len > k : false edge => len <= k
					small = !taken && k <= 1
				case token.GEQ:
					small = !taken && k <= 2
				case token.LSS:
					small = taken && k <= 2
				case token.LEQ:
					small = taken && k <= 1
				}
				if small {
					return "C", true
				}
				return a, true
			},
			Step: func(x *core.Exec, in ssa.Instruction, a core.AState) ([]core.StepOut, bool) {
				ci, ok := in.(ssa.CallInstruction)
				if !ok {
					return nil, false
				}
				c := ci.Common()
				if c.IsInvoke() {
					if nn, ok := c.Value.Type().(*types.Named); ok && nn == iterIface {
						sig := c.Method.Type().(*types.Signature)
						if sig.Results().Len() == 0 && c.Method.Name() != "close" {
							moves++
							if a == "C" {
								return []core.StepOut{{A: "D"}}, true
							}
						}
					}
					return nil, false
				}
				if f := c.StaticCallee(); f != nil && f.Package() != nil && f.Package().Pkg.Path() == "container/heap" {
					switch f.Name() {
					case "Init", "Fix":
						return []core.StepOut{{A: "C"}}, true
					case "Push":
						return []core.StepOut{{A: "C"}}, true
					case "Pop", "Remove":
						if a == "C" {
							return []core.StepOut{{A: "P"}}, true
						}
					}
				}
				return nil, false
			},
		})
		var bad []string
		for _, e := range eng.Run(fn, "C", "") {
			if e.A == "D" {
				bad = append(bad, "return at "+p.InstrPos(e.Ret)+" with shard cursors moved but the heap not re-initialised: keys come out of order whenever more than one shard is populated")
			}
		}
		if moves == 0 {
			continue
		}
		n++
		rep.Check(len(bad) == 0, "HP1", "heap-order:"+core.FuncKey(fn), "heap order is re-established on every path", p.Pos(fn.Pos()), strings.Join(sortedStr(bad), "; "), true)
	}
	if n < 3 {
		core.Failf("vacuity guard: HP1 expected >= 3 cursor-moving methods (Rewind, Seek, Next), found %d", n)
	}
}

// tb3Dispatch: dispatchers over configuration enums cover every declared constant.
func tb3Dispatch(p *core.Prog, rep *core.Report) {
	rep.Rule("TB3", "dispatch exhaustiveness: the index-implementation dispatcher and the I/O back-end dispatcher compare their selector with every declared constant of the enum (IndexType, FileIOType)")
	check := func(fn *ssa.Function, pkg, typ string) {
		if fn == nil {
			core.Failf("role unresolved: dispatcher for %s", typ)
		}
		decl := map[int64]string{}
		for n, v := range p.ConstsOf(pkg, typ) {
			i, _ := constant.Int64Val(v)
			decl[i] = n
		}
		seen := map[int64]bool{}
		for _, b := range fn.Blocks {
			for _, in := range b.Instrs {
				bo, ok := in.(*ssa.BinOp)
				if !ok || bo.Op != token.EQL {
					continue
				}
				if _, isParam := bo.X.(*ssa.Parameter); !isParam {
					continue
				}
				if k, ok := constInt(bo.Y); ok {
					seen[k] = true
				}
			}
		}
		var miss []string
		for k, n := range decl {
			if !seen[k] {
				miss = append(miss, n)
			}
		}
		sort.Strings(miss)
		rep.Check(len(miss) == 0, "TB3", "dispatch:"+core.FuncKey(fn), fmt.Sprintf("all %d declared %s constants are dispatched", len(decl), typ), p.Pos(fn.Pos()), "no case for: "+strings.Join(miss, ", "), false)
	}
	// index dispatcher: function of package index returning the container interface with one selector parameter
	var idxDisp *ssa.Function
	for _, fn := range p.LibFuncs() {
		if fn.Package() == nil || fn.Package().Pkg.Path() != core.ModPath+"/index" || fn.Signature.Recv() != nil {
			continue
		}
		if fn.Signature.Params().Len() == 1 && fn.Signature.Results().Len() == 1 {
			if n, ok := fn.Signature.Results().At(0).Type().(*types.Named); ok && n == p.R.IndexIface {
				idxDisp = fn
			}
		}
	}
	check(idxDisp, core.ModPath+"/index", "IndexType")
	check(p.Func(core.ModPath+"/fio", "NewReadWriter"), core.ModPath+"/fio", "FileIOType")
}

// cfgTaint: IndexType / ShardNum / FileIOType reach behaviour only through the dispatchers.
func cfgTaint(p *core.Prog, rep *core.Report) {
	R := p.R
	rep.Rule("CF1", "configuration reaches results only through the dispatchers: loads of Options.IndexType / ShardNum / FileIOType are used only as arguments of the index / file constructors (and, for the I/O type, the MMap-only size reset in Backup - table row); no other branch of the library tests them")
	n := 0
	var bad []string
	for _, fn := range p.LibFuncs() {
		for _, b := range fn.Blocks {
			for _, in := range b.Instrs {
				u, ok := in.(*ssa.UnOp)
				if !ok {
					continue
				}
				f, _ := core.LoadedField(u)
				if f != R.OptIndexType && f != R.OptShardNum && f != R.OptIOType {
					continue
				}
				n++
				for _, ref := range *u.Referrers() {
					switch r := ref.(type) {
					case ssa.CallInstruction:
						c := r.Common().StaticCallee()
						if c == nil || !(c.Name() == "NewShardedIndex" || c.Name() == "OpenFile" || c.Name() == "NewReadWriter") {
							bad = append(bad, fmt.Sprintf("%s passes Options.%s to %s at %s", core.FuncKey(fn), f.Name(), core.CalleeName(r.Common()), p.InstrPos(r)))
						}
					case *ssa.BinOp:
						if fn.Name() == "Backup" && core.RecvNamed(fn) == R.DB && f == R.OptIOType {
							continue // table row
						}
						bad = append(bad, fmt.Sprintf("%s branches on Options.%s at %s: behaviour becomes configuration dependent outside the dispatchers", core.FuncKey(fn), f.Name(), p.InstrPos(r)))
					case *ssa.Store:
						// copying the options struct field-wise
					default:
						bad = append(bad, fmt.Sprintf("%s uses Options.%s in %T at %s", core.FuncKey(fn), f.Name(), ref, p.InstrPos(ref)))
					}
				}
			}
		}
	}
	if n < 4 {
		core.Failf("vacuity guard: CF1 expected >= 4 loads of the dispatch options, found %d", n)
	}
	rep.Tables = append(rep.Tables, "(*DB).Backup tests Options.FileIOType == MemoryMap to shrink mmap files before copying (C20)")
	rep.Check(len(bad) == 0, "CF1", "config-only-through-dispatchers", fmt.Sprintf("all %d loads of IndexType/ShardNum/FileIOType flow into constructors only", n), "", strings.Join(bad, "; "), true)
}

// hp2Conservation: the merged iterator owns one cursor per shard for its whole life. Methods move cursors between two
// containers (the heap and the parked list of exhausted cursors). A cursor that is taken out of a container - popped
// from the heap, or read from a container field that the method then replaces - and put into neither is lost: the next
// Rewind / Seek no longer visits that shard and the enumeration is silently incomplete.
func hp2Conservation(p *core.Prog, rep *core.Report) {
	rep.Rule("HP2", "cursor conservation: in every method of the merged index iterator (except the one that closes the cursors), a shard cursor popped from the heap, or read in a loop from a container field the method replaces, is put back on every path - heap.Push, or append into a slice that is stored to a field - before the method returns / the loop moves to the next element")
	iterIface := p.R.IterIface
	isCursor := func(t types.Type) bool {
		n, ok := t.(*types.Named)
		return ok && n == iterIface
	}
	ms := p.SSA.MethodSets.MethodSet(types.NewPointer(p.R.IndexIterator))
	nSrc := 0
	for i := 0; i < ms.Len(); i++ {
		fn := p.SSA.MethodValue(ms.At(i))
		if fn == nil || fn.Blocks == nil {
			continue
		}
		closes := false
		replaced := map[*types.Var]bool{} // container fields stored with something that is not an append to themselves
		for _, b := range fn.Blocks {
			for _, in := range b.Instrs {
				if ci, ok := in.(ssa.CallInstruction); ok {
					c := ci.Common()
					if c.IsInvoke() && isCursor(c.Value.Type()) && c.Method.Name() == "close" {
						closes = true
					}
				}
				if f, _, val := core.StoreField(in); f != nil {
					if sl, ok := f.Type().Underlying().(*types.Slice); ok && isCursor(sl.Elem()) {
						selfAppend := false
						if c, ok := val.(*ssa.Call); ok {
							if bi, ok := c.Call.Value.(*ssa.Builtin); ok && bi.Name() == "append" && len(c.Call.Args) > 0 {
								if core.LastField(c.Call.Args[0]) == f {
									selfAppend = true
								}
							}
						}
						if !selfAppend {
							replaced[f] = true
						}
					}
				}
			}
		}
		if closes {
			continue
		}
		// flowsToField: the slice value reaches a store into a struct field (through phis)
		var flowsToField func(v ssa.Value, seen map[ssa.Value]bool) bool
		flowsToField = func(v ssa.Value, seen map[ssa.Value]bool) bool {
			if seen[v] {
				return false
			}
			seen[v] = true
			for _, r := range *v.Referrers() {
				switch t := r.(type) {
				case *ssa.Store:
					if t.Val == v {
						if f, _ := core.FieldOfAddr(t.Addr); f != nil {
							return true
						}
					}
				case *ssa.Phi:
					if flowsToField(t, seen) {
						return true
					}
				case *ssa.Call:
					// append(v, ...) keeps the elements of v
					if bi, ok := t.Call.Value.(*ssa.Builtin); ok && bi.Name() == "append" && len(t.Call.Args) > 0 && t.Call.Args[0] == v {
						if flowsToField(t, seen) {
							return true
						}
					}
				case *ssa.Slice:
					if flowsToField(t, seen) {
						return true
					}
				}
			}
			return false
		}
		// absorbing instructions for cursor value v
		absorbs := func(v ssa.Value) map[*ssa.BasicBlock]int {
			out := map[*ssa.BasicBlock]int{}
			vals := []ssa.Value{v}
			for k := 0; k < len(vals); k++ {
				for _, r := range *vals[k].Referrers() {
					switch t := r.(type) {
					case *ssa.MakeInterface:
						vals = append(vals, t)
					case *ssa.ChangeInterface:
						vals = append(vals, t)
					case *ssa.Call:
						if f := t.Common().StaticCallee(); f != nil && f.Package() != nil && f.Package().Pkg.Path() == "container/heap" && f.Name() == "Push" {
							out[t.Block()] = indexIn(t)
						}
					case *ssa.Store:
						// element of a varargs array handed to append whose result is kept in a field
						ia, ok := t.Addr.(*ssa.IndexAddr)
						if !ok || t.Val != vals[k] {
							continue
						}
						al, ok := ia.X.(*ssa.Alloc)
						if !ok {
							continue
						}
						for _, ar := range *al.Referrers() {
							sl, ok := ar.(*ssa.Slice)
							if !ok {
								continue
							}
							for _, sr := range *sl.Referrers() {
								c, ok := sr.(*ssa.Call)
								if !ok {
									continue
								}
								if bi, ok := c.Call.Value.(*ssa.Builtin); ok && bi.Name() == "append" && flowsToField(c, map[ssa.Value]bool{}) {
									out[c.Block()] = indexIn(c)
								}
							}
						}
					}
				}
			}
			return out
		}
		type source struct {
			v    ssa.Value
			at   ssa.Instruction
			loop bool
			what string
		}
		var srcs []source
		for _, b := range fn.Blocks {
			for _, in := range b.Instrs {
				switch t := in.(type) {
				case *ssa.TypeAssert:
					if !isCursor(t.AssertedType) {
						continue
					}
					if c, ok := t.X.(*ssa.Call); ok {
						if f := c.Common().StaticCallee(); f != nil && f.Package() != nil && f.Package().Pkg.Path() == "container/heap" && (f.Name() == "Pop" || f.Name() == "Remove") {
							srcs = append(srcs, source{t, t, false, "cursor popped from the heap"})
						}
					}
				case *ssa.UnOp:
					if t.Op != token.MUL || !isCursor(t.Type()) {
						continue
					}
					ia, ok := t.X.(*ssa.IndexAddr)
					if !ok {
						continue
					}
					for _, o := range core.Origins(ia.X) {
						if f, _ := core.LoadedField(o); f != nil && replaced[f] {
							srcs = append(srcs, source{t, t, true, "cursor read from " + f.Name() + ", which this method replaces"})
						} else if s, ok := o.(*ssa.Slice); ok {
							if f, _ := core.LoadedField(s.X); f != nil && replaced[f] {
								srcs = append(srcs, source{t, t, true, "cursor read from " + f.Name() + ", which this method replaces"})
							}
						}
					}
				}
			}
		}
		for _, s := range srcs {
			nSrc++
			abs := absorbs(s.v)
			def := s.at.Block()
			lost := ""
			if _, ok := abs[def]; !ok || abs[def] < indexIn(s.at) {
				seen := map[*ssa.BasicBlock]bool{}
				var dfs func(b *ssa.BasicBlock)
				dfs = func(b *ssa.BasicBlock) {
					if lost != "" {
						return
					}
					for _, su := range b.Succs {
						if s.loop && (su == def || su.Dominates(def)) {
							lost = "the loop moves on at " + p.InstrPos(b.Instrs[len(b.Instrs)-1])
							return
						}
						if seen[su] {
							continue
						}
						seen[su] = true
						if _, ok := abs[su]; ok {
							continue
						}
						if r, ok := su.Instrs[len(su.Instrs)-1].(*ssa.Return); ok {
							lost = "the method returns at " + p.InstrPos(r)
							return
						}
						dfs(su)
					}
				}
				dfs(def)
			}
			rep.Check(lost == "", "HP2", fmt.Sprintf("cursor-conserved:%s@%s", core.FuncKey(fn), s.what), "a shard cursor taken out of a container is put back on every path", p.InstrPos(s.at), s.what+" is in neither container when "+lost+": the next Rewind / Seek skips that shard", true)
		}
	}
	if nSrc < 1 {
		rep.Unk("VAC", "HP2", "expected >= 1 cursor source (Next's pop, Seek's and Rewind's loops)", "", fmt.Sprintf("found %d", nSrc))
	}
}

func indexIn(in ssa.Instruction) int {
	for i, x := range in.Block().Instrs {
		if x == in {
			return i
		}
	}
	return -1
}

// sizeLimitField resolves the role "data-file size limit": the Options field compared with a value derived from
// (*DataFile).Size() in the write path.
func sizeLimitField(p *core.Prog) *types.Var {
	szFn := p.MustMethod(p.R.DataFile, "Size")
	var fromSize func(v ssa.Value, d int) bool
	fromSize = func(v ssa.Value, d int) bool {
		if d > 6 {
			return false
		}
		switch t := v.(type) {
		case *ssa.Call:
			return t.Common().StaticCallee() == szFn
		case *ssa.BinOp:
			return fromSize(t.X, d+1) || fromSize(t.Y, d+1)
		case *ssa.Convert:
			return fromSize(t.X, d+1)
		}
		return false
	}
	var found *types.Var
	for _, fn := range p.LibFuncs() {
		for _, b := range fn.Blocks {
			for _, in := range b.Instrs {
				bo, ok := in.(*ssa.BinOp)
				if !ok {
					continue
				}
				switch bo.Op {
				case token.GTR, token.GEQ, token.LSS, token.LEQ:
				default:
					continue
				}
				for _, pr := range [][2]ssa.Value{{bo.X, bo.Y}, {bo.Y, bo.X}} {
					if f := core.LastField(core.Unwrap(pr[0])); f != nil && fieldOwner(p, f) == p.R.Options && fromSize(pr[1], 0) {
						if found != nil && found != f {
							core.Failf("role ambiguous: data-file size limit (%s, %s)", found.Name(), f.Name())
						}
						found = f
					}
				}
			}
		}
	}
	if found == nil {
		core.Failf("role unresolved: Options field compared with (*DataFile).Size()")
	}
	return found
}

// cf2RecoveryIgnoresLimit: a directory must reopen to the same mapping whichever size limit it is reopened with. The
// limit therefore has no business in the code that only Open runs (file discovery, choice of the active file, replay,
// hint loading, adoption) beyond validating the option itself.
func cf2RecoveryIgnoresLimit(p *core.Prog, rep *core.Report) {
	rep.Rule("CF2", "recovery is independent of the size limit: in functions reachable from Open and from no other public entry point, a load of the size-limit option is used only in comparisons with constants (option validation); it is never compared with a file size, passed on or stored")
	limit := sizeLimitField(p)
	open := p.Func(core.ModPath, "Open")
	fromOpen := p.ReachableFrom([]*ssa.Function{open}, p.InLib)
	fromOthers := p.ReachableFrom(publicEntries(p), p.InLib)
	var bad []string
	nScope, nLoads := 0, 0
	for fn := range fromOpen {
		if fromOthers[fn] {
			continue
		}
		nScope++
		for _, b := range fn.Blocks {
			for _, in := range b.Instrs {
				u, ok := in.(*ssa.UnOp)
				if !ok {
					continue
				}
				if f, _ := core.LoadedField(u); f != limit {
					continue
				}
				nLoads++
				for _, ref := range *u.Referrers() {
					okUse := false
					if bo, ok := ref.(*ssa.BinOp); ok {
						other := bo.X
						if other == ssa.Value(u) {
							other = bo.Y
						}
						if _, isC := constInt(other); isC {
							okUse = true
						}
					}
					if _, ok := ref.(*ssa.DebugRef); ok {
						okUse = true
					}
					if !okUse {
						bad = append(bad, fmt.Sprintf("%s uses Options.%s at %s for something other than validating it: what Open reconstructs then depends on the limit the directory is reopened with", core.FuncKey(fn), limit.Name(), p.InstrPos(ref.(ssa.Instruction))))
					}
				}
			}
		}
	}
	if nScope < 1 {
		rep.Unk("VAC", "CF2", "expected >= 3 Open-only functions", "", fmt.Sprintf("found %d", nScope))
		return
	}
	rep.Check(len(bad) == 0, "CF2", "open-ignores-size-limit", fmt.Sprintf("%d Open-only functions, %d loads of Options.%s, all validation", nScope, nLoads, limit.Name()), p.Pos(open.Pos()), strings.Join(sortedStr(bad), "; "), true)
}
