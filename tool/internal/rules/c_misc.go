package rules

import (
	"fmt"
	"go/constant"
	"go/token"
	"go/types"
	"sort"
	"strings"

	"golang.org/x/tools/go/ssa"

	"xkvverif/internal/core"
)

// tb1Owners: FS-MUTATION primitives are called only by their owners (roles, not helper names).
func tb1Owners(p *core.Prog, rep *core.Report) {
	rep.Rule("TB1", "append-only ownership: file-system mutation primitives (remove, rename, truncate, create/open-for-write, write) are called only by package fio, Open, Merge, the merge-adoption function and utils.CopyDir; data files are opened without O_TRUNC and, for standard I/O, with O_APPEND; (*os.File).Truncate is called only by MMap's size management")
	m := newMergeCtx(p, rep)
	var owner func(fn *ssa.Function, depth int) bool
	owner = func(fn *ssa.Function, depth int) bool {
		for fn.Parent() != nil {
			fn = fn.Parent()
		}
		if fn.Package() != nil && fn.Package().Pkg.Path() == core.ModPath+"/fio" {
			return true
		}
		if fn == m.adopt || fn == m.merge || fn == p.Func(core.ModPath, "Open") || fn == p.Func(core.ModPath+"/utils", "CopyDir") {
			return true
		}
		// an unexported helper all of whose call sites are in owners (extracted code)
		if depth < 3 && fn.Object() != nil && !fn.Object().Exported() {
			sites := libCallSites(p, fn)
			if len(sites) > 0 {
				all := true
				for _, s := range sites {
					if !owner(s.Parent(), depth+1) {
						all = false
					}
				}
				return all
			}
		}
		return false
	}
	n := 0
	var bad []string
	for _, fn := range p.LibFuncs() {
		for _, b := range fn.Blocks {
			for _, in := range b.Instrs {
				ci, ok := in.(ssa.CallInstruction)
				if !ok {
					continue
				}
				name := fsMutationName(ci.Common())
				if name == "" {
					continue
				}
				n++
				if !owner(fn, 0) {
					bad = append(bad, fmt.Sprintf("%s calls %s at %s", core.FuncKey(fn), name, p.InstrPos(in)))
				}
				if name == "(*os.File).Truncate" && core.RecvNamed(fn) != p.R.MMap {
					bad = append(bad, fmt.Sprintf("%s truncates a file at %s (only MMap's size management may)", core.FuncKey(fn), p.InstrPos(in)))
				}
				if name == "os.OpenFile" {
					if k, ok := constInt(ci.Common().Args[1]); ok {
						const oAppend, oTrunc = 0x400, 0x200
						if k&oTrunc != 0 {
							bad = append(bad, fmt.Sprintf("%s opens a file with O_TRUNC at %s", core.FuncKey(fn), p.InstrPos(in)))
						}
						if fn.Signature.Results().Len() > 0 && strings.HasSuffix(fn.Signature.Results().At(0).Type().String(), "fio.FileIO") && k&oAppend == 0 {
							bad = append(bad, fmt.Sprintf("%s opens the log without O_APPEND at %s", core.FuncKey(fn), p.InstrPos(in)))
						}
					} else {
						bad = append(bad, fmt.Sprintf("%s opens a file with non-constant flags at %s", core.FuncKey(fn), p.InstrPos(in)))
					}
				}
			}
		}
	}
	if n < 8 {
		core.Failf("vacuity guard: TB1 expected >= 8 file-system mutation call sites, found %d", n)
	}
	sort.Strings(bad)
	rep.Check(len(bad) == 0, "TB1", "fs-mutation-owners", fmt.Sprintf("all %d file-system mutation call sites belong to their owners", n), "", strings.Join(bad, "; "), true)
}

func C03(p *core.Prog, rep *core.Report) {
	wr1SingleWrite(p, rep)
	tb1Owners(p, rep)
	ps2Impls(p, rep)
	ps3Rotate(p, rep)
	bd1Bounds(p, rep)
	bd2Sign(p, rep)
	bd4Window(p, rep)
	v := newVF(p, rep)
	v.vf3Replay()
	ps8Readers(p, rep, "read")
	eof1(p, rep)
	// Open's own adoption step and the marker it trusts are crash points of this property too
	mc := newMergeCtx(p, rep)
	mc.ps5Adoption()
	mc.mg2MarkerID()
	rep.Notes = append(rep.Notes, "reading the code suggests the tree does not tolerate a torn tail (ErrInvalidCRC aborts Open; an MMap file left 512 MiB-extended by a crash reads as zero chunks): that is the undecided behavioural clause, a note for whoever applies a dynamic technique, not a claim of this machinery")
	rep.NotCovered = append(rep.NotCovered, "which mapping a cut-off directory image re-opens to, for every crash instant and tail length (the deciding behaviour of this property); only necessary structural conditions are decided")
}

// eof1: end of log is decided by sizes, never by content.
func eof1(p *core.Prog, rep *core.Report) {
	rep.Rule("EOF1", "end of log is decided by sizes only: in the chunk readers every return of io.EOF is control dependent on a comparison whose operands derive from the file's logical size (Size() / the fields it reads); a chunk is never skipped because of what its bytes contain; and a success return is reached only after a record-ending chunk type was seen; outside the readers no function returns io.EOF under a condition computed from the bytes it was given (content never means end of log)")
	sizeFields := map[*types.Var]bool{}
	sz := p.MustMethod(p.R.DataFile, "Size")
	for _, b := range sz.Blocks {
		for _, in := range b.Instrs {
			if u, ok := in.(*ssa.UnOp); ok {
				if f, _ := core.LoadedField(u); f != nil {
					sizeFields[f] = true
				}
			}
		}
	}
	var derives func(v ssa.Value, d int) bool
	derives = func(v ssa.Value, d int) bool {
		if v == nil || d > 8 {
			return false
		}
		switch u := v.(type) {
		case *ssa.Call:
			if c := u.Common().StaticCallee(); c == sz {
				return true
			}
			if _, ok := u.Call.Value.(*ssa.Builtin); ok {
				for _, a := range u.Call.Args {
					if derives(a, d+1) {
						return true
					}
				}
			}
			// an unexported helper of the package that is handed numbers only (it cannot look at content) and at least one
			// of them derives from the size: `blockExtent(blockID, fileSize)`
			if c := u.Common().StaticCallee(); c != nil && c.Package() != nil && c.Package().Pkg.Path() == core.ModPath+"/datafile" && !token.IsExported(c.Name()) && c.Signature.Recv() == nil {
				numeric, any := true, false
				for _, a := range u.Call.Args {
					if _, isBasic := a.Type().Underlying().(*types.Basic); !isBasic {
						numeric = false
					}
					if derives(a, d+1) {
						any = true
					}
				}
				return numeric && any
			}
		case *ssa.Extract:
			if c, ok := u.Tuple.(*ssa.Call); ok {
				return derives(c, d+1)
			}
		case *ssa.BinOp:
			return derives(u.X, d+1) || derives(u.Y, d+1)
		case *ssa.Convert:
			return derives(u.X, d+1)
		case *ssa.UnOp:
			if f, _ := core.LoadedField(u); f != nil && sizeFields[f] {
				return true
			}
			if u.Op == token.NOT {
				return derives(u.X, d+1)
			}
		case *ssa.Phi:
			for _, e := range u.Edges {
				if derives(e, d+1) {
					return true
				}
			}
		}
		return false
	}
	dec := chunkDecoder(p)
	n := 0
	for _, fn := range chunkReaders(p) {
		if fn.Package() == nil || fn.Package().Pkg.Path() != core.ModPath+"/datafile" || core.RecvNamed(fn) == p.R.MMap || core.RecvNamed(fn) == p.R.FileIO {
			continue
		}
		ei := core.ErrResultIndex(fn.Signature)
		var bad []string
		for _, r := range core.Returns(fn) {
			ev := core.ReturnOperand(r, ei)
			u, ok := ev.(*ssa.UnOp)
			if !ok {
				continue
			}
			g, ok := u.X.(*ssa.Global)
			if !ok || g.Name() != "EOF" {
				continue
			}
			n++
			okc := false
			for _, pb := range r.Block().Preds {
				if iff, ok := pb.Instrs[len(pb.Instrs)-1].(*ssa.If); ok && len(r.Block().Preds) == 1 {
					if bo, ok := iff.Cond.(*ssa.BinOp); ok && (derives(bo.X, 0) || derives(bo.Y, 0)) {
						okc = true
					} else if !ok && derives(iff.Cond, 0) {
						okc = true
					}
				}
			}
			if !okc {
				bad = append(bad, "io.EOF returned at "+p.InstrPos(r)+" on a condition that does not derive from the file size: records after that point silently vanish from the scan")
			}
		}
		rep.Check(len(bad) == 0, "EOF1", "eof-by-size:"+core.FuncKey(fn), "io.EOF is returned only on size comparisons", p.Pos(fn.Pos()), strings.Join(bad, "; "), true)
		// success only after a terminal chunk type: typestate N -> T on the true edge of (type == Full|Last)
		var bad2 []string
		eng := core.NewEngine(p, core.Hooks{
			Name:   "EOF1b",
			Follow: func(f *ssa.Function) bool { return false },
			Edge: func(x *core.Exec, iff *ssa.If, taken bool, a core.AState) (core.AState, bool) {
				bo, ok := iff.Cond.(*ssa.BinOp)
				if !ok || bo.Op != token.EQL || !taken {
					return a, true
				}
				if c, idx := extractOf(bo.X); c != nil && c.Common().StaticCallee() == dec && idx == 1 {
					return "T", true
				}
				return a, true
			},
		})
		for _, e := range eng.Run(fn, "N", "") {
			if e.Cls == core.ClsSuccess && e.A != "T" {
				bad2 = append(bad2, "success return at "+p.InstrPos(e.Ret)+" without having seen a record-ending chunk: an incomplete record is returned as complete")
			}
		}
		rep.Check(len(bad2) == 0, "EOF1", "complete-record:"+core.FuncKey(fn), "a record is returned only after its last chunk", p.Pos(fn.Pos()), strings.Join(sortedStr(bad2), "; "), true)
		if core.RecvNamed(fn) == p.R.DataReader {
			// CD3c: the sequential reader re-evaluates the block-tail predicate after EVERY record end (whatever
			// chunk type ended it), because the writer pads whenever a tail is too short
			bs := blockSizeConst(p)
			hdr := layoutOf(p, chunkWriter(p), true).typ + 1
			tails, _ := tailPredicates(fn, bs, hdr)
			isTail := map[*ssa.If]bool{}
			for _, t := range tails {
				isTail[t] = true
			}
			var bad3 []string
			eng3 := core.NewEngine(p, core.Hooks{
				Name:   "CD3c",
				Follow: func(f *ssa.Function) bool { return false },
				Edge: func(x *core.Exec, iff *ssa.If, taken bool, a core.AState) (core.AState, bool) {
					if isTail[iff] {
						return "K", true
					}
					return a, true
				},
			})
			for _, e := range eng3.Run(fn, "N", "") {
				if e.Cls == core.ClsSuccess && e.A != "K" {
					bad3 = append(bad3, "success return at "+p.InstrPos(e.Ret)+" without evaluating the block-tail predicate: when the record ended in a tail too short for a header the next call decodes padding (CRC error) or stops early")
				}
			}
			rep.Check(len(tails) > 0 && len(bad3) == 0, "CD3", "skip-after-every-record:"+core.FuncKey(fn), "the block-tail predicate is evaluated on every path to a returned record", p.Pos(fn.Pos()), strings.Join(sortedStr(bad3), "; "), true)
		}
	}
	if n < 3 {
		core.Failf("vacuity guard: EOF1 expected >= 3 io.EOF returns in the chunk readers, found %d", n)
	}
	// EOF1c: only sizes say "end of log". A decoder that answers io.EOF for some byte pattern (an all-zero header,
	// say) or for a short input makes the scan stop at damage instead of reporting it. A helper that compares
	// offsets with sizes handed to it is fine: the rule looks at what the controlling conditions are computed from.
	isReader := map[*ssa.Function]bool{}
	for _, fn := range chunkReaders(p) {
		isReader[fn] = true
	}
	isBytes := func(t types.Type) bool {
		sl, ok := t.Underlying().(*types.Slice)
		if !ok {
			return false
		}
		b, ok := sl.Elem().Underlying().(*types.Basic)
		return ok && b.Kind() == types.Uint8
	}
	var fromBytes func(v ssa.Value, d int) bool
	fromBytes = func(v ssa.Value, d int) bool {
		if v == nil || d > 10 {
			return false
		}
		switch u := v.(type) {
		case *ssa.BinOp:
			return fromBytes(u.X, d+1) || fromBytes(u.Y, d+1)
		case *ssa.Convert:
			return fromBytes(u.X, d+1)
		case *ssa.ChangeType:
			return fromBytes(u.X, d+1)
		case *ssa.Phi:
			for _, e := range u.Edges {
				if fromBytes(e, d+1) {
					return true
				}
			}
		case *ssa.Extract:
			return fromBytes(u.Tuple, d+1)
		case *ssa.UnOp:
			if u.Op == token.MUL {
				if ia, ok := u.X.(*ssa.IndexAddr); ok {
					return isBytes(ia.X.Type()) || fromBytes(ia.X, d+1)
				}
				return false
			}
			return fromBytes(u.X, d+1)
		case *ssa.Slice:
			return isBytes(u.X.Type()) || isBytes(u.Type())
		case *ssa.Parameter:
			return isBytes(u.Type())
		case *ssa.Call:
			for _, a := range u.Call.Args {
				if isBytes(a.Type()) || fromBytes(a, d+1) {
					return true
				}
			}
		}
		return false
	}
	var bad []string
	nf := 0
	for _, fn := range p.LibFuncs() {
		if fn.Package() == nil || fn.Package().Pkg.Path() != core.ModPath+"/datafile" || isReader[fn] {
			continue
		}
		ei := core.ErrResultIndex(fn.Signature)
		if ei < 0 {
			continue
		}
		nf++
		for _, r := range core.Returns(fn) {
			isEOF := false
			for _, o := range core.Origins(core.ReturnOperand(r, ei)) {
				if u, ok := o.(*ssa.UnOp); ok {
					if g, ok := u.X.(*ssa.Global); ok && g.Name() == "EOF" && g.Pkg != nil && g.Pkg.Pkg.Path() == "io" {
						isEOF = true
					}
				}
			}
			if !isEOF {
				continue
			}
			// conditions controlling the return: the Ifs on the dominator chain of the returning block
			for b := r.Block(); b != nil; b = b.Idom() {
				iff, ok := b.Instrs[len(b.Instrs)-1].(*ssa.If)
				if !ok || b == r.Block() {
					continue
				}
				if fromBytes(iff.Cond, 0) {
					bad = append(bad, core.FuncKey(fn)+" returns io.EOF at "+p.InstrPos(r)+" under a condition computed from the bytes it was given ("+p.InstrPos(iff)+"): a decoder cannot know where the log ends; bytes that decode to 'end' make damage look like a clean end of file")
					break
				}
			}
		}
	}
	rep.Check(len(bad) == 0, "EOF1", "eof-only-from-readers", fmt.Sprintf("none of the %d error-returning non-reader functions of package datafile returns io.EOF under a condition computed from the bytes it decodes", nf), "", strings.Join(sortedStr(bad), "; "), true)
}

func C10(p *core.Prog, rep *core.Report) {
	tb5Snapshots(p, rep)
	tb2Positions(p, rep)
	tb2cItems(p, rep)
	vf6Snapshot(p, rep)
	iterReadOnlyParity(p, rep)
	hp1Heap(p, rep)
	hp2Conservation(p, rep)
	hp3NoDuplicates(p, rep)
	sk1SeekInclusive(p, rep)
	tb5cMoversWrite(p, rep)
	tb5dDirectionSymmetry(p, rep)
	tb3bIndexImplParity(p, rep)
	// constructors run under the shard lock (LK7 instances of the iterator call)
	full := core.NewReport("C09")
	runLockRules(p, full, false)
	rep.Rule("LK7", full.Rules["LK7"])
	for _, o := range full.Obls {
		if o.Rule == "LK7" && strings.Contains(o.Construct, "iterator") {
			rep.Add(*o)
		}
	}
	rep.NotCovered = append(rep.NotCovered, "sortedness, completeness, Seek semantics, prefix filtering, cursor arithmetic inside the shard iterators, for all key sets / shard counts / call sequences (value dependent)")
}

func C14(p *core.Prog, rep *core.Report) {
	rt3Parity(p, rep)
	tb3Dispatch(p, rep)
	ps2Impls(p, rep)
	tb5Snapshots(p, rep)
	tb2cItems(p, rep)
	cfgTaint(p, rep)
	hp1Heap(p, rep)
	hp2Conservation(p, rep)
	hp3NoDuplicates(p, rep)
	sk1SeekInclusive(p, rep)
	tb5cMoversWrite(p, rep)
	tb5dDirectionSymmetry(p, rep)
	tb3bIndexImplParity(p, rep)
	v := newVF(p, rep)
	v.vf3Replay()
	rep.Notes = append(rep.Notes, "considered and rejected: 'both arms of every branch on DataFileSize/SyncStrategy produce the same WRITE/INDEX-UPDATE trace' - the batch overflow branch legitimately flushes early in one arm")
	rep.NotCovered = append(rep.NotCovered, "equality of transcripts across configurations; shard hashing; iteration order equality; 'limits change only layout and flush timing' (relational over pairs of runs)")
}

// tb4Tags: each datatype command family passes its own type tag to the metadata lookup.
func tb4Tags(p *core.Prog, rep *core.Report) {
	rep.Rule("TB4", "type-tag agreement: every exported DataTypeService command reaches the metadata lookup only with the tag constant of its own family (H*->Hash, S*->Set, L*/R*->List, Z*->ZSet); the lookup returns the wrong-type error exactly on the tag-mismatch edge; the String commands write and test the String tag")
	dtp := core.ModPath + "/datatype"
	tags := map[string]int64{}
	for n, v := range p.ConstsOf(dtp, "dataType") {
		i, _ := constant.Int64Val(v)
		tags[n] = i
	}
	// the lookup: function returning (*metadata, error) with a byte-typed parameter
	var lookup *ssa.Function
	for _, fn := range p.LibFuncs() {
		if fn.Package() == nil || fn.Package().Pkg.Path() != dtp {
			continue
		}
		r := fn.Signature.Results()
		if r.Len() == 2 && strings.HasSuffix(r.At(0).Type().String(), "datatype.metadata") && fn.Signature.Params().Len() == 2 {
			lookup = fn
		}
	}
	if lookup == nil {
		core.Failf("role unresolved: metadata lookup")
	}
	svc := p.Pkg(dtp).Pkg.Scope().Lookup("DataTypeService").(*types.TypeName).Type().(*types.Named)
	ms := p.SSA.MethodSets.MethodSet(types.NewPointer(svc))
	n := 0
	for i := 0; i < ms.Len(); i++ {
		if !ms.At(i).Obj().Exported() {
			continue
		}
		fn := p.SSA.MethodValue(ms.At(i))
		want := ""
		name := fn.Name()
		switch {
		case strings.HasPrefix(name, "H"):
			want = "Hash"
		case strings.HasPrefix(name, "Z"):
			want = "ZSet"
		case name == "LPush" || name == "RPush" || name == "LPop" || name == "RPop":
			want = "List"
		case name == "SAdd" || name == "SRem" || name == "SIsMember":
			want = "Set"
		default:
			continue
		}
		// constant tags reaching the lookup from this command (through unexported helpers)
		got := map[int64]bool{}
		var walk func(f *ssa.Function, d int)
		seen := map[*ssa.Function]bool{}
		walk = func(f *ssa.Function, d int) {
			if seen[f] || d > 3 {
				return
			}
			seen[f] = true
			for _, b := range f.Blocks {
				for _, in := range b.Instrs {
					ci, ok := in.(ssa.CallInstruction)
					if !ok {
						continue
					}
					c := ci.Common().StaticCallee()
					if c == lookup {
						if k, ok := constInt(ci.Common().Args[2]); ok {
							got[k] = true
						} else {
							got[-1] = true
						}
					} else if c != nil && c.Package() != nil && c.Package().Pkg.Path() == dtp && !c.Object().Exported() {
						walk(c, d+1)
					}
				}
			}
		}
		walk(fn, 0)
		n++
		ok := len(got) == 1 && got[tags[want]]
		rep.Check(ok, "TB4", "type-tag:"+name, name+" looks its metadata up with tag "+want, p.Pos(fn.Pos()), fmt.Sprintf("tags passed to the lookup: %v, expected only %s=%d", got, want, tags[want]), true)
	}
	if n < 10 {
		core.Failf("vacuity guard: TB4 expected >= 10 structure commands, found %d", n)
	}
	// mismatch edge returns the wrong-type error
	okm := false
	for _, b := range lookup.Blocks {
		iff, ok := b.Instrs[len(b.Instrs)-1].(*ssa.If)
		if !ok {
			continue
		}
		bo, ok := iff.Cond.(*ssa.BinOp)
		if !ok || (bo.Op != token.NEQ && bo.Op != token.EQL) {
			continue
		}
		f, isParam := tagCompare(bo)
		if !isParam || f == nil || !isByte(f.Type()) {
			continue
		}
		mismatch := b.Succs[0]
		if bo.Op == token.EQL {
			mismatch = b.Succs[1]
		}
		for _, r := range dominatedReturns(mismatch) {
			if u, ok := core.ReturnOperand(r, 1).(*ssa.UnOp); ok {
				if g, ok := u.X.(*ssa.Global); ok && g.Name() == "ErrWrongTypeOperation" {
					okm = true
				}
			}
		}
	}
	rep.Check(okm, "TB4", "wrong-type-edge:"+core.FuncKey(lookup), "the lookup returns ErrWrongTypeOperation on the stored-tag != requested-tag edge", p.Pos(lookup.Pos()), "no return of ErrWrongTypeOperation under the tag-mismatch test", true)
	// TB4c: the tag test is the FIRST decision taken on stored metadata. A branch on another stored field (size,
	// expiry) taken before it lets a key of another type through: for a String record those "fields" are decoded from
	// the user's value bytes (a one-byte value decodes to size 0).
	var tagIf *ssa.If
	var tagField *types.Var
	for _, b := range lookup.Blocks {
		iff, ok := b.Instrs[len(b.Instrs)-1].(*ssa.If)
		if !ok {
			continue
		}
		bo, ok := iff.Cond.(*ssa.BinOp)
		if !ok || (bo.Op != token.NEQ && bo.Op != token.EQL) {
			continue
		}
		f, isParam := tagCompare(bo)
		if isParam && f != nil && isByte(f.Type()) {
			tagIf, tagField = iff, f
		}
	}
	if tagIf == nil {
		rep.Unk("TB4", "tag-test-first:"+core.FuncKey(lookup), "the tag test is the first decision on stored metadata", p.Pos(lookup.Pos()), "tag test not found")
	} else {
		bo := tagIf.Cond.(*ssa.BinOp)
		okEdge := bo.Op == token.EQL // edge index on which the tags are equal
		var early []string
		for _, b := range lookup.Blocks {
			for _, in := range b.Instrs {
				u, ok := in.(*ssa.UnOp)
				if !ok {
					continue
				}
				f, base := core.LoadedField(u)
				if f == nil || f == tagField || fieldOwnerStruct(f) != fieldOwnerStruct(tagField) {
					continue
				}
				// only loads from a decoded (not freshly built) object matter
				if freshInFn(base, lookup) {
					continue
				}
				if !edgeDominates(tagIf, okEdge, b) {
					early = append(early, "stored field "+f.Name()+" is read at "+p.InstrPos(in)+" before / beside the tag test")
				}
			}
		}
		rep.Check(len(early) == 0, "TB4", "tag-test-first:"+core.FuncKey(lookup), "no other stored metadata field is looked at until the tag matched", p.InstrPos(tagIf), strings.Join(sortedStr(early), "; ")+": a key of another type whose bytes happen to decode that way bypasses the wrong-type reply", true)
	}
	// String commands
	set, get := p.MustMethod(svc, "Set"), p.MustMethod(svc, "Get")
	okSet, okGet := false, false
	for _, b := range set.Blocks {
		for _, in := range b.Instrs {
			if st, ok := in.(*ssa.Store); ok {
				if ia, ok := st.Addr.(*ssa.IndexAddr); ok {
					if k, ok := constInt(ia.Index); ok && k == 0 {
						if v, ok := constInt(st.Val); ok && v == tags["String"] {
							okSet = true
						}
					}
				}
			}
		}
	}
	for _, b := range get.Blocks {
		for _, in := range b.Instrs {
			if bo, ok := in.(*ssa.BinOp); ok && (bo.Op == token.NEQ || bo.Op == token.EQL) {
				if k, ok := constInt(bo.Y); ok && k == tags["String"] && isByte(bo.X.Type()) {
					okGet = true
				}
			}
		}
	}
	rep.Check(okSet && okGet, "TB4", "type-tag:String", "Set writes and Get tests the String tag", p.Pos(set.Pos()), fmt.Sprintf("Set writes String tag: %v, Get tests it: %v", okSet, okGet), false)
}

func C19(p *core.Prog, rep *core.Report) {
	full := core.NewReport("C09")
	runLockRules(p, full, true)
	rep.Rule("LK5", full.Rules["LK5"])
	n := 0
	for _, o := range full.Obls {
		if o.Rule == "LK5" && strings.Contains(o.Construct, "datatype") {
			rep.Add(*o)
			n++
		}
	}
	if n < 15 {
		core.Failf("vacuity guard: C19 expected >= 15 datatype pairing obligations, found %d", n)
	}
	metadataCodec(p, rep)
	tb4Tags(p, rep)
	list1Deque(p, rep)
	list2SizeWithCursor(p, rep)
	dt4SizePersisted(p, rep)
	dt2EncodersUseFields(p, rep)
	dt5EncodersFresh(p, rep)
	flt1ScoreCodec(p, rep)
	dt1ExistenceByError(p, rep)
	// S4: every structure update is a batch: the batch durability clauses (C04) apply
	v := newVF(p, rep)
	v.vf3Tagging()
	v.vf3Replay()
	rep.NotCovered = append(rep.NotCovered, "reply-for-reply equality with a reference model: sizes, popped elements, scores, expiry, existence flags, re-creation with a fresh version, restart equality")
}

// ---- C20 -------------------------------------------------------------------------------------------------

func tb6ResetProtocol(p *core.Prog, rep *core.Report) {
	R := p.R
	rep.Rule("TB6", "size-reset protocol: an MMap method truncates the file to its logical size only in state 'unmapped' (after Unmap, or on the activeMap == nil edge) and the same function invalidates the mapping bound (stores 0 to the bound field that remap compares against), so the next access remaps and re-extends the file")
	sz := p.MustMethod(R.MMap, "Size")
	var sizeField, bound *types.Var
	for _, r := range core.Returns(sz) {
		if f, _ := core.LoadedField(core.ReturnOperand(r, 0)); f != nil {
			sizeField = f
		}
	}
	st := R.MMap.Underlying().(*types.Struct)
	for i := 0; i < st.NumFields(); i++ {
		if f := st.Field(i); f != sizeField && core.TypeIs(f.Type(), "int64") {
			bound = f
		}
	}
	if sizeField == nil || bound == nil {
		core.Failf("role unresolved: MMap logical-size / mapping-bound fields")
	}
	n := 0
	for _, fn := range p.LibFuncs() {
		if core.RecvNamed(fn) != R.MMap {
			continue
		}
		hasTrunc := false
		for _, b := range fn.Blocks {
			for _, in := range b.Instrs {
				if calleeIs(in, "(*os.File).Truncate") {
					if f, _ := core.LoadedField(in.(ssa.CallInstruction).Common().Args[1]); f == sizeField {
						hasTrunc = true
					}
				}
			}
		}
		if !hasTrunc {
			continue
		}
		n++
		var bad []string
		eng := core.NewEngine(p, core.Hooks{
			Name:   "TB6",
			Follow: func(f *ssa.Function) bool { return false },
			Edge: func(x *core.Exec, iff *ssa.If, taken bool, a core.AState) (core.AState, bool) {
				bo, ok := iff.Cond.(*ssa.BinOp)
				if !ok {
					return a, true
				}
				// "the requested range lies below the mapping bound": the bound is positive only while a region is
				// mapped (TB6: every reset stores 0 to it; the remapping helper raises it and maps), so this edge
				// implies 'mapped' for every non-empty range
				if f, _ := core.LoadedField(bo.Y); f != nil && f == bound && taken && (bo.Op == token.LEQ || bo.Op == token.LSS) {
					return "M", true
				}
				if f, _ := core.LoadedField(bo.X); f != nil && f == bound && taken && (bo.Op == token.GEQ || bo.Op == token.GTR) {
					return "M", true
				}
				if !core.IsNilConst(bo.Y) {
					return a, true
				}
				if f, _ := core.LoadedField(bo.X); f == R.MMapMap {
					isNil := (bo.Op == token.EQL) == taken
					if isNil {
						return "U", true
					}
				}
				return a, true
			},
			Step: func(x *core.Exec, in ssa.Instruction, a core.AState) ([]core.StepOut, bool) {
				if calleeIs(in, "(*github.com/edsrzf/mmap-go.MMap).Unmap") {
					return []core.StepOut{{A: "U", Fact: true, Idx: -1, Truth: 0}, {A: a, Fact: true, Idx: -1, Truth: 1}}, true
				}
				if calleeIs(in, "(*os.File).Truncate") {
					if f, _ := core.LoadedField(in.(ssa.CallInstruction).Common().Args[1]); f == sizeField && a != "U" {
						bad = append(bad, "file truncated to its logical size at "+p.InstrPos(in)+" while the mapping may still be live: the next access to pages past the new end of file is a SIGBUS")
					}
				}
				return nil, false
			},
		})
		eng.Run(fn, "M", "")
		inval := false
		for _, b := range fn.Blocks {
			for _, in := range b.Instrs {
				if f, _, val := core.StoreField(in); f == bound {
					if k, ok := constInt(val); ok && k == 0 {
						inval = true
					}
				}
			}
		}
		if !inval {
			bad = append(bad, "the mapping bound is not invalidated: remap believes the old region is still mapped")
		}
		rep.Check(len(bad) == 0, "TB6", "size-reset:"+core.FuncKey(fn), "truncate only when unmapped, and invalidate the mapping bound", p.Pos(fn.Pos()), strings.Join(sortedStr(bad), "; "), true)
	}
	if n == 0 {
		core.Failf("vacuity guard: TB6 found no MMap method truncating to the logical size")
	}
}

func tb7Backup(p *core.Prog, rep *core.Report) {
	R := p.R
	rep.Rule("TB7", "backup arguments and lock: Backup copies Options.DirPath to its parameter with the lock-file name in the exclusion list, and both the size reset of mmap files and the directory copy are dominated by taking the database WRITER lock (released by a deferred unlock)")
	bk := p.MustMethod(R.DB, "Backup")
	copyDir := p.Func(core.ModPath+"/utils", "CopyDir")
	if copyDir == nil {
		core.Failf("role unresolved: utils.CopyDir")
	}
	var lockW ssa.Instruction
	for _, b := range bk.Blocks {
		for _, in := range b.Instrs {
			if calleeIs(in, "(*sync.RWMutex).Lock") {
				if f := core.LastField(in.(ssa.CallInstruction).Common().Args[0]); f == R.DBMu {
					if lockW == nil {
						lockW = in
					}
				}
			}
		}
	}
	n := 0
	for _, b := range bk.Blocks {
		for _, in := range b.Instrs {
			ci, ok := in.(ssa.CallInstruction)
			if !ok {
				continue
			}
			c := ci.Common().StaticCallee()
			if c == nil {
				continue
			}
			if c == copyDir || (core.RecvNamed(c) == R.MMap) {
				n++
				rep.Check(lockW != nil && dominatesInstr(lockW, in), "TB7", "under-writer-lock:"+c.Name(), c.Name()+" runs while the database writer lock is held", p.InstrPos(in), "not dominated by db.mu.Lock(): readers (RLock) may touch files while they are unmapped/truncated, and writers may append during the copy", true)
			}
			if c == copyDir {
				args := ci.Common().Args
				srcOK := core.LastField(args[0]) == R.OptDir
				_, dstParam := args[1].(*ssa.Parameter)
				// exclusion list contains the lock file name
				excl := false
				lockName := ""
				if cst, ok := p.Pkg(core.ModPath + "/datafile").Pkg.Scope().Lookup("FileLockSuffix").(*types.Const); ok {
					lockName = constant.StringVal(cst.Val())
				}
				if sl, ok := args[2].(*ssa.Slice); ok {
					if al, ok := sl.X.(*ssa.Alloc); ok {
						for _, ref := range *al.Referrers() {
							if ia, ok := ref.(*ssa.IndexAddr); ok {
								for _, r2 := range *ia.Referrers() {
									if st, ok := r2.(*ssa.Store); ok {
										if s, ok := strConst(st.Val); ok && s == lockName {
											excl = true
										}
									}
								}
							}
						}
					}
				}
				rep.Check(srcOK && dstParam && excl, "TB7", "copy-arguments", "source = data directory, destination = parameter, exclusion list holds the lock-file name", p.InstrPos(in), fmt.Sprintf("source-is-DirPath=%v destination-is-parameter=%v lock-file-excluded=%v", srcOK, dstParam, excl), true)
			}
		}
	}
	if n < 2 {
		core.Failf("vacuity guard: TB7 expected the size resets and the copy in Backup, found %d calls", n)
	}
	// every mmap file is shrunk before the copy: the active file and, in a loop, each rotated file (a rotated file
	// does not stay trimmed: the first read after a reset re-extends it, and so does reopening)
	active, older := false, false
	for _, b := range bk.Blocks {
		for _, in := range b.Instrs {
			ci, ok := in.(ssa.CallInstruction)
			if !ok {
				continue
			}
			c := ci.Common().StaticCallee()
			if c == nil || core.RecvNamed(c) != R.MMap {
				continue
			}
			for _, o := range core.Origins(ci.Common().Args[0]) {
				if ta, ok := o.(*ssa.TypeAssert); ok {
					o = ta.X
				}
				f, fb := core.LoadedField(o)
				if f != R.DFReadWriter {
					continue
				}
				for _, o2 := range core.Origins(fb) {
					if f2, _ := core.LoadedField(o2); f2 == R.DBActive {
						active = true
					}
					if e, ok := o2.(*ssa.Extract); ok {
						if nx, ok := e.Tuple.(*ssa.Next); ok {
							if rg, ok := nx.Iter.(*ssa.Range); ok {
								if f3, _ := core.LoadedField(rg.X); f3 == R.DBOlder {
									older = true
								}
							}
						}
					}
				}
			}
		}
	}
	rep.Check(active && older, "TB7", "reset-covers-all-files", "under mmap the size reset is applied to the active file and to every rotated file", p.Pos(bk.Pos()), fmt.Sprintf("active file reset: %v, loop over the rotated files: %v - a file left at its 512 MiB mapped size is copied with a zero tail and the backup fails to open (invalid CRC)", active, older), true)
}

// tb6bUnmappedUse: after a size reset the mapping is gone; every MMap method must cope with that.
// States: U unmapped (entry: any method may be the first call after a reset), M mapped.
func tb6bUnmappedUse(p *core.Prog, rep *core.Report) {
	R := p.R
	rep.Rule("TB6b", "unmapped state is handled: entering any MMap method in state 'unmapped' (the state a size reset leaves behind), the mapping is used (Flush, indexing, slicing) only after the remapping helper succeeded or on the non-nil edge of a test of the mapping; the remapping helper (the method that calls mmap.MapRegion) is trusted to map on success because the reset invalidates its bound (TB6)")
	var remap *ssa.Function
	for _, fn := range p.LibFuncs() {
		if core.RecvNamed(fn) != R.MMap {
			continue
		}
		for _, b := range fn.Blocks {
			for _, in := range b.Instrs {
				if calleeIs(in, "github.com/edsrzf/mmap-go.MapRegion") {
					remap = fn
				}
			}
		}
	}
	if remap == nil {
		core.Failf("role unresolved: MMap remapping helper (caller of mmap.MapRegion)")
	}
	// the mapping bound: the int64 field of MMap that Size() does not report (same resolution as TB6)
	var bound *types.Var
	{
		var sizeField *types.Var
		for _, r := range core.Returns(p.MustMethod(R.MMap, "Size")) {
			if f, _ := core.LoadedField(core.ReturnOperand(r, 0)); f != nil {
				sizeField = f
			}
		}
		st := R.MMap.Underlying().(*types.Struct)
		for i := 0; i < st.NumFields(); i++ {
			if f := st.Field(i); f != sizeField && core.TypeIs(f.Type(), "int64") {
				bound = f
			}
		}
	}
	n := 0
	ms := p.SSA.MethodSets.MethodSet(types.NewPointer(R.MMap))
	for i := 0; i < ms.Len(); i++ {
		fn := p.SSA.MethodValue(ms.At(i))
		if fn == nil || fn.Blocks == nil || fn == remap || !ms.At(i).Obj().Exported() {
			continue
		}
		var bad []string
		uses := 0
		eng := core.NewEngine(p, core.Hooks{
			Name:   "TB6b",
			Follow: func(f *ssa.Function) bool { return core.RecvNamed(f) == R.MMap && f != remap },
			Edge: func(x *core.Exec, iff *ssa.If, taken bool, a core.AState) (core.AState, bool) {
				bo, ok := iff.Cond.(*ssa.BinOp)
				if !ok {
					return a, true
				}
				// range below the mapping bound => mapped (see TB6)
				if f, _ := core.LoadedField(bo.Y); f != nil && f == bound && taken && (bo.Op == token.LEQ || bo.Op == token.LSS) {
					return "M", true
				}
				if f, _ := core.LoadedField(bo.X); f != nil && f == bound && taken && (bo.Op == token.GEQ || bo.Op == token.GTR) {
					return "M", true
				}
				if !core.IsNilConst(bo.Y) {
					return a, true
				}
				if f, _ := core.LoadedField(bo.X); f == R.MMapMap {
					nonNil := (bo.Op == token.NEQ) == taken
					if nonNil {
						return "M", true
					}
					return "U", true
				}
				return a, true
			},
			Step: func(x *core.Exec, in ssa.Instruction, a core.AState) ([]core.StepOut, bool) {
				if ci, ok := in.(ssa.CallInstruction); ok {
					c := ci.Common()
					if c.StaticCallee() == remap {
						return []core.StepOut{{A: "M", Fact: true, Idx: -1, Truth: 0}, {A: a, Fact: true, Idx: -1, Truth: 1}}, true
					}
					if calleeIs(in, "(*github.com/edsrzf/mmap-go.MMap).Unmap") {
						if a == "U" {
							bad = append(bad, "Unmap at "+p.InstrPos(in)+" while nothing is mapped")
						}
						return []core.StepOut{{A: "U"}}, true
					}
					if calleeIs(in, mmapFlush, "(github.com/edsrzf/mmap-go.MMap).Lock", "(github.com/edsrzf/mmap-go.MMap).Unlock") {
						uses++
						if a == "U" {
							bad = append(bad, "the mapping is flushed at "+p.InstrPos(in)+" in state unmapped (msync of an empty region fails with EINVAL): after a Backup the source cannot sync / rotate until something happens to read or write the file")
						}
					}
				}
				// indexing / slicing the mapping
				var x0 ssa.Value
				switch t := in.(type) {
				case *ssa.Slice:
					x0 = t.X
				case *ssa.IndexAddr:
					x0 = t.X
				}
				if x0 != nil {
					if f, _ := core.LoadedField(x0); f == R.MMapMap {
						uses++
						if a == "U" {
							bad = append(bad, "the mapping is accessed at "+p.InstrPos(in)+" in state unmapped")
						}
					}
				}
				return nil, false
			},
		})
		eng.Run(fn, "U", "")
		if uses == 0 {
			continue
		}
		n++
		rep.Check(len(bad) == 0, "TB6b", "unmapped-handled:"+core.FuncKey(fn), "the method copes with being the first call after a size reset", p.Pos(fn.Pos()), strings.Join(sortedStr(bad), "; "), true)
	}
	if n < 3 {
		core.Failf("vacuity guard: TB6b expected >= 3 MMap methods using the mapping, found %d", n)
	}
}

// cp1CopyComplete: the directory copy writes every entry it does not exclude.
func cp1CopyComplete(p *core.Prog, rep *core.Report) {
	rep.Rule("CP1", "copy completeness: in the walk callback of utils.CopyDir a nil return is reached only (a) for the source directory itself, (b) on the exclusion-match edge, or (c) as the result of creating the directory / writing the file: no other condition may skip an entry")
	copyDir := p.Func(core.ModPath+"/utils", "CopyDir")
	var cb *ssa.Function
	for _, f := range copyDir.AnonFuncs {
		cb = f
	}
	if cb == nil {
		core.Failf("role unresolved: walk callback of CopyDir")
	}
	var bad []string
	n := 0
	for _, r := range core.Returns(cb) {
		ev := core.ReturnOperand(r, 0)
		n++
		if !core.IsNilConst(ev) {
			continue // returns an error or the result of a call
		}
		ok := false
		for _, b := range cb.Blocks {
			iff, isIf := b.Instrs[len(b.Instrs)-1].(*ssa.If)
			if !isIf {
				continue
			}
			// (b) matched
			if c, idx := extractOf(iff.Cond); c != nil && idx == 0 && (core.StaticCalleeIs(c.Common(), "path/filepath.Match") || isMatchHelper(c.Common().StaticCallee())) && edgeDominates(iff, true, r.Block()) {
				ok = true
			}
			// (a) relative name == ""
			if bo, isBo := iff.Cond.(*ssa.BinOp); isBo && bo.Op == token.EQL {
				if s, isS := strConst(bo.Y); isS && s == "" && edgeDominates(iff, true, r.Block()) {
					ok = true
				}
			}
		}
		if !ok {
			bad = append(bad, "entry skipped with a nil return at "+p.InstrPos(r)+" under a condition other than 'is the root' / 'is excluded': the backup silently lacks (or keeps a stale copy of) that file")
		}
	}
	if n < 4 {
		core.Failf("vacuity guard: CP1 expected >= 4 returns in the walk callback, found %d", n)
	}
	rep.Check(len(bad) == 0, "CP1", "copy-complete:"+core.FuncKey(copyDir), "every non-excluded entry is created or written", p.Pos(cb.Pos()), strings.Join(bad, "; "), true)
}

func C20(p *core.Prog, rep *core.Report) {
	tb6ResetProtocol(p, rep)
	tb6bUnmappedUse(p, rep)
	tb7Backup(p, rep)
	cp1CopyComplete(p, rep)
	copyDir := p.Func(core.ModPath+"/utils", "CopyDir")
	ps8(p, rep, ps8Scope{
		name: "copy",
		funcs: func(fn *ssa.Function) bool {
			return fn == copyDir || fn.Parent() == copyDir || (core.RecvNamed(fn) == p.R.DB && fn.Name() == "Backup")
		},
		source:  func(fn *ssa.Function, ci ssa.CallInstruction) bool { return true },
		degrade: map[string]string{},
	})
	rep.Notes = append(rep.Notes, "staticcheck SA4009 in CopyDir (walk error overwritten) is cosmetic for this property: a non-nil walk error has a nil info, i.e. a nil dereference on an unreadable entry; outside the property's quantifier")
	rep.NotCovered = append(rep.NotCovered, "equality of the copy's mapping with the source's at backup time; the source remaining usable for all later histories")
}

// fieldOwnerStruct: the struct type a field variable belongs to, identified by the field's position in its package
// scope (fields of one struct share the struct literal's position range); resolved by scanning named structs.
var fieldOwnerCache = map[*types.Var]*types.Struct{}

func fieldOwnerStruct(f *types.Var) *types.Struct {
	if st, ok := fieldOwnerCache[f]; ok {
		return st
	}
	if f.Pkg() == nil {
		return nil
	}
	sc := f.Pkg().Scope()
	for _, name := range sc.Names() {
		tn, ok := sc.Lookup(name).(*types.TypeName)
		if !ok {
			continue
		}
		st, ok := tn.Type().Underlying().(*types.Struct)
		if !ok {
			continue
		}
		for i := 0; i < st.NumFields(); i++ {
			fieldOwnerCache[st.Field(i)] = st
		}
	}
	return fieldOwnerCache[f]
}

// tagCompare recognises `stored.field ==/!= parameter` in either operand order.
func tagCompare(bo *ssa.BinOp) (*types.Var, bool) {
	if _, ok := bo.Y.(*ssa.Parameter); ok {
		f, _ := core.LoadedField(bo.X)
		return f, true
	}
	if _, ok := bo.X.(*ssa.Parameter); ok {
		f, _ := core.LoadedField(bo.Y)
		return f, true
	}
	return nil, false
}

// isMatchHelper: an unexported helper of package utils whose first result is a bool and that calls filepath.Match
// (`matchesAny(patterns, name) (bool, error)`: the exclusion loop extracted from the walk callback).
func isMatchHelper(f *ssa.Function) bool {
	if f == nil || f.Package() == nil || f.Package().Pkg.Path() != core.ModPath+"/utils" || token.IsExported(f.Name()) || f.Signature.Results().Len() == 0 {
		return false
	}
	if bt, ok := f.Signature.Results().At(0).Type().Underlying().(*types.Basic); !ok || bt.Kind() != types.Bool {
		return false
	}
	for _, b := range f.Blocks {
		for _, in := range b.Instrs {
			if c, ok := in.(*ssa.Call); ok && core.StaticCalleeIs(c.Common(), "path/filepath.Match") {
				return true
			}
		}
	}
	return false
}
