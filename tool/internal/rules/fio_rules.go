package rules

import (
	"fmt"
	"go/token"
	"go/types"
	"sort"
	"strings"

	"golang.org/x/tools/go/ssa"

	"xkvverif/internal/core"
)

// lk13BackendState: rotated data files are read WITHOUT the database lock (getValueByPosition drops it before reading),
// so the methods of an I/O back-end run concurrently on one object: many Reads, and Reads against the Sync /
// ResetFileSize / Close that Backup and Close issue under the database lock. A back-end whose methods change state
// of their own (the memory map re-maps on demand and is unmapped by a size reset) therefore needs a lock of its own.
// Found on the tree as genuine defect F17 (section 5): after Backup, concurrent Gets raced in remap and sliced a nil map.
func lk13BackendState(p *core.Prog, rep *core.Report) {
	rep.Rule("LK13", "back-end state is locked: for every ReadWriter implementation with fields that its methods store after construction, on every path of every exported method each store to such a field (and each call of an unmap / map / truncate primitive) happens with the implementation's own mutex held for writing, each load of such a field with it held for reading or writing, and the method returns with the mutex released; an implementation without such fields needs no lock")
	impls := p.R.Impls(p.R.ReadWriter)
	sort.Slice(impls, func(i, j int) bool { return impls[i].Obj().Name() < impls[j].Obj().Name() })
	for _, T := range impls {
		st, ok := T.Underlying().(*types.Struct)
		if !ok {
			continue
		}
		isField := map[*types.Var]bool{}
		var mu *types.Var
		for i := 0; i < st.NumFields(); i++ {
			isField[st.Field(i)] = true
			if isMutexType(st.Field(i).Type()) {
				mu = st.Field(i)
			}
		}
		var methods []*ssa.Function
		for _, fn := range p.LibFuncs() {
			if core.RecvNamed(fn) == T {
				methods = append(methods, fn)
			}
		}
		sort.Slice(methods, func(i, j int) bool { return methods[i].Name() < methods[j].Name() })
		mutable := map[*types.Var]bool{}
		for _, fn := range methods {
			for _, b := range fn.Blocks {
				for _, in := range b.Instrs {
					if f, _, _ := core.StoreField(in); f != nil && isField[f] && !isMutexType(f.Type()) {
						mutable[f] = true
					}
				}
			}
		}
		name := T.Obj().Name()
		if len(mutable) == 0 {
			rep.OK("LK13", "stateless:"+name, "no method stores a field after construction: concurrent calls share nothing mutable of their own", p.Pos(T.Obj().Pos()), false)
			continue
		}
		var mnames []string
		for f := range mutable {
			mnames = append(mnames, f.Name())
		}
		sort.Strings(mnames)
		if mu == nil {
			rep.Bad("LK13", "lock-present:"+name, "an implementation with mutable state has a mutex", p.Pos(T.Obj().Pos()), fmt.Sprintf("%s stores its fields %s in methods but has no mutex: concurrent lock-free reads of a rotated file race with each other and with Backup/Close", name, strings.Join(mnames, ",")))
			continue
		}
		lockOp := func(c *ssa.CallCommon) (op, mode byte, ok bool) {
			f := c.StaticCallee()
			if f == nil {
				return 0, 0, false
			}
			lo, ok := lockOps[f.String()]
			if !ok || len(c.Args) == 0 {
				return 0, 0, false
			}
			if fl, _ := core.FieldOfAddr(c.Args[0]); fl != mu {
				return 0, 0, false
			}
			return lo[0], lo[1], true
		}
		for _, m := range methods {
			if !token.IsExported(m.Name()) {
				continue
			}
			var bad []string
			seen := map[string]bool{}
			add := func(s string) {
				if !seen[s] {
					seen[s] = true
					bad = append(bad, s)
				}
			}
			nAcc := 0
			eng := core.NewEngine(p, core.Hooks{
				Name:   "LK13",
				Follow: func(f *ssa.Function) bool { return core.RecvNamed(f) == T },
				Step: func(x *core.Exec, in ssa.Instruction, a core.AState) ([]core.StepOut, bool) {
					if ci, ok := in.(ssa.CallInstruction); ok {
						c := ci.Common()
						if op, mode, ok := lockOp(c); ok {
							switch {
							case op == 'a' && a == "-":
								return []core.StepOut{{A: string(mode)}}, true
							case op == 'a':
								add(fmt.Sprintf("mutex acquired at %s while already held (%s): self-deadlock", p.InstrPos(in), a))
								return []core.StepOut{{A: a}}, true
							case op == 'r' && a == string(mode):
								return []core.StepOut{{A: "-"}}, true
							default:
								add(fmt.Sprintf("mutex released at %s in mode %c while held as '%s'", p.InstrPos(in), mode, a))
								return []core.StepOut{{A: "-"}}, true
							}
						}
						if f := c.StaticCallee(); f != nil {
							switch f.String() {
							case "(github.com/edsrzf/mmap-go.MMap).Unmap", "github.com/edsrzf/mmap-go.MapRegion", "(*os.File).Truncate":
								nAcc++
								if a != "W" {
									add(fmt.Sprintf("%s called at %s without the write lock (held: '%s'): a concurrent reader uses the region being unmapped / the file being resized", f.Name(), p.InstrPos(in), a))
								}
							}
						}
						return nil, false
					}
					if f, _, _ := core.StoreField(in); f != nil && mutable[f] {
						nAcc++
						if a != "W" {
							add(fmt.Sprintf("%s.%s stored at %s in %s without the write lock (held: '%s')", name, f.Name(), p.InstrPos(in), core.FuncKey(x.Fn), a))
						}
						return nil, false
					}
					if u, ok := in.(*ssa.UnOp); ok && u.Op == token.MUL {
						if f, _ := core.FieldOfAddr(u.X); f != nil && mutable[f] {
							nAcc++
							if a == "-" {
								add(fmt.Sprintf("%s.%s read at %s in %s without the lock", name, f.Name(), p.InstrPos(in), core.FuncKey(x.Fn)))
							}
						}
					}
					return nil, false
				},
			})
			for _, e := range eng.Run(m, "-", "") {
				if e.A != "-" && e.Ret != nil {
					add(fmt.Sprintf("returns at %s with the mutex still held ('%s')", p.InstrPos(e.Ret), e.A))
				}
			}
			if len(eng.Recursive) > 0 {
				rep.Unk("LK13", "locked-state:"+core.FuncKey(m), "state accesses happen under the implementation's lock", p.Pos(m.Pos()), "recursion on analysed path")
				continue
			}
			sort.Strings(bad)
			rep.Check(len(bad) == 0, "LK13", "locked-state:"+core.FuncKey(m), fmt.Sprintf("the %d accesses to %s state (%s) on the paths of this method happen under its lock, released at every return", nAcc, name, strings.Join(mnames, ",")), p.Pos(m.Pos()), strings.Join(bad, "; "), true)
		}
	}
}

// rm1RemovalTargets: everything the library deletes inside the data directory is named by construction - a data-file
// id plus a suffix through the file-name constructor, or a whole sibling directory - never by what a directory listing
// happened to return. A removal loop driven by os.ReadDir / Walk entries also meets the files the engine does not own
// by id: above all the directory lock file (".lock" parses as id 0 when the parse error is ignored), whose unlinking
// lets a second Open lock a fresh inode while the first database is still open.
func rm1RemovalTargets(p *core.Prog, rep *core.Report) {
	rep.Rule("RM1", "removal targets are constructed, not listed: the path argument of every os.Remove / os.RemoveAll in the library does not derive (through string concatenation, filepath.Join, conversions, phis) from a directory-entry name (os.DirEntry.Name / fs.FileInfo.Name results, or the path parameter of a filepath.Walk callback)")
	var listed func(v ssa.Value, d int, seen map[ssa.Value]bool) string
	listed = func(v ssa.Value, d int, seen map[ssa.Value]bool) string {
		if v == nil || d > 12 || seen[v] {
			return ""
		}
		seen[v] = true
		switch t := v.(type) {
		case *ssa.Call:
			c := t.Common()
			if c.IsInvoke() && c.Method.Name() == "Name" {
				if n, ok := types.Unalias(c.Value.Type()).(*types.Named); ok && n.Obj().Pkg() != nil && (n.Obj().Pkg().Path() == "io/fs" || n.Obj().Pkg().Path() == "os") {
					return "the name of a directory entry (" + n.Obj().Name() + ".Name)"
				}
			}
			for _, a := range c.Args {
				if s := listed(a, d+1, seen); s != "" {
					return s
				}
			}
		case *ssa.BinOp:
			if s := listed(t.X, d+1, seen); s != "" {
				return s
			}
			return listed(t.Y, d+1, seen)
		case *ssa.Convert:
			return listed(t.X, d+1, seen)
		case *ssa.Phi:
			for _, e := range t.Edges {
				if s := listed(e, d+1, seen); s != "" {
					return s
				}
			}
		case *ssa.Slice:
			return listed(t.X, d+1, seen)
		case *ssa.UnOp:
			if t.Op == token.MUL {
				// element of a slice built from listed names (varargs of Join)
				if ia, ok := t.X.(*ssa.IndexAddr); ok {
					return listed(ia.X, d+1, seen)
				}
				for _, o := range core.Origins(t) {
					if o != ssa.Value(t) {
						if s := listed(o, d+1, seen); s != "" {
							return s
						}
					}
				}
			}
		case *ssa.Alloc:
			// varargs array: look at what is stored into it
			for _, r := range *t.Referrers() {
				if ia, ok := r.(*ssa.IndexAddr); ok {
					for _, r2 := range *ia.Referrers() {
						if st, ok := r2.(*ssa.Store); ok {
							if s := listed(st.Val, d+1, seen); s != "" {
								return s
							}
						}
					}
				}
			}
		case *ssa.Parameter:
			// the path parameter of a Walk callback
			fn := t.Parent()
			if fn.Parent() != nil && len(fn.Params) >= 2 && t == fn.Params[0] && fn.Signature.Params().Len() == 3 {
				if fn.Signature.Params().At(0).Type().String() == "string" && strings.HasSuffix(fn.Signature.Params().At(1).Type().String(), "FileInfo") {
					return "the path handed to a filepath.Walk callback"
				}
			}
		case *ssa.Extract:
			return listed(t.Tuple, d+1, seen)
		case *ssa.MakeInterface:
			return listed(t.X, d+1, seen)
		}
		return ""
	}
	n := 0
	var bad []string
	for _, fn := range p.LibFuncs() {
		for _, b := range fn.Blocks {
			for _, in := range b.Instrs {
				ci, ok := in.(ssa.CallInstruction)
				if !ok {
					continue
				}
				c := ci.Common()
				if !(core.StaticCalleeIs(c, "os.Remove") || core.StaticCalleeIs(c, "os.RemoveAll")) || len(c.Args) == 0 {
					continue
				}
				n++
				if why := listed(c.Args[0], 0, map[ssa.Value]bool{}); why != "" {
					bad = append(bad, fmt.Sprintf("%s removes a path built from %s at %s: files the engine does not own by id (the directory lock file) can be deleted", core.FuncKey(fn), why, p.InstrPos(in)))
				}
			}
		}
	}
	if n < 1 {
		rep.Unk("VAC", "RM1", "expected >= 1 removal call in the library", "", fmt.Sprintf("found %d", n))
		return
	}
	rep.Check(len(bad) == 0, "RM1", "removal-targets-constructed", fmt.Sprintf("none of the %d os.Remove / os.RemoveAll calls takes a listed name", n), "", strings.Join(sortedStr(bad), "; "), true)
}
