package rules

import (
	"fmt"
	"go/token"
	"go/types"
	"sort"
	"strings"

	"golang.org/x/tools/go/ssa"

	"xkvverif/internal/core"
)

// ---------------------------------------------------------------------------------------------------
// E5: retention / freshness of byte slices (RT1, RT2, RT3 - DESIGN 2.5)
// ---------------------------------------------------------------------------------------------------

type retainer struct {
	p    *core.Prog
	memo map[string]*retRes
	prog map[string]bool
	// statistics
	Visited int
}

type retRes struct {
	retains bool
	why     []string
	returns bool // the function may return an alias of the parameter
}

func newRetainer(p *core.Prog) *retainer {
	return &retainer{p: p, memo: map[string]*retRes{}, prog: map[string]bool{}}
}

func isByteSliceOrString(t types.Type) bool {
	switch u := t.Underlying().(type) {
	case *types.Slice:
		return true
	case *types.Basic:
		return u.Info()&types.IsString != 0
	}
	return false
}

// aliasSet computes, inside fn, the values that may alias the source parameter (or contain an alias).
func (r *retainer) aliasSet(fn *ssa.Function, src ssa.Value) map[ssa.Value]bool {
	tainted := map[ssa.Value]bool{src: true}
	// fields of objects that hold an alias: key = field var + base origin; approximated by (field, base value)
	type fkey struct {
		f    *types.Var
		base ssa.Value
	}
	var held []fkey
	changed := true
	isT := func(v ssa.Value) bool { return v != nil && tainted[v] }
	for changed {
		changed = false
		mark := func(v ssa.Value) {
			if v != nil && !tainted[v] {
				tainted[v] = true
				changed = true
			}
		}
		for _, b := range fn.Blocks {
			for _, in := range b.Instrs {
				switch t := in.(type) {
				case *ssa.Slice:
					if isT(t.X) {
						mark(t)
					}
				case *ssa.Phi:
					for _, e := range t.Edges {
						if isT(e) {
							mark(t)
						}
					}
				case *ssa.ChangeType:
					if isT(t.X) {
						mark(t)
					}
				case *ssa.Convert:
					// []byte <-> string conversions copy; other conversions (named slice types) keep the array
					_, fromStr := t.X.Type().Underlying().(*types.Basic)
					_, toStr := t.Type().Underlying().(*types.Basic)
					if isT(t.X) && !fromStr && !toStr {
						mark(t)
					}
				case *ssa.MakeInterface:
					if isT(t.X) {
						mark(t)
					}
				case *ssa.ChangeInterface:
					if isT(t.X) {
						mark(t)
					}
				case *ssa.TypeAssert:
					if isT(t.X) {
						mark(t)
					}
				case *ssa.Extract:
					if isT(t.Tuple) {
						mark(t)
					}
				case *ssa.Call:
					if bi, ok := t.Call.Value.(*ssa.Builtin); ok {
						if bi.Name() == "append" && len(t.Call.Args) > 0 && isT(t.Call.Args[0]) {
							mark(t)
						}
						// zero-copy views: unsafe.String / StringData / Slice / SliceData / Add keep the array
						switch bi.Name() {
						case "String", "StringData", "Slice", "SliceData", "Add":
							if len(t.Call.Args) > 0 && isT(t.Call.Args[0]) {
								mark(t)
							}
						}
						continue
					}
					// callee may return an alias of a tainted argument
					for ai, a := range callArgs(t) {
						if !isT(a) {
							continue
						}
						for _, callee := range r.p.Callees(t) {
							pi := ai
							if callee.Blocks == nil || pi >= len(callee.Params) {
								continue
							}
							if res := r.analyse(callee, pi, 0); res.returns {
								mark(t)
							}
						}
					}
				case *ssa.Store:
					if !isT(t.Val) {
						continue
					}
					if f, base := core.FieldOfAddr(t.Addr); f != nil {
						held = append(held, fkey{f, base})
						// an object that holds an alias is itself a carrier when it is a fresh allocation
						for _, o := range core.Origins(base) {
							if al, ok := o.(*ssa.Alloc); ok && al.Parent() == fn {
								mark(al)
							}
						}
					}
					if ia, ok := t.Addr.(*ssa.IndexAddr); ok {
						for _, o := range core.Origins(ia.X) {
							switch o.(type) {
							case *ssa.Alloc, *ssa.MakeSlice:
								mark(o)
							}
						}
					}
					if al, ok := t.Addr.(*ssa.Alloc); ok && al.Parent() == fn {
						mark(al)
					}
				case *ssa.UnOp:
					if t.Op != token.MUL {
						continue
					}
					// load forwarded from a store of an alias into the same field of the same object
					if f, base := core.FieldOfAddr(t.X); f != nil {
						for _, h := range held {
							if h.f == f && sameOrigin(h.base, base) {
								mark(t)
							}
						}
					}
					if al, ok := t.X.(*ssa.Alloc); ok && tainted[al] {
						mark(t)
					}
				case *ssa.MakeClosure:
					for _, bnd := range t.Bindings {
						if isT(bnd) {
							mark(t)
						}
					}
				}
			}
		}
	}
	return tainted
}

func callArgs(c ssa.CallInstruction) []ssa.Value {
	cc := c.Common()
	var args []ssa.Value
	if cc.IsInvoke() {
		args = append(args, cc.Value)
	}
	args = append(args, cc.Args...)
	return args
}

// analyse decides whether fn retains (stores into outliving memory) an alias of its parameter #pi.
func (r *retainer) analyse(fn *ssa.Function, pi int, depth int) *retRes {
	key := fmt.Sprintf("%p#%d", fn, pi)
	if res, ok := r.memo[key]; ok {
		return res
	}
	res := &retRes{}
	if r.prog[key] || depth > 12 {
		return res
	}
	if fn.Blocks == nil || pi >= len(fn.Params) {
		r.memo[key] = res
		return res
	}
	r.prog[key] = true
	defer delete(r.prog, key)
	r.Visited++
	src := fn.Params[pi]
	tainted := r.aliasSet(fn, src)
	isT := func(v ssa.Value) bool { return v != nil && tainted[v] }
	add := func(why string) {
		res.retains = true
		if len(res.why) < 4 {
			res.why = append(res.why, why)
		}
	}
	for _, b := range fn.Blocks {
		for _, in := range b.Instrs {
			switch t := in.(type) {
			case *ssa.Return:
				for _, rv := range t.Results {
					if isT(rv) {
						res.returns = true
					}
				}
				for i := range t.Results {
					if isT(core.ReturnOperand(t, i)) {
						res.returns = true
					}
				}
			case *ssa.Store:
				if !isT(t.Val) {
					continue
				}
				if sh, root := sharedRoot(t.Addr, fn); sh {
					if r.killed(fn, t, tainted) {
						continue
					}
					add(fmt.Sprintf("%s stores it through %s at %s", core.FuncKey(fn), root, r.p.InstrPos(in)))
				}
			case *ssa.MapUpdate:
				if isT(t.Key) || isT(t.Value) {
					if sh, root := sharedRoot(t.Map, fn); sh {
						add(fmt.Sprintf("%s puts it into a map reachable through %s at %s", core.FuncKey(fn), root, r.p.InstrPos(in)))
					}
				}
			case *ssa.Send:
				if isT(t.X) {
					add(fmt.Sprintf("%s sends it on a channel at %s", core.FuncKey(fn), r.p.InstrPos(in)))
				}
			case ssa.CallInstruction:
				cc := t.Common()
				if _, ok := cc.Value.(*ssa.Builtin); ok {
					continue
				}
				if _, isGo := in.(*ssa.Go); isGo {
					for _, a := range callArgs(t) {
						if isT(a) {
							add(fmt.Sprintf("%s hands it to a goroutine at %s", core.FuncKey(fn), r.p.InstrPos(in)))
						}
					}
					continue
				}
				for ai, a := range callArgs(t) {
					if !isT(a) {
						continue
					}
					callees := r.p.Callees(t)
					if len(callees) == 0 {
						continue // dynamic call with no resolved callee (user callback): not followed
					}
					for _, callee := range callees {
						if callee.Blocks == nil {
							continue // assembly / intrinsic (hash kernels, memmove): frozen as non-retaining
						}
						if ai >= len(callee.Params) {
							continue
						}
						sub := r.analyse(callee, ai, depth+1)
						if sub.retains {
							// a deferred call that retains is still a retention; a kill by a LATER deferred call is handled in killed()
							add(fmt.Sprintf("%s passes it to %s at %s [%s]", core.FuncKey(fn), core.FuncKey(callee), r.p.InstrPos(in), strings.Join(sub.why, " <- ")))
						}
					}
				}
				// closures capturing an alias
				if mc, ok := cc.Value.(*ssa.MakeClosure); ok {
					for bi, bnd := range mc.Bindings {
						if isT(bnd) {
							if cf, ok := mc.Fn.(*ssa.Function); ok && bi < len(cf.FreeVars) {
								_ = cf // captured aliases inside closures are not tracked further (none in the library's retention paths)
							}
						}
					}
				}
			}
		}
	}
	r.memo[key] = res
	return res
}

// killed: the retaining store st (obj.F = alias) is overwritten with a non-alias on every path to the return:
// by a deferred call registered before it whose callee unconditionally stores a non-alias to the same field of
// the same object, or by a later store in a block that every path from st to a return passes through.
func (r *retainer) killed(fn *ssa.Function, st *ssa.Store, tainted map[ssa.Value]bool) bool {
	f, base := core.FieldOfAddr(st.Addr)
	if f == nil {
		return false
	}
	for _, b := range fn.Blocks {
		for _, in := range b.Instrs {
			switch t := in.(type) {
			case *ssa.Defer:
				if !dominatesInstr(t, st) {
					continue
				}
				callee := t.Call.StaticCallee()
				if callee == nil || callee.Blocks == nil {
					continue
				}
				for ai, a := range callArgs(t) {
					if !sameOrigin(a, base) || ai >= len(callee.Params) {
						continue
					}
					if storesNonAliasToField(callee, callee.Params[ai], f) {
						return true
					}
				}
			case *ssa.Store:
				if t == st {
					continue
				}
				f2, base2 := core.FieldOfAddr(t.Addr)
				if f2 != f || !sameOrigin(base2, base) || tainted[t.Val] {
					continue
				}
				if postDominates(t, st) {
					return true
				}
			}
		}
	}
	return false
}

// storesNonAliasToField: callee stores nil / a constant to param.f in its entry block (unconditionally).
func storesNonAliasToField(callee *ssa.Function, param ssa.Value, f *types.Var) bool {
	if len(callee.Blocks) == 0 {
		return false
	}
	for _, in := range callee.Blocks[0].Instrs {
		if st, ok := in.(*ssa.Store); ok {
			if f2, base := core.FieldOfAddr(st.Addr); f2 == f && base == param {
				if _, isConst := st.Val.(*ssa.Const); isConst {
					return true
				}
			}
		}
	}
	return false
}

// postDominates: every path from a's position to a Return passes through instruction k.
func postDominates(k, a ssa.Instruction) bool {
	if k.Block() == a.Block() {
		after := false
		for _, in := range a.Block().Instrs {
			if in == a {
				after = true
			}
			if after && in == k {
				return true
			}
		}
	}
	// is some return reachable from a without executing k?
	fn := a.Block().Parent()
	for _, ret := range core.Returns(fn) {
		if reachesAvoiding(a, ret, k) {
			return false
		}
	}
	return true
}

// ---- RT1 driver ---------------------------------------------------------------------------------------

func (r *retainer) checkParam(rep *core.Report, rule string, fn *ssa.Function, pname string) {
	pi := -1
	for i, prm := range fn.Params {
		if prm.Name() == pname {
			pi = i
		}
	}
	key := fmt.Sprintf("no-retention:%s(%s)", core.FuncKey(fn), pname)
	if pi < 0 {
		// parameter names are part of the exported signature's documentation only; fall back to position by type
		core.Failf("role unresolved: parameter %s of %s", pname, core.FuncKey(fn))
	}
	res := r.analyse(fn, pi, 0)
	sort.Strings(res.why)
	rep.Check(!res.retains, rule, key, "no alias of the caller's slice is reachable from memory that outlives the call", r.p.Pos(fn.Pos()), strings.Join(res.why, " || "), true)
}

func rt1(p *core.Prog, rep *core.Report, batchOnly bool) *retainer {
	rep.Rule("RT1", "no retention: for each public entry point and each []byte parameter, no alias of it (the slice, sub-slices, append results sharing its array, loads forwarded from stores of it, objects holding it) is stored into memory that outlives the call - followed through library callees, through the index interface into all three implementations and into the btree / skiplist dependencies' SSA; a retaining store is excused only if it is overwritten with a non-alias on every path to the return (incl. deferred calls); Value[:0] is not a kill")
	r := newRetainer(p)
	R := p.R
	if !batchOnly {
		r.checkParam(rep, "RT1", p.MustMethod(R.DB, "Put"), "key")
		r.checkParam(rep, "RT1", p.MustMethod(R.DB, "Put"), "value")
		r.checkParam(rep, "RT1", p.MustMethod(R.DB, "Delete"), "key")
		r.checkParam(rep, "RT1", p.MustMethod(R.DB, "Get"), "key")
	}
	r.checkParam(rep, "RT1", p.MustMethod(R.Batch, "Put"), "key")
	r.checkParam(rep, "RT1", p.MustMethod(R.Batch, "Put"), "value")
	r.checkParam(rep, "RT1", p.MustMethod(R.Batch, "Delete"), "key")
	r.checkParam(rep, "RT1", p.MustMethod(R.Batch, "Get"), "key")
	rep.Stats["rt_functions_analysed"] = r.Visited
	rep.Tables = append(rep.Tables, "functions without SSA bodies (assembly hash kernels, runtime intrinsics) are frozen as non-retaining; user callbacks are not followed",
		"[]byte<->string conversions, append(x, alias...) with x not an alias, copy(dst, alias) and bytes.Clone copy")
	return r
}

func rt1Batch(p *core.Prog, rep *core.Report) { rt1(p, rep, true) }

// rt3Parity: key ownership per index implementation.
func rt3Parity(p *core.Prog, rep *core.Report) {
	rep.Rule("RT3", "key ownership parity: the put method of each index implementation is analysed on its own for retention of the key parameter; all implementations must agree (none may keep the caller's slice)")
	r := newRetainer(p)
	impls := p.R.Impls(p.R.IndexIface)
	if len(impls) < 3 {
		core.Failf("vacuity guard: expected 3 index implementations, found %d", len(impls))
	}
	verdicts := map[bool][]string{}
	for _, im := range impls {
		var put *ssa.Function
		ms := p.SSA.MethodSets.MethodSet(types.NewPointer(im))
		for i := 0; i < ms.Len(); i++ {
			fn := p.SSA.MethodValue(ms.At(i))
			if fn != nil && fn.Signature.Params().Len() == 2 && fn.Signature.Results().Len() == 1 {
				put = fn
			}
		}
		if put == nil {
			core.Failf("role unresolved: put method of %s", im.Obj().Name())
		}
		res := r.analyse(put, 1, 0)
		verdicts[res.retains] = append(verdicts[res.retains], im.Obj().Name())
		rep.Check(!res.retains, "RT3", "key-ownership:"+im.Obj().Name(), "the index implementation stores its own copy of the key", p.Pos(put.Pos()), strings.Join(res.why, " || "), true)
	}
	rep.Check(len(verdicts[true]) == 0 || len(verdicts[false]) == 0, "RT3", "key-ownership-parity", "all index implementations agree on key ownership", "", fmt.Sprintf("retaining: %v, copying: %v", verdicts[true], verdicts[false]), true)
}

// ---- RT2: fresh results ------------------------------------------------------------------------------------

type fresher struct {
	p    *core.Prog
	seen map[string]bool
}

// nonFresh returns descriptions of origins of v (a []byte in fn) that are not allocations made during the call.
func (f *fresher) nonFresh(fn *ssa.Function, v ssa.Value, depth int, argOf func(pi int) (ssa.Value, *ssa.Function)) []string {
	if v == nil || depth > 10 {
		return nil
	}
	var out []string
	for _, o := range core.Origins(v) {
		switch t := o.(type) {
		case *ssa.Const:
			// nil
		case *ssa.MakeSlice, *ssa.Alloc:
			// fresh
		case *ssa.Slice:
			out = append(out, f.nonFresh(fn, t.X, depth+1, argOf)...)
		case *ssa.Extract:
			if c, ok := t.Tuple.(*ssa.Call); ok {
				out = append(out, f.fromCall(fn, c, t.Index, depth, argOf)...)
			} else {
				out = append(out, "unrecognised tuple at "+f.p.InstrPos(t))
			}
		case *ssa.Call:
			if bi, ok := t.Call.Value.(*ssa.Builtin); ok {
				if bi.Name() == "append" {
					out = append(out, f.nonFresh(fn, t.Call.Args[0], depth+1, argOf)...)
					continue
				}
			}
			out = append(out, f.fromCall(fn, t, 0, depth, argOf)...)
		case *ssa.Parameter:
			pi := -1
			for i, p := range fn.Params {
				if p == t {
					pi = i
				}
			}
			if argOf != nil && pi >= 0 {
				if a, caller := argOf(pi); a != nil {
					out = append(out, f.nonFresh(caller, a, depth+1, nil)...)
					continue
				}
			}
			out = append(out, fmt.Sprintf("parameter %s of %s (caller-owned memory)", t.Name(), core.FuncKey(fn)))
		case *ssa.UnOp:
			if fld, _ := core.LoadedField(t); fld != nil {
				out = append(out, fmt.Sprintf("field %s loaded at %s (memory that outlives the call: pooled buffer / staged record / mapping)", ownerName(f.p, fld), f.p.InstrPos(t)))
			} else {
				out = append(out, "memory load at "+f.p.InstrPos(t))
			}
		default:
			out = append(out, fmt.Sprintf("%T at %s", o, f.p.InstrPos(o.(ssa.Instruction))))
		}
	}
	return out
}

func (f *fresher) fromCall(fn *ssa.Function, c *ssa.Call, idx int, depth int, argOf func(int) (ssa.Value, *ssa.Function)) []string {
	callees := f.p.Callees(c)
	if len(callees) == 0 {
		return []string{"result of an unresolved call at " + f.p.InstrPos(c)}
	}
	var out []string
	for _, callee := range callees {
		if callee.Blocks == nil {
			out = append(out, "result of body-less "+core.FuncKey(callee))
			continue
		}
		switch callee.String() {
		case "bytes.Clone", "slices.Clone[[]byte byte]":
			continue
		}
		if strings.Contains(callee.String(), "bytebufferpool") || callee.String() == "(*sync.Pool).Get" {
			out = append(out, "pooled buffer from "+core.FuncKey(callee)+" at "+f.p.InstrPos(c))
			continue
		}
		args := callArgs(c)
		for _, r := range core.Returns(callee) {
			rv := core.ReturnOperand(r, idx)
			out = append(out, f.nonFresh(callee, rv, depth+1, func(pi int) (ssa.Value, *ssa.Function) {
				if pi < len(args) {
					return args[pi], fn
				}
				return nil, nil
			})...)
		}
	}
	return out
}

func rt2(p *core.Prog, rep *core.Report) {
	rep.Rule("RT2", "fresh results: every []byte returned by DB.Get, Batch.Get, Iterator.Value and handed to Fold's callback originates, on every path and through every callee, from an allocation made during the call (make / append to nil or to a fresh slice); pooled buffers, the mmap region, staged records and caller-owned parameters are non-fresh origins")
	f := &fresher{p: p}
	R := p.R
	for _, fn := range []*ssa.Function{p.MustMethod(R.DB, "Get"), p.MustMethod(R.Batch, "Get"), p.MustMethod(R.Iterator, "Value")} {
		var bad []string
		for _, r := range core.Returns(fn) {
			bad = append(bad, f.nonFresh(fn, core.ReturnOperand(r, 0), 0, nil)...)
		}
		bad = sortedStr(bad)
		rep.Check(len(bad) == 0, "RT2", "fresh-result:"+core.FuncKey(fn), "the returned value is a private copy", p.Pos(fn.Pos()), strings.Join(bad, " || "), true)
	}
	fold := p.MustMethod(R.DB, "Fold")
	n := 0
	for _, b := range fold.Blocks {
		for _, in := range b.Instrs {
			c, ok := in.(*ssa.Call)
			if !ok || c.Common().StaticCallee() != nil || c.Common().IsInvoke() {
				continue
			}
			if _, isParam := c.Common().Value.(*ssa.Parameter); !isParam || len(c.Common().Args) != 2 {
				continue
			}
			n++
			bad := sortedStr(f.nonFresh(fold, c.Common().Args[1], 0, nil))
			rep.Check(len(bad) == 0, "RT2", "fresh-result:(*xixi_kv.DB).Fold-callback-value", "the value handed to the callback is a private copy", p.InstrPos(in), strings.Join(bad, " || "), true)
		}
	}
	if n == 0 {
		core.Failf("vacuity guard: RT2 found no callback call in Fold")
	}
}
