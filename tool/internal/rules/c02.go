package rules

import (
	"golang.org/x/tools/go/ssa"

	"xkvverif/internal/core"
)

func C02(p *core.Prog, rep *core.Report) {
	v := newVF(p, rep)
	v.vf1()
	v.vf3Tagging()
	v.vf3Replay()
	poolReset(p, rep)
	bd2EOF(p, rep)
	ps8Readers(p, rep, "open")
	mmapCloseTruncates(p, rep)
	codecAgreement(p, rep)
	newMergeCtx(p, rep).mg1Guard()
	rp1SkipBelow(p, rep)
	bt2FlushThenStage(p, rep)
	rep.NotCovered = append(rep.NotCovered, "equality of the two dumps over all histories and configuration pairs; ordering of files by name; adoption of merges (C06)")
}

func C04(p *core.Prog, rep *core.Report) {
	v := newVF(p, rep)
	v.vf1()
	v.vf3Tagging()
	v.vf3Replay()
	v.vf3Merge()
	poolReset(p, rep)
	ps6SealLast(p, rep)
	ps1Batch(p, rep)
	staleActive(p, rep)
	bt2FlushThenStage(p, rep)
	rep.Assumptions = append(rep.Assumptions, "batch ids are unique across batches and restarts (snowflake time-based ids; not decided)")
	rep.NotCovered = append(rep.NotCovered, "'either all or none after any crash instant'; live visibility when the seal write fails; uniqueness of batch ids")
}

func C05(p *core.Prog, rep *core.Report) {
	v := newVF(p, rep)
	v.vf2(func(fn *ssa.Function) bool { return core.RecvNamed(fn) == p.R.Batch })
	bt1PutType(p, rep)
	poolReset(p, rep)
	full := core.NewReport("C09")
	runLockRules(p, full, false)
	for k, d := range full.Rules {
		if k == "LK8" || k == "LK5" {
			rep.Rule(k, d)
		}
	}
	for _, o := range full.Obls {
		if o.Rule == "LK8" || (o.Rule == "LK5" && containsAny(o.Construct, "Batch", "NewBatch")) {
			rep.Add(*o)
		}
	}
	stagedOrder(p, rep)
	rt1Batch(p, rep)
	rep.NotCovered = append(rep.NotCovered, "equality with a layered reference map for all op sequences and on-disk placements")
}

func containsAny(s string, subs ...string) bool {
	for _, x := range subs {
		if len(x) > 0 && len(s) >= len(x) {
			for i := 0; i+len(x) <= len(s); i++ {
				if s[i:i+len(x)] == x {
					return true
				}
			}
		}
	}
	return false
}
