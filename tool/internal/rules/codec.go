package rules

import (
	"fmt"
	"go/constant"
	"go/token"
	"go/types"
	"sort"
	"strings"

	"golang.org/x/tools/go/ssa"

	"xkvverif/internal/core"
)

// ---------------------------------------------------------------------------------------------------
// E6: writer/reader agreement (CD1, CD2, CD3, CD5, CD7 - DESIGN 2.6)
// ---------------------------------------------------------------------------------------------------

var codecCalls = map[string]string{
	"encoding/binary.PutVarint":                   "varint",
	"encoding/binary.Varint":                      "varint",
	"encoding/binary.AppendVarint":                "varint",
	"encoding/binary.PutUvarint":                  "uvarint",
	"encoding/binary.Uvarint":                     "uvarint",
	"encoding/binary.AppendUvarint":               "uvarint",
	"(encoding/binary.littleEndian).PutUint16":    "u16le",
	"(encoding/binary.littleEndian).Uint16":       "u16le",
	"(encoding/binary.littleEndian).PutUint32":    "u32le",
	"(encoding/binary.littleEndian).Uint32":       "u32le",
	"(encoding/binary.littleEndian).AppendUint32": "u32le",
	"(encoding/binary.littleEndian).PutUint64":    "u64le",
	"(encoding/binary.littleEndian).Uint64":       "u64le",
	"(encoding/binary.bigEndian).PutUint16":       "u16be",
	"(encoding/binary.bigEndian).Uint16":          "u16be",
	"(encoding/binary.bigEndian).PutUint32":       "u32be",
	"(encoding/binary.bigEndian).Uint32":          "u32be",
	"(encoding/binary.bigEndian).PutUint64":       "u64be",
	"(encoding/binary.bigEndian).Uint64":          "u64be",
}

type codecSeq struct {
	fn     *ssa.Function
	prefix int64    // number of fixed bytes before the first variable-width field
	events []string // in dominator-preorder / instruction order; conditional events carry "?cond"
}

// blockCond renders the condition under which a block executes when it is controlled by a comparison of a
// byte-typed value with a constant (the List-only tail of the metadata codec); "" = unconditional / unknown.
func blockCond(b *ssa.BasicBlock) string {
	for _, p := range b.Preds {
		if len(b.Preds) != 1 {
			break
		}
		iff, ok := p.Instrs[len(p.Instrs)-1].(*ssa.If)
		if !ok {
			continue
		}
		bo, ok := iff.Cond.(*ssa.BinOp)
		if !ok || bo.Op != token.EQL {
			continue
		}
		if c, ok := bo.Y.(*ssa.Const); ok && c.Value != nil && p.Succs[0] == b {
			return "?==" + c.Value.String()
		}
	}
	return ""
}

func codecSequence(fn *ssa.Function) codecSeq {
	cs := codecSeq{fn: fn, prefix: -1}
	for _, b := range fn.DomPreorder() {
		cond := blockCond(b)
		for _, in := range b.Instrs {
			ci, ok := in.(ssa.CallInstruction)
			if !ok {
				continue
			}
			f := ci.Common().StaticCallee()
			if f == nil {
				continue
			}
			kind, ok := codecCalls[f.String()]
			if !ok {
				continue
			}
			if cs.prefix < 0 {
				// the slice the first variable-width field is written to / read from starts at the prefix length
				for _, a := range ci.Common().Args {
					if sl, ok := a.(*ssa.Slice); ok {
						if sl.Low == nil {
							cs.prefix = 0
						} else if k, ok := constInt(sl.Low); ok {
							cs.prefix = k
						} else if ph, ok := sl.Low.(*ssa.Phi); ok {
							_ = ph
						}
					}
				}
				if cs.prefix < 0 {
					cs.prefix = 0
				}
			}
			cs.events = append(cs.events, kind+cond)
		}
	}
	return cs
}

func (c codecSeq) String() string {
	return fmt.Sprintf("prefix=%d [%s]", c.prefix, strings.Join(c.events, " "))
}

func hasCodecEvents(fn *ssa.Function) bool { return len(codecSequence(fn).events) > 0 }

// cd1 compares an encoder with its decoders.
func cd1(p *core.Prog, rep *core.Report, family string, enc *ssa.Function, decs ...*ssa.Function) {
	if enc == nil {
		core.Failf("role unresolved: encoder of family %s", family)
	}
	e := codecSequence(enc)
	if len(e.events) == 0 {
		core.Failf("vacuity guard: encoder %s has no codec events", core.FuncKey(enc))
	}
	for _, d := range decs {
		if d == nil {
			core.Failf("role unresolved: decoder of family %s", family)
		}
		ds := codecSequence(d)
		ok := e.prefix == ds.prefix && len(e.events) == len(ds.events)
		if ok {
			for i := range e.events {
				if e.events[i] != ds.events[i] {
					ok = false
				}
			}
		}
		rep.Check(ok, "CD1", "codec:"+family+":"+core.FuncKey(d), "decoder reads the fields the encoder writes: same fixed prefix, same order, same width and signedness, same condition", p.Pos(d.Pos()),
			fmt.Sprintf("encoder %s: %s  vs decoder %s: %s", core.FuncKey(enc), e, core.FuncKey(d), ds), true)
	}
}

func codecAgreement(p *core.Prog, rep *core.Report) {
	rep.Rule("CD1", "codec sequence agreement: for each (encoder, decoder...) family the ordered list of variable/fixed-width codec calls (varint vs uvarint, width, endianness), the fixed prefix length and the condition of optional fields are identical")
	df := core.ModPath + "/datafile"
	cd1(p, rep, "log-record", p.Func(df, "EncodeLogRecord"), p.Func(df, "DecodeLogRecord"), p.Func(df, "DecodeLogRecordValue"))
	cd1(p, rep, "hint-record", p.Func(df, "EncodeHintRecord"), p.Func(df, "DecodeHintRecord"))
}

func metadataCodec(p *core.Prog, rep *core.Report) {
	rep.Rule("CD1", "codec sequence agreement: for each (encoder, decoder...) family the ordered list of variable/fixed-width codec calls (varint vs uvarint, width, endianness), the fixed prefix length and the condition of optional fields are identical")
	var enc, dec *ssa.Function
	for _, fn := range p.LibFuncs() {
		if fn.Package() == nil || fn.Package().Pkg.Path() != core.ModPath+"/datatype" || !hasCodecEvents(fn) {
			continue
		}
		if n := core.RecvNamed(fn); n != nil && n.Obj().Name() == "metadata" {
			enc = fn
		}
		if fn.Signature.Recv() == nil && fn.Signature.Results().Len() == 1 && strings.HasSuffix(fn.Signature.Results().At(0).Type().String(), "datatype.metadata") {
			dec = fn
		}
	}
	cd1(p, rep, "metadata", enc, dec)
}

// ---- CD2: chunk header layout --------------------------------------------------------------------------

type hdrLayout struct {
	crc, length [2]int64
	typ         int64
	coverFrom   int64
	ok          bool
	why         string
}

func (h hdrLayout) String() string {
	return fmt.Sprintf("crc[%d,%d) len[%d,%d) type@%d checksum-from@%d", h.crc[0], h.crc[1], h.length[0], h.length[1], h.typ, h.coverFrom)
}

func sliceRange(v ssa.Value) (lo, hi int64, ok bool) {
	sl, isSl := v.(*ssa.Slice)
	if !isSl {
		return 0, 0, false
	}
	lo, hi = 0, -1
	if sl.Low != nil {
		k, okk := constInt(sl.Low)
		if !okk {
			return 0, 0, false
		}
		lo = k
	}
	if sl.High != nil {
		k, okk := constInt(sl.High)
		if okk {
			hi = k
		}
	}
	return lo, hi, true
}

func layoutOf(p *core.Prog, fn *ssa.Function, writer bool) hdrLayout {
	h := hdrLayout{typ: -1, coverFrom: -1, crc: [2]int64{-1, -1}, length: [2]int64{-1, -1}}
	chunkT := map[int64]bool{}
	for _, v := range p.ConstsOf(core.ModPath+"/datafile", "ChunkType") {
		i, _ := constant.Int64Val(v)
		chunkT[i] = true
	}
	for _, b := range fn.Blocks {
		for _, in := range b.Instrs {
			switch {
			case isLEUint(in, "16") || calleeIs(in, "(encoding/binary.littleEndian).PutUint16"):
				if lo, hi, ok := sliceRange(in.(ssa.CallInstruction).Common().Args[1]); ok {
					h.length = [2]int64{lo, hi}
				}
			case isLEUint(in, "32") || calleeIs(in, "(encoding/binary.littleEndian).PutUint32"):
				if lo, hi, ok := sliceRange(in.(ssa.CallInstruction).Common().Args[1]); ok {
					h.crc = [2]int64{lo, hi}
				}
			case calleeIs(in, crcIEEE):
				if lo, _, ok := sliceRange(in.(ssa.CallInstruction).Common().Args[0]); ok {
					h.coverFrom = lo
				}
			}
			if writer {
				if st, ok := in.(*ssa.Store); ok {
					if ia, ok := st.Addr.(*ssa.IndexAddr); ok {
						if k, ok := constInt(ia.Index); ok && isByte(st.Val.Type()) {
							// the stored value is the chunk type (a phi of ChunkType constants)
							isType := core.AllOrigins(st.Val, func(o ssa.Value) bool {
								c, ok := constInt(o)
								return ok && chunkT[c]
							})
							if isType {
								h.typ = k
							}
						}
					}
				}
			} else {
				// the type byte is the one returned as result #1
				for _, r := range core.Returns(fn) {
					v := core.ReturnOperand(r, 1)
					if u, ok := v.(*ssa.UnOp); ok && u.Op == token.MUL {
						if ia, ok := u.X.(*ssa.IndexAddr); ok {
							if k, ok := constInt(ia.Index); ok {
								h.typ = k
							}
						}
					}
				}
			}
		}
	}
	return h
}

func isByte(t types.Type) bool {
	b, ok := t.Underlying().(*types.Basic)
	return ok && (b.Kind() == types.Uint8 || b.Kind() == types.Byte)
}

// chunkWriter: function of datafile that computes a CRC and stores it with PutUint32.
func chunkWriter(p *core.Prog) *ssa.Function {
	var found *ssa.Function
	for _, fn := range p.LibFuncs() {
		if fn.Package() == nil || fn.Package().Pkg.Path() != core.ModPath+"/datafile" {
			continue
		}
		crc, put := false, false
		for _, b := range fn.Blocks {
			for _, in := range b.Instrs {
				if calleeIs(in, crcIEEE) {
					crc = true
				}
				if calleeIs(in, "(encoding/binary.littleEndian).PutUint32") {
					put = true
				}
			}
		}
		if crc && put {
			found = fn
		}
	}
	if found == nil {
		core.Failf("role unresolved: chunk writer (CRC + PutUint32)")
	}
	return found
}

func cd2Header(p *core.Prog, rep *core.Report) (hdrSize int64) {
	rep.Rule("CD2", "chunk header layout: the byte ranges used for checksum, length and type by the chunk writer and by the chunk decoder are equal, tile [0, headerSize) and the checksum covers everything after the stored sum")
	w, d := chunkWriter(p), chunkDecoder(p)
	lw, ld := layoutOf(p, w, true), layoutOf(p, d, false)
	same := lw.crc == ld.crc && lw.length == ld.length && lw.typ == ld.typ && lw.coverFrom == ld.coverFrom
	tiles := lw.crc[0] == 0 && lw.crc[1] == lw.length[0] && lw.length[1] == lw.typ && lw.coverFrom == lw.crc[1]
	rep.Check(same && tiles, "CD2", "chunk-header-layout", "writer and decoder agree on the header layout", p.Pos(w.Pos()),
		fmt.Sprintf("writer %s: %s  vs decoder %s: %s (tiles=%v)", core.FuncKey(w), lw, core.FuncKey(d), ld, tiles), true)
	// the writer's checksum also covers the payload (crc32.Update over the data slice)
	upd := false
	for _, b := range w.Blocks {
		for _, in := range b.Instrs {
			if calleeIs(in, crcUpdate) {
				upd = true
			}
		}
	}
	rep.Check(upd, "CD2", "writer-checksum-covers-payload", "the writer extends the header checksum over the payload", p.Pos(w.Pos()), "no crc32.Update over the payload in the chunk writer", false)
	return lw.typ + 1
}

// ---- CD3: pad / skip threshold ------------------------------------------------------------------------------

// evalExpr evaluates an integer SSA expression tree over exactly one free variable.
func evalExpr(v ssa.Value, free ssa.Value, x int64) (int64, bool) {
	if v == free {
		return x, true
	}
	if k, ok := constInt(v); ok {
		return k, true
	}
	switch u := v.(type) {
	case *ssa.BinOp:
		a, ok1 := evalExpr(u.X, free, x)
		b, ok2 := evalExpr(u.Y, free, x)
		if !ok1 || !ok2 {
			return 0, false
		}
		switch u.Op {
		case token.ADD:
			return a + b, true
		case token.SUB:
			return a - b, true
		}
	case *ssa.Convert:
		return evalExpr(u.X, free, x)
	}
	return 0, false
}

func evalCmp(bo *ssa.BinOp, free ssa.Value, x int64) (bool, bool) {
	a, ok1 := evalExpr(bo.X, free, x)
	b, ok2 := evalExpr(bo.Y, free, x)
	if !ok1 || !ok2 {
		return false, false
	}
	switch bo.Op {
	case token.LSS:
		return a < b, true
	case token.LEQ:
		return a <= b, true
	case token.GTR:
		return a > b, true
	case token.GEQ:
		return a >= b, true
	case token.EQL:
		return a == b, true
	case token.NEQ:
		return a != b, true
	}
	return false, false
}

// freeVar returns the single non-constant leaf of an arithmetic expression.
func freeVar(v ssa.Value) ssa.Value {
	switch u := v.(type) {
	case *ssa.Const:
		return nil
	case *ssa.BinOp:
		if u.Op == token.ADD || u.Op == token.SUB {
			a, b := freeVar(u.X), freeVar(u.Y)
			if a != nil && b != nil && a != b {
				return nil
			}
			if a != nil {
				return a
			}
			return b
		}
	case *ssa.Convert:
		return freeVar(u.X)
	}
	return v
}

// thresholdIf finds the "fewer than a header's worth of bytes left in the block" test of fn: an If whose
// condition is cmp(var + c1, c2) with both constants; returns the If, the variable and the constants.
func thresholdIfs(fn *ssa.Function) []*ssa.If {
	var out []*ssa.If
	for _, b := range fn.Blocks {
		iff, ok := b.Instrs[len(b.Instrs)-1].(*ssa.If)
		if !ok {
			continue
		}
		bo, ok := iff.Cond.(*ssa.BinOp)
		if !ok {
			continue
		}
		hasAdd := false
		for _, side := range []ssa.Value{bo.X, bo.Y} {
			if inner, ok := side.(*ssa.BinOp); ok && (inner.Op == token.ADD || inner.Op == token.SUB) {
				if _, isC := constInt(inner.Y); isC {
					hasAdd = true
				}
				if _, isC := constInt(inner.X); isC {
					hasAdd = true
				}
			}
		}
		_, c1 := constInt(bo.Y)
		_, c2 := constInt(bo.X)
		if hasAdd && (c1 || c2) {
			out = append(out, iff)
		}
	}
	return out
}

// truthSet evaluates "the action block executes" over the domain, where the action is reached through the
// chain of Ifs starting at first (nested single-variable conjunctions on the taken side).
func truthSet(first *ssa.If, domain int64) (set []int64, free ssa.Value, ok bool) {
	bo := first.Cond.(*ssa.BinOp)
	free = freeVar(bo.X)
	if free == nil {
		free = freeVar(bo.Y)
	}
	if free == nil {
		return nil, nil, false
	}
	// conjunct chain: the true successor consisting solely of another If over the same variable
	conds := []*ssa.BinOp{bo}
	cur := first.Block().Succs[0]
	for len(cur.Instrs) >= 1 {
		iff, isIf := cur.Instrs[len(cur.Instrs)-1].(*ssa.If)
		if !isIf {
			break
		}
		b2, isBo := iff.Cond.(*ssa.BinOp)
		if !isBo {
			break
		}
		// all other instructions of the block must belong to the condition's own expression
		pure := true
		for _, in := range cur.Instrs[:len(cur.Instrs)-1] {
			if _, isB := in.(*ssa.BinOp); !isB {
				if _, isC := in.(*ssa.Convert); !isC {
					pure = false
				}
			}
		}
		f2 := freeVar(b2.X)
		if f2 == nil {
			f2 = freeVar(b2.Y)
		}
		if !pure || f2 != free {
			break
		}
		conds = append(conds, b2)
		cur = cur.Succs[0]
	}
	for x := int64(0); x < domain; x++ {
		all := true
		for _, c := range conds {
			t, okc := evalCmp(c, free, x)
			if !okc {
				return nil, nil, false
			}
			if !t {
				all = false
				break
			}
		}
		if all {
			set = append(set, x)
		}
	}
	return set, free, true
}

func setString(s []int64) string {
	if len(s) == 0 {
		return "{}"
	}
	sort.Slice(s, func(i, j int) bool { return s[i] < s[j] })
	contig := true
	for i := 1; i < len(s); i++ {
		if s[i] != s[i-1]+1 {
			contig = false
		}
	}
	if contig {
		return fmt.Sprintf("{%d..%d}", s[0], s[len(s)-1])
	}
	return fmt.Sprintf("%d values from %d to %d", len(s), s[0], s[len(s)-1])
}

// blockSizeConst: the multiplier (*DataFile).Size applies to the block counter.
func blockSizeConst(p *core.Prog) int64 {
	sz := p.MustMethod(p.R.DataFile, "Size")
	for _, b := range sz.Blocks {
		for _, in := range b.Instrs {
			if bo, ok := in.(*ssa.BinOp); ok && bo.Op == token.MUL {
				for _, side := range []ssa.Value{bo.X, bo.Y} {
					if k, ok := constInt(side); ok && k > 1 {
						return k
					}
				}
			}
		}
	}
	core.Failf("role unresolved: block size (multiplier in (*DataFile).Size)")
	return 0
}

// tailPredicates: Ifs of fn whose condition is a closed comparison over one free variable and constants and whose
// truth set over [0, blockSize) is a small, non-empty set of positions at the end of the block - "fewer than a
// header's worth of bytes left". Nested single-variable conjuncts on the taken side are folded in by truthSet.
func tailPredicates(fn *ssa.Function, blockSize, header int64) (out []*ssa.If, sets [][]int64) {
	for _, b := range fn.Blocks {
		iff, ok := b.Instrs[len(b.Instrs)-1].(*ssa.If)
		if !ok {
			continue
		}
		bo, ok := iff.Cond.(*ssa.BinOp)
		if !ok {
			continue
		}
		switch bo.Op {
		case token.LSS, token.LEQ, token.GTR, token.GEQ:
		default:
			continue
		}
		fx, fy := freeVar(bo.X), freeVar(bo.Y)
		if (fx == nil) == (fy == nil) {
			continue // need exactly one side with a variable
		}
		set, _, ok := truthSet(iff, blockSize)
		if !ok || len(set) == 0 || int64(len(set)) > 4*header {
			continue
		}
		// also accept the complement form (the 'enough room' branch is the taken one)
		if set[0] < blockSize-4*header {
			continue
		}
		out = append(out, iff)
		sets = append(sets, set)
	}
	return
}

func cd3Threshold(p *core.Prog, rep *core.Report, header int64) (blockSize, hdr int64) {
	rep.Rule("CD3", "pad/skip threshold: the writer's 'pad the block tail' predicate and the sequential reader's 'skip to the next block' predicate - found as the closed single-variable comparisons whose truth set is a small set of positions at the end of a block, whatever their arithmetic form - have the same truth set over the whole domain [0, blockSize) (evaluated exhaustively; constant folding of an extracted formula, not execution), and that set has exactly header-size elements")
	blockSize = blockSizeConst(p)
	w := chunkWriter(p)
	var seq *ssa.Function
	for _, fn := range chunkReaders(p) {
		if core.RecvNamed(fn) == p.R.DataReader {
			seq = fn
		}
	}
	if seq == nil {
		core.Failf("role unresolved: sequential chunk reader")
	}
	// the pad test may live in the chunk writer or in a helper it is called with (same package)
	var wi []*ssa.If
	var wsets [][]int64
	for _, fn := range p.LibFuncs() {
		if fn.Package() == nil || fn.Package().Pkg.Path() != core.ModPath+"/datafile" || core.RecvNamed(fn) != p.R.DataFile {
			continue
		}
		is, ss := tailPredicates(fn, blockSize, header)
		wi, wsets = append(wi, is...), append(wsets, ss...)
	}
	ri, rsets := tailPredicates(seq, blockSize, header)
	if len(wi) == 0 || len(ri) == 0 {
		rep.Unk("CD3", "pad-skip-threshold", "writer and reader thresholds extracted", p.Pos(w.Pos()), fmt.Sprintf("tail predicates found: writer %d, reader %d - no closed single-variable comparison selects the end of a block", len(wi), len(ri)))
		return blockSize, header
	}
	ws, rs := wsets[0], rsets[0]
	same := len(ws) == len(rs)
	if same {
		for i := range ws {
			if ws[i] != rs[i] {
				same = false
			}
		}
	}
	rep.Check(same, "CD3", "pad-skip-threshold", fmt.Sprintf("writer pads iff used in %s; reader skips iff offset in %s (domain [0,%d))", setString(ws), setString(rs), blockSize), p.InstrPos(wi[0]),
		fmt.Sprintf("truth sets differ: writer %s at %s, reader %s at %s - a record that ends where only one side crosses the threshold is unreadable", setString(ws), p.InstrPos(wi[0]), setString(rs), p.InstrPos(ri[0])), true)
	rep.Check(int64(len(ws)) == header, "CD3", "pad-width", fmt.Sprintf("the padded tails are exactly the %d positions that cannot hold a chunk header plus one payload byte", header), p.InstrPos(wi[0]), fmt.Sprintf("pad set has %d elements, header size is %d", len(ws), header), true)
	return blockSize, header
}

func cd5Width(p *core.Prog, rep *core.Report, blockSize, header int64) {
	rep.Rule("CD5", "field width: the largest chunk payload (blockSize - headerSize) fits the 16-bit on-disk length field; the scratch buffers are at least as large as the encodings that use them")
	if blockSize == 0 {
		return
	}
	rep.Check(blockSize-header <= 65535, "CD5", "length-field-width", fmt.Sprintf("max chunk payload %d <= 65535", blockSize-header), "", fmt.Sprintf("max chunk payload %d does not fit the uint16 length field", blockSize-header), false)
	// exported buffer-size constants
	df := p.Pkg(core.ModPath + "/datafile").Pkg.Scope()
	get := func(n string) int64 {
		c, ok := df.Lookup(n).(*types.Const)
		if !ok {
			core.Failf("role unresolved: datafile.%s", n)
		}
		v, _ := constant.Int64Val(c.Val())
		return v
	}
	// hint position: 4 uvarints of uint32 range -> 4*5; record header: 1 + 2 varint(int, 32-bit range assumed by the comment) + uvarint64
	rep.Check(get("MaxLogRecordPosSize") >= 4*5, "CD5", "hint-pos-buffer", "MaxLogRecordPosSize holds four 32-bit uvarints", "", "hint position buffer too small", false)
	rep.Check(get("MaxLogRecordHeaderSize") >= 1+5+5+10, "CD5", "record-header-buffer", "MaxLogRecordHeaderSize holds type + two 32-bit varints + one 64-bit uvarint", "", "record header buffer too small", false)
}

// cd7LogicalSize: every DataFile method that writes advances the logical size on its success path.
func cd7LogicalSize(p *core.Prog, rep *core.Report) {
	rep.Rule("CD7", "logical-size pairing: every DataFile method that invokes ReadWriter.Write stores every field that Size() reads on the success path after the write, so the logical size tracks the physical size")
	sizeFn := p.MustMethod(p.R.DataFile, "Size")
	fields := map[*types.Var]bool{}
	for _, b := range sizeFn.Blocks {
		for _, in := range b.Instrs {
			if u, ok := in.(*ssa.UnOp); ok {
				if f, _ := core.LoadedField(u); f != nil && fieldOwner(p, f) == p.R.DataFile {
					fields[f] = true
				}
			}
		}
	}
	if len(fields) == 0 {
		core.Failf("role unresolved: fields read by (*DataFile).Size")
	}
	n := 0
	for _, fn := range p.LibFuncs() {
		if core.RecvNamed(fn) != p.R.DataFile {
			continue
		}
		var wcall ssa.Instruction
		for _, b := range fn.Blocks {
			for _, in := range b.Instrs {
				if ci, ok := in.(ssa.CallInstruction); ok && isWritePrimitive(p, ci.Common()) {
					wcall = in
				}
			}
		}
		if wcall == nil {
			continue
		}
		n++
		// the success edge of the write's error test
		var okEdge *ssa.If
		okTaken := false
		for _, b := range fn.Blocks {
			iff, isIf := b.Instrs[len(b.Instrs)-1].(*ssa.If)
			if !isIf {
				continue
			}
			bo, isBo := iff.Cond.(*ssa.BinOp)
			if !isBo || !core.IsNilConst(bo.Y) {
				continue
			}
			if c, idx := extractOf(bo.X); c != nil && ssa.Instruction(c) == wcall && idx == 1 {
				okEdge = iff
				okTaken = bo.Op == token.EQL
			}
		}
		var miss []string
		for f := range fields {
			stored := false
			for _, b := range fn.Blocks {
				for _, in := range b.Instrs {
					if sf, _, _ := core.StoreField(in); sf == f {
						if okEdge != nil && edgeDominates(okEdge, okTaken, b) {
							stored = true
						}
					}
				}
			}
			if !stored {
				miss = append(miss, f.Name())
			}
		}
		sort.Strings(miss)
		rep.Check(len(miss) == 0, "CD7", "logical-size:"+core.FuncKey(fn), "a successful write is followed by the update of the logical end of file", p.InstrPos(wcall), "not updated after the write: "+strings.Join(miss, ", ")+" (Size() no longer equals the physical size; the next append computes wrong positions)", true)
	}
	if n < 2 {
		core.Failf("vacuity guard: CD7 expected >= 2 writing DataFile methods, found %d", n)
	}
}

// wr1SingleWrite (C03.S1): every appending DataFile method issues exactly one Write call, outside any cycle.
func wr1SingleWrite(p *core.Prog, rep *core.Report) {
	rep.Rule("WR1", "one write call per append: every DataFile method that appends issues exactly one ReadWriter.Write call per invocation and not inside a loop (a record or a whole batch flush is framed into one buffer first), so a crash cannot leave part of a record written by a completed earlier call")
	n := 0
	for _, fn := range p.LibFuncs() {
		if core.RecvNamed(fn) != p.R.DataFile {
			continue
		}
		var ws []ssa.Instruction
		for _, b := range fn.Blocks {
			for _, in := range b.Instrs {
				if ci, ok := in.(ssa.CallInstruction); ok && isWritePrimitive(p, ci.Common()) {
					ws = append(ws, in)
				}
			}
		}
		if len(ws) == 0 {
			continue
		}
		n++
		bad := ""
		if len(ws) > 1 {
			bad = fmt.Sprintf("%d Write calls in one append", len(ws))
		}
		for _, w := range ws {
			if blockInLoop(w.Block()) {
				bad = "Write call inside a loop at " + p.InstrPos(w)
			}
		}
		rep.Check(bad == "", "WR1", "single-write:"+core.FuncKey(fn), "exactly one Write call, outside any loop", p.Pos(fn.Pos()), bad, true)
	}
	if n < 2 {
		core.Failf("vacuity guard: WR1 expected >= 2 appending DataFile methods, found %d", n)
	}
}

// chunkTypeProtocol (C11.S6): the writer emits exactly the declared chunk types and both readers terminate on
// the same set.
func chunkTypeProtocol(p *core.Prog, rep *core.Report) {
	rep.Rule("CT", "chunk-type protocol: the writer stores exactly the declared ChunkType constants; both chunk readers stop on the same set of types (the ones that end a record) and continue on the others")
	decl := map[int64]string{}
	for n, v := range p.ConstsOf(core.ModPath+"/datafile", "ChunkType") {
		i, _ := constant.Int64Val(v)
		decl[i] = n
	}
	w := chunkWriter(p)
	emitted := map[int64]bool{}
	for _, b := range w.Blocks {
		for _, in := range b.Instrs {
			if st, ok := in.(*ssa.Store); ok {
				if ia, ok := st.Addr.(*ssa.IndexAddr); ok && isByte(st.Val.Type()) {
					if _, isC := constInt(ia.Index); isC {
						for _, o := range core.Origins(st.Val) {
							if k, ok := constInt(o); ok {
								emitted[k] = true
							}
						}
					}
				}
			}
		}
	}
	okw := len(emitted) == len(decl)
	for k := range emitted {
		if _, ok := decl[k]; !ok {
			okw = false
		}
	}
	rep.Check(okw, "CT", "writer-emits-declared-types", fmt.Sprintf("the writer emits %d chunk types = the %d declared", len(emitted), len(decl)), p.Pos(w.Pos()), fmt.Sprintf("emitted %v, declared %v", emitted, decl), false)
	// readers: constants compared with the decoder's type result
	d := chunkDecoder(p)
	var sets []string
	for _, fn := range chunkReaders(p) {
		if fn.Package() == nil || fn.Package().Pkg.Path() != core.ModPath+"/datafile" || core.RecvNamed(fn) == p.R.MMap || core.RecvNamed(fn) == p.R.FileIO {
			continue
		}
		stop := map[int64]bool{}
		for _, b := range fn.Blocks {
			for _, in := range b.Instrs {
				bo, ok := in.(*ssa.BinOp)
				if !ok || bo.Op != token.EQL {
					continue
				}
				if c, idx := extractOf(bo.X); c != nil && c.Common().StaticCallee() == d && idx == 1 {
					if k, ok := constInt(bo.Y); ok {
						stop[k] = true
					}
				}
			}
		}
		var ks []int64
		for k := range stop {
			ks = append(ks, k)
		}
		sort.Slice(ks, func(i, j int) bool { return ks[i] < ks[j] })
		sets = append(sets, fmt.Sprintf("%v", ks))
		rep.Stats["ct_readers"]++
	}
	same := len(sets) >= 2
	for _, s := range sets {
		if s != sets[0] {
			same = false
		}
	}
	// CT2: both readers validate the sequence: the result of the decoder's type is compared against the record-START
	// set {Full, First} on a path that can return an error (start-of-record vs continuation consistency)
	for _, fn := range chunkReaders(p) {
		if fn.Package() == nil || fn.Package().Pkg.Path() != core.ModPath+"/datafile" || core.RecvNamed(fn) == p.R.MMap || core.RecvNamed(fn) == p.R.FileIO {
			continue
		}
		var full, first int64 = -1, -1
		for k, n := range decl {
			if n == "Full" {
				full = k
			}
			if n == "First" {
				first = k
			}
		}
		cmp := map[int64]bool{}
		for _, b := range fn.Blocks {
			for _, in := range b.Instrs {
				bo, ok := in.(*ssa.BinOp)
				if !ok || (bo.Op != token.EQL && bo.Op != token.NEQ) {
					continue
				}
				if c, idx := extractOf(bo.X); c != nil && c.Common().StaticCallee() == d && idx == 1 {
					if k, ok := constInt(bo.Y); ok {
						cmp[k] = true
					}
				}
			}
		}
		// an error return whose block is reachable only after the type was decoded and is not the decoder's own error
		rejects := false
		ei := core.ErrResultIndex(fn.Signature)
		for _, r := range core.Returns(fn) {
			ev := core.ReturnOperand(r, ei)
			u, ok := ev.(*ssa.UnOp)
			if !ok {
				continue
			}
			g, ok := u.X.(*ssa.Global)
			if !ok || g.Name() == "EOF" || g.Name() == "ErrClosed" {
				continue
			}
			// controlled by a condition built from type comparisons
			for _, pb := range r.Block().Preds {
				if iff, ok := pb.Instrs[len(pb.Instrs)-1].(*ssa.If); ok {
					if condUsesType(iff.Cond, d, 0, map[ssa.Value]bool{}) {
						rejects = true
					}
				}
			}
		}
		rep.Check(cmp[first] && cmp[full] && rejects, "CT", "sequence-validated:"+core.FuncKey(fn), "a record must start with Full/First and continue with Middle/Last: the reader tests the start set and rejects a violation with an error", p.Pos(fn.Pos()), fmt.Sprintf("compares type with First: %v, with Full: %v, error return controlled by the type: %v - an orphaned First chunk would be glued to the chunks of the next record and served as data", cmp[first], cmp[full], rejects), true)
	}
	rep.Check(same, "CT", "readers-agree-on-terminal-types", "both readers end a record on the same chunk types "+strings.Join(sets, " / "), "", "terminal chunk-type sets differ between the readers: "+strings.Join(sets, " vs "), true)
}

// cd3bPadPerRecord: the pad test is evaluated for EVERY record position the writer assigns (also for the 2nd..nth
// record of a batch flush). States: U pad test not evaluated since the last position, P evaluated.
func cd3bPadPerRecord(p *core.Prog, rep *core.Report, blockSize, header int64) {
	rep.Rule("CD3b", "pad test per record: on every path of every writing DataFile method, each position assignment (allocation of the DataPos handed back to the caller) is preceded by an evaluation of the block-tail predicate since the previous position assignment - a batch flush pads before each of its records, not once")
	isTail := map[*ssa.If]bool{}
	for _, fn := range p.LibFuncs() {
		if core.RecvNamed(fn) != p.R.DataFile {
			continue
		}
		is, _ := tailPredicates(fn, blockSize, header)
		for _, i := range is {
			isTail[i] = true
		}
	}
	n := 0
	for _, fn := range p.LibFuncs() {
		if core.RecvNamed(fn) != p.R.DataFile {
			continue
		}
		writes := false
		for _, b := range fn.Blocks {
			for _, in := range b.Instrs {
				if ci, ok := in.(ssa.CallInstruction); ok && isWritePrimitive(p, ci.Common()) {
					writes = true
				}
			}
		}
		if !writes {
			continue
		}
		var bad []string
		allocs := 0
		eng := core.NewEngine(p, core.Hooks{
			Name:   "CD3b",
			Follow: func(f *ssa.Function) bool { return core.RecvNamed(f) == p.R.DataFile },
			Edge: func(x *core.Exec, iff *ssa.If, taken bool, a core.AState) (core.AState, bool) {
				if isTail[iff] {
					return "P", true
				}
				return a, true
			},
			Step: func(x *core.Exec, in ssa.Instruction, a core.AState) ([]core.StepOut, bool) {
				if al, ok := in.(*ssa.Alloc); ok {
					if pt, ok := al.Type().(*types.Pointer); ok {
						if nn, ok := pt.Elem().(*types.Named); ok && nn == p.R.DataPos {
							allocs++
							if a != "P" {
								bad = append(bad, fmt.Sprintf("position assigned at %s (in %s) without evaluating the block-tail predicate since the previous record: a record that starts in a tail too short for a header is written straddling the block boundary", p.InstrPos(in), core.FuncKey(x.Fn)))
							}
							return []core.StepOut{{A: "U"}}, true
						}
					}
				}
				return nil, false
			},
		})
		eng.Run(fn, "U", "")
		if allocs == 0 {
			continue
		}
		n++
		rep.Check(len(bad) == 0, "CD3b", "pad-per-record:"+core.FuncKey(fn), "the block-tail predicate is evaluated before every position assignment", p.Pos(fn.Pos()), strings.Join(sortedStr(bad), "; "), true)
	}
	if n < 2 {
		core.Failf("vacuity guard: CD3b expected >= 2 writing DataFile methods that assign positions, found %d", n)
	}
}

// condUsesType: the boolean expression (through phis of short-circuit evaluation and comparisons) depends on the
// chunk type returned by the decoder.
func condUsesType(v ssa.Value, dec *ssa.Function, depth int, seen map[ssa.Value]bool) bool {
	if v == nil || seen[v] || depth > 8 {
		return false
	}
	seen[v] = true
	if c, idx := extractOf(v); c != nil && c.Common().StaticCallee() == dec && idx == 1 {
		return true
	}
	switch t := v.(type) {
	case *ssa.BinOp:
		return condUsesType(t.X, dec, depth+1, seen) || condUsesType(t.Y, dec, depth+1, seen)
	case *ssa.Phi:
		for _, e := range t.Edges {
			if condUsesType(e, dec, depth+1, seen) {
				return true
			}
		}
		// the phi of a short-circuit: the controlling conditions of its predecessors
		for _, pb := range t.Block().Preds {
			if iff, ok := pb.Instrs[len(pb.Instrs)-1].(*ssa.If); ok {
				if condUsesType(iff.Cond, dec, depth+1, seen) {
					return true
				}
			}
		}
	case *ssa.UnOp:
		return condUsesType(t.X, dec, depth+1, seen)
	}
	return false
}

// wd1WideOffsets: byte offsets are 64-bit. A product with the block size computed in a 32-bit (or narrower) type
// and widened afterwards wraps at 4 GiB: records written beyond it are read from their offset modulo 2^32.
func wd1WideOffsets(p *core.Prog, rep *core.Report, blockSize int64) {
	rep.Rule("WD1", "offset arithmetic is 64-bit: in package datafile no product with a factor >= the block size is computed in an integer type narrower than 64 bits and then widened (directly or through + / - / phi) to a 64-bit offset; the widening must come before the multiplication (DataFileSize is an int64, block ids reach 2^17 at 4 GiB)")
	narrow := func(t types.Type) bool {
		b, ok := t.Underlying().(*types.Basic)
		if !ok {
			return false
		}
		switch b.Kind() {
		case types.Int8, types.Int16, types.Int32, types.Uint8, types.Uint16, types.Uint32:
			return true
		}
		return false
	}
	wide := func(t types.Type) bool {
		b, ok := t.Underlying().(*types.Basic)
		if !ok {
			return false
		}
		switch b.Kind() {
		case types.Int64, types.Uint64, types.Int, types.Uint, types.Uintptr:
			return true
		}
		return false
	}
	var bad []string
	nMul, nConv := 0, 0
	for _, fn := range p.LibFuncs() {
		if fn.Package() == nil || fn.Package().Pkg.Path() != core.ModPath+"/datafile" {
			continue
		}
		for _, b := range fn.Blocks {
			for _, in := range b.Instrs {
				bo, ok := in.(*ssa.BinOp)
				if !ok || (bo.Op != token.MUL && bo.Op != token.SHL) {
					continue
				}
				big := false
				nonConst := false
				for _, side := range []ssa.Value{bo.X, bo.Y} {
					if k, ok := constInt(side); ok {
						if bo.Op == token.MUL && k >= blockSize {
							big = true
						}
						if bo.Op == token.SHL && side == bo.Y && (int64(1)<<uint(k&63)) >= blockSize {
							big = true
						}
					} else {
						nonConst = true
					}
				}
				if !big || !nonConst {
					continue
				}
				nMul++
				if !narrow(bo.Type()) {
					continue
				}
				// does the narrow product reach a widening conversion through value-preserving steps?
				seen := map[ssa.Value]bool{}
				var walk func(v ssa.Value) ssa.Instruction
				walk = func(v ssa.Value) ssa.Instruction {
					if seen[v] {
						return nil
					}
					seen[v] = true
					for _, r := range *v.Referrers() {
						switch t := r.(type) {
						case *ssa.Convert:
							if wide(t.Type()) {
								return t
							}
							if narrow(t.Type()) {
								if w := walk(t); w != nil {
									return w
								}
							}
						case *ssa.ChangeType:
							if w := walk(t); w != nil {
								return w
							}
						case *ssa.Phi:
							if w := walk(t); w != nil {
								return w
							}
						case *ssa.BinOp:
							if t.Op == token.ADD || t.Op == token.SUB {
								if w := walk(t); w != nil {
									return w
								}
							}
						case *ssa.Return:
							// a helper returning the narrow product: follow into its callers' uses
							for _, cs := range libCallSites(p, t.Parent()) {
								if cv := cs.Value(); cv != nil {
									if wide(cv.Type()) {
										return cs
									}
									if w := walk(cv); w != nil {
										return w
									}
								}
							}
						}
					}
					return nil
				}
				if w := walk(bo); w != nil {
					nConv++
					bad = append(bad, fmt.Sprintf("%s: product with the block size computed in %s at %s and widened at %s: wraps for offsets >= 4 GiB", core.FuncKey(fn), bo.Type().String(), p.InstrPos(bo), p.InstrPos(w)))
				}
			}
		}
	}
	if nMul == 0 {
		rep.Unk("VAC", "WD1", "no product with the block size found in package datafile (Size() has one)", "", "vacuous")
		return
	}
	rep.Check(len(bad) == 0, "WD1", "block-offset-width", fmt.Sprintf("%d products with a factor >= the block size, none computed narrow and widened afterwards", nMul), "", strings.Join(sortedStr(bad), "; "), true)
}

// cd8CursorInBlock: the write cursor is (block id, offset inside the block) and Size() = id*blockSize + offset. The
// offset must stay strictly below the block size: a cursor left AT the block size (a record that ends exactly on a
// boundary, not carried into the next block) makes the next record's reported position (block N, offset 32768) -
// the reader looks in block N, finds nothing at that offset and answers EOF for an acknowledged write.
func cd8CursorInBlock(p *core.Prog, rep *core.Report, blockSize int64) {
	rep.Rule("CD8", "in-block cursor bound: every value stored to the in-block offset field of DataFile (the field Size() adds unscaled) is provably < blockSize - a remainder modulo the block size, a constant below it, the field itself, a value guarded by a strict comparison with the block size, or (through calls, results, parameters and phis) composed of such values")
	sizeFn := p.MustMethod(p.R.DataFile, "Size")
	// the unscaled field: loaded in Size() and not an operand of the multiplication
	var off *types.Var
	for _, b := range sizeFn.Blocks {
		for _, in := range b.Instrs {
			u, ok := in.(*ssa.UnOp)
			if !ok {
				continue
			}
			f, _ := core.LoadedField(u)
			if f == nil || fieldOwner(p, f) != p.R.DataFile {
				continue
			}
			scaled := false
			var walk func(v ssa.Value, d int)
			walk = func(v ssa.Value, d int) {
				if d > 4 {
					return
				}
				for _, r := range *v.Referrers() {
					switch t := r.(type) {
					case *ssa.Convert:
						walk(t, d+1)
					case *ssa.BinOp:
						if t.Op == token.MUL || t.Op == token.SHL {
							scaled = true
						}
					}
				}
			}
			walk(u, 0)
			if !scaled {
				off = f
			}
		}
	}
	if off == nil {
		core.Failf("role unresolved: in-block offset field (loaded unscaled by (*DataFile).Size)")
	}
	type key struct {
		v ssa.Value
	}
	memo := map[ssa.Value]int{} // 1 ok, 2 bad, 3 in progress (assumed ok: inductive)
	var why string
	var bounded func(v ssa.Value, d int) bool
	bounded = func(v ssa.Value, d int) bool {
		if m, ok := memo[v]; ok {
			return m != 2
		}
		if d > 24 {
			why = "derivation too deep at " + v.Name()
			return false
		}
		memo[v] = 3
		res := func() bool {
			if k, ok := constInt(v); ok {
				return k >= 0 && k < blockSize
			}
			switch t := v.(type) {
			case *ssa.Convert:
				return bounded(t.X, d+1)
			case *ssa.ChangeType:
				return bounded(t.X, d+1)
			case *ssa.BinOp:
				if t.Op == token.REM {
					if k, ok := constInt(t.Y); ok && k > 0 && k <= blockSize {
						return true
					}
				}
				if t.Op == token.AND {
					if k, ok := constInt(t.Y); ok && k >= 0 && k < blockSize {
						return true
					}
				}
			case *ssa.UnOp:
				if f, _ := core.LoadedField(t); f == off {
					return true // the invariant itself
				}
			case *ssa.Phi:
				for i, e := range t.Edges {
					if bounded(e, d+1) {
						continue
					}
					// a strict guard on the incoming edge
					pred := t.Block().Preds[i]
					if strictlyBelow(e, blockSize, pred, t.Block()) {
						continue
					}
					return false
				}
				return true
			case *ssa.Extract:
				if c, ok := t.Tuple.(*ssa.Call); ok {
					if callee := c.Common().StaticCallee(); callee != nil && p.InLib(callee) {
						for _, r := range core.Returns(callee) {
							if !bounded(core.ReturnOperand(r, t.Index), d+1) {
								return false
							}
						}
						return true
					}
				}
			case *ssa.Call:
				if callee := t.Common().StaticCallee(); callee != nil && p.InLib(callee) && callee.Signature.Results().Len() == 1 {
					for _, r := range core.Returns(callee) {
						if !bounded(core.ReturnOperand(r, 0), d+1) {
							return false
						}
					}
					return true
				}
			case *ssa.Parameter:
				fn := t.Parent()
				idx := -1
				for i, pp := range fn.Params {
					if pp == t {
						idx = i
					}
				}
				sites := libCallSites(p, fn)
				if idx < 0 || len(sites) == 0 {
					return false
				}
				for _, cs := range sites {
					if idx >= len(cs.Common().Args) || !bounded(cs.Common().Args[idx], d+1) {
						return false
					}
				}
				return true
			}
			// a dominating strict guard at the point of definition's uses is not tracked here
			if why == "" {
				if in, ok := v.(ssa.Instruction); ok {
					why = fmt.Sprintf("%s (%T at %s) is not provably below the block size", v.Name(), v, p.InstrPos(in))
				} else {
					why = fmt.Sprintf("%s (%T) is not provably below the block size", v.Name(), v)
				}
			}
			return false
		}()
		if res {
			memo[v] = 1
		} else {
			memo[v] = 2
		}
		return res
	}
	n := 0
	perFn := map[*ssa.Function]int{}
	for _, fn := range p.LibFuncs() {
		for _, b := range fn.Blocks {
			for _, in := range b.Instrs {
				f, _, val := core.StoreField(in)
				if f != off {
					continue
				}
				n++
				perFn[fn]++
				why = ""
				ok := bounded(val, 0)
				rep.Check(ok, "CD8", fmt.Sprintf("cursor-below-block-size:%s#%d", core.FuncKey(fn), perFn[fn]), "the in-block offset stored here is < blockSize", p.InstrPos(in), "DataFile."+off.Name()+" may be stored with a value >= the block size: "+why+"; the next record is then reported at an offset the readers never look at", true)
			}
		}
	}
	if n < 1 {
		rep.Unk("VAC", "CD8", "expected >= 2 stores to the in-block offset field", "", fmt.Sprintf("found %d", n))
	}
}

// strictlyBelow: on the CFG edge pred->succ the value v is known to be < limit by the branch that ends pred (or a
// dominating branch whose edge dominates pred).
func strictlyBelow(v ssa.Value, limit int64, pred, succ *ssa.BasicBlock) bool {
	check := func(iff *ssa.If, taken bool) bool {
		bo, ok := iff.Cond.(*ssa.BinOp)
		if !ok {
			return false
		}
		op := bo.Op
		if !taken {
			op = negateCmp(op)
		}
		if bo.X == v {
			if k, ok := constInt(bo.Y); ok {
				return (op == token.LSS && k <= limit) || (op == token.LEQ && k < limit)
			}
		}
		if bo.Y == v {
			if k, ok := constInt(bo.X); ok {
				return (op == token.GTR && k <= limit) || (op == token.GEQ && k < limit)
			}
		}
		return false
	}
	if iff, ok := pred.Instrs[len(pred.Instrs)-1].(*ssa.If); ok && len(pred.Succs) == 2 {
		if check(iff, pred.Succs[0] == succ) && pred.Succs[0] != pred.Succs[1] {
			return true
		}
	}
	for _, b := range pred.Parent().Blocks {
		iff, ok := b.Instrs[len(b.Instrs)-1].(*ssa.If)
		if !ok {
			continue
		}
		for _, taken := range []bool{true, false} {
			if check(iff, taken) && edgeDominates(iff, taken, pred) {
				return true
			}
		}
	}
	return false
}

// cd9OpenCursor: the function that opens a data file positions the write cursor at the physical end of the file and
// nowhere else: block id = size / blockSize, in-block offset = size % blockSize for the size the back-end reports.
// Any adjustment made at open time (say, stepping over a block tail too short for a header) without writing the bytes
// it steps over makes the logical size differ from the physical size: the next record is reported at a position the
// bytes are not at.
func cd9OpenCursor(p *core.Prog, rep *core.Report, blockSize int64) {
	rep.Rule("CD9", "opening cursor = physical size: in the function that constructs a DataFile, the values stored to the two fields Size() reads are quotient and remainder (or shift and mask) of one value by the block size, and that value is the size reported by the back-end; no phi (conditional adjustment) in between")
	sizeFn := p.MustMethod(p.R.DataFile, "Size")
	fields := map[*types.Var]bool{}
	for _, b := range sizeFn.Blocks {
		for _, in := range b.Instrs {
			if u, ok := in.(*ssa.UnOp); ok {
				if f, _ := core.LoadedField(u); f != nil && fieldOwner(p, f) == p.R.DataFile {
					fields[f] = true
				}
			}
		}
	}
	shift := int64(-1)
	for s := int64(0); s < 40; s++ {
		if int64(1)<<uint(s) == blockSize {
			shift = s
		}
	}
	n := 0
	for _, fn := range p.LibFuncs() {
		if core.RecvNamed(fn) != nil {
			continue
		}
		var bad []string
		var srcs []ssa.Value
		kinds := map[string]bool{}
		stores := 0
		for _, b := range fn.Blocks {
			for _, in := range b.Instrs {
				f, base, val := core.StoreField(in)
				if f == nil || !fields[f] || !freshInFn(base, fn) {
					continue
				}
				stores++
				v := val
				for {
					if c, ok := v.(*ssa.Convert); ok {
						v = c.X
						continue
					}
					break
				}
				bo, ok := v.(*ssa.BinOp)
				if !ok {
					bad = append(bad, fmt.Sprintf("DataFile.%s is stored at %s with %s (%T), not a quotient / remainder of the size by the block size", f.Name(), p.InstrPos(in), v.Name(), v))
					continue
				}
				k, isC := constInt(bo.Y)
				switch {
				case bo.Op == token.QUO && isC && k == blockSize, bo.Op == token.SHR && isC && k == shift:
					kinds["q"] = true
				case bo.Op == token.REM && isC && k == blockSize, bo.Op == token.AND && isC && k == blockSize-1:
					kinds["r"] = true
				default:
					bad = append(bad, fmt.Sprintf("DataFile.%s is stored at %s with an expression that is not size / blockSize or size %% blockSize", f.Name(), p.InstrPos(in)))
					continue
				}
				srcs = append(srcs, bo.X)
			}
		}
		if stores == 0 {
			continue
		}
		n++
		if len(bad) == 0 {
			if !(kinds["q"] && kinds["r"]) {
				bad = append(bad, "quotient and remainder are not both stored")
			}
			for _, s := range srcs {
				if !sameOriginLoose(s, srcs[0]) {
					bad = append(bad, "quotient and remainder are taken from different values")
				}
				fromBackend := false
				for _, o := range core.Origins(s) {
					if ex, ok := o.(*ssa.Extract); ok {
						if c, ok := ex.Tuple.(*ssa.Call); ok && c.Common().IsInvoke() && c.Common().Method.Name() == "Size" {
							fromBackend = true
						}
					}
					if _, isPhi := o.(*ssa.Phi); isPhi {
						bad = append(bad, "the size is conditionally adjusted before it is split")
					}
				}
				if !fromBackend {
					bad = append(bad, "the split value is not the size reported by the back-end")
				}
			}
		}
		rep.Check(len(bad) == 0, "CD9", "open-cursor:"+core.FuncKey(fn), "the cursor of a freshly opened file is the physical size split by the block size", p.Pos(fn.Pos()), strings.Join(sortedStr(bad), "; "), true)
	}
	if n == 0 {
		rep.Unk("VAC", "CD9", "expected a constructor storing the cursor fields of a fresh DataFile", "", "found none")
	}
}
