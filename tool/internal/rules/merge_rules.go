package rules

import (
	"fmt"
	"go/constant"
	"go/token"
	"go/types"
	"sort"
	"strings"

	"golang.org/x/tools/go/ssa"

	"xkvverif/internal/core"
)

// ---------------------------------------------------------------------------------------------------
// Merge / adoption rules: MG1-MG3, PS5a-f, VF5, hint/adoption naming (C06, C07, C18)
// ---------------------------------------------------------------------------------------------------

type mergeCtx struct {
	p     *core.Prog
	rep   *core.Report
	merge *ssa.Function
	adopt *ssa.Function
	// adoptRegion: the adoption function first, then the unexported helpers it was split into (called from nowhere else)
	adoptRegion []*ssa.Function
	getName     *ssa.Function
	openFile    *ssa.Function
}

func newMergeCtx(p *core.Prog, rep *core.Report) *mergeCtx {
	m := &mergeCtx{p: p, rep: rep, merge: p.MustMethod(p.R.DB, "Merge")}
	df := core.ModPath + "/datafile"
	m.getName, m.openFile = p.Func(df, "GetFileName"), p.Func(df, "OpenFile")
	if m.getName == nil || m.openFile == nil {
		core.Failf("role unresolved: datafile.GetFileName / OpenFile")
	}
	// adoption function: the root-package function that renames files. When the adoption was split into helpers
	// (several functions rename), the role is the function whose region - itself plus the unexported functions of the
	// package that are called from nowhere else - holds every renaming function, smallest region first.
	var renamers []*ssa.Function
	for _, fn := range p.LibFuncs() {
		if !inRootPkg(fn) {
			continue
		}
		has := false
		for _, b := range fn.Blocks {
			for _, in := range b.Instrs {
				if calleeIs(in, "os.Rename") {
					has = true
				}
			}
		}
		if has {
			renamers = append(renamers, fn)
		}
	}
	switch len(renamers) {
	case 0:
		core.Failf("role unresolved: merge adoption function (os.Rename caller in the root package)")
	case 1:
		m.adopt = renamers[0]
		m.adoptRegion = m.regionOf(m.adopt)
	default:
		for _, fn := range p.LibFuncs() {
			if !inRootPkg(fn) || fn.Parent() != nil {
				continue
			}
			reg := m.regionOf(fn)
			in := map[*ssa.Function]bool{}
			for _, f := range reg {
				in[f] = true
			}
			all := true
			for _, r := range renamers {
				if !in[r] {
					all = false
				}
			}
			if all && (m.adopt == nil || len(reg) < len(m.adoptRegion)) {
				m.adopt, m.adoptRegion = fn, reg
			}
		}
		if m.adopt == nil {
			core.Failf("role ambiguous: adoption function (%s, %s)", renamers[0].Name(), renamers[1].Name())
		}
	}
	return m
}

// staticCallers: every call / defer / go instruction of the library whose static callee is fn.
func (m *mergeCtx) staticCallers(fn *ssa.Function) []ssa.CallInstruction {
	var out []ssa.CallInstruction
	for _, caller := range m.p.LibFuncs() {
		for _, b := range caller.Blocks {
			for _, in := range b.Instrs {
				if ci, ok := in.(ssa.CallInstruction); ok && ci.Common().StaticCallee() == fn {
					out = append(out, ci)
				}
			}
		}
	}
	return out
}

// regionOf: root plus the unexported named functions of the root package that are (transitively) called from the
// region and from nowhere else - the pieces a function was split into. Deterministic order: root, then by name.
func (m *mergeCtx) regionOf(root *ssa.Function) []*ssa.Function {
	in := map[*ssa.Function]bool{root: true}
	for changed := true; changed; {
		changed = false
		for f := range in {
			for _, b := range f.Blocks {
				for _, instr := range b.Instrs {
					ci, ok := instr.(ssa.CallInstruction)
					if !ok {
						continue
					}
					g := ci.Common().StaticCallee()
					if g == nil || in[g] || !inRootPkg(g) || g.Parent() != nil || g.Blocks == nil || token.IsExported(g.Name()) {
						continue
					}
					only := true
					for _, site := range m.staticCallers(g) {
						if !in[site.Parent()] {
							only = false
						}
					}
					if only {
						in[g] = true
						changed = true
					}
				}
			}
		}
	}
	var rest []*ssa.Function
	for f := range in {
		if f != root {
			rest = append(rest, f)
		}
	}
	sort.Slice(rest, func(i, j int) bool { return rest[i].Name() < rest[j].Name() })
	return append([]*ssa.Function{root}, rest...)
}

// adoptBlocks: the blocks of the adoption function and of the helpers it was split into.
func (m *mergeCtx) adoptBlocks() []*ssa.BasicBlock {
	var out []*ssa.BasicBlock
	for _, f := range m.adoptRegion {
		out = append(out, f.Blocks...)
	}
	return out
}

// liftInstr: the instruction of the adoption function itself through which `in` is reached: `in` if it lies there,
// otherwise the (unique) call site of its helper, lifted in turn; nil if a helper has several call sites.
func (m *mergeCtx) liftInstr(in ssa.Instruction) ssa.Instruction {
	for d := 0; d < 4; d++ {
		if in == nil || in.Parent() == m.adopt {
			return in
		}
		sites := m.staticCallers(in.Parent())
		if len(sites) != 1 {
			return nil
		}
		in = sites[0]
	}
	return nil
}

func (m *mergeCtx) liftBlock(b *ssa.BasicBlock) *ssa.BasicBlock {
	if b.Parent() == m.adopt {
		return b
	}
	if in := m.liftInstr(b.Instrs[0]); in != nil {
		return in.Block()
	}
	return nil
}

func strConst(v ssa.Value) (string, bool) {
	c, ok := v.(*ssa.Const)
	if !ok || c.Value == nil || c.Value.Kind() != constant.String {
		return "", false
	}
	return constant.StringVal(c.Value), true
}

func (m *mergeCtx) suffix(name string) string {
	c, ok := m.p.Pkg(core.ModPath + "/datafile").Pkg.Scope().Lookup(name).(*types.Const)
	if !ok || c.Val().Kind() != constant.String {
		core.Failf("role unresolved: datafile.%s", name)
	}
	return constant.StringVal(c.Val())
}

// openOf: calls OpenFile(dir, id, suffix, ...) in fn with the given suffix constant.
func (m *mergeCtx) openOf(fn *ssa.Function, suffix string) []*ssa.Call {
	var out []*ssa.Call
	for _, b := range fn.Blocks {
		for _, in := range b.Instrs {
			if c, ok := in.(*ssa.Call); ok && c.Common().StaticCallee() == m.openFile {
				if s, ok := strConst(c.Common().Args[2]); ok && s == suffix {
					out = append(out, c)
				}
			}
		}
	}
	return out
}

func isScratchDB(fn *ssa.Function, base ssa.Value) bool {
	return core.AllOrigins(base, func(o ssa.Value) bool {
		a, ok := o.(*ssa.Alloc)
		return ok && a.Parent() == fn
	})
}

// ---- MG1 -------------------------------------------------------------------------------------------------

func (m *mergeCtx) mg1Guard() {
	R := m.p.R
	m.rep.Rule("MG1", "output-id guard: before the finished marker is created, Merge compares the scratch database's highest file id with the recorded first non-participating id; equality and excess both take the failure edge, and the marker creation is dominated by the 'strictly below' edge")
	marker := m.openOf(m.merge, m.suffix("MergeFinishedFileSuffix"))
	if len(marker) == 0 {
		core.Failf("role unresolved: creation of the merge-finished marker in Merge")
	}
	found := false
	var why string
	for _, b := range m.merge.Blocks {
		iff, ok := b.Instrs[len(b.Instrs)-1].(*ssa.If)
		if !ok {
			continue
		}
		bo, ok := iff.Cond.(*ssa.BinOp)
		if !ok {
			continue
		}
		side := func(v ssa.Value) string {
			f, fb := core.LoadedField(core.Unwrap(v))
			if f != R.DFID {
				// a local holding the id (nonMergeFileId := db.activeFile.ID)
				for _, o := range core.Origins(v) {
					if f2, fb2 := core.LoadedField(o); f2 == R.DFID {
						f, fb = f2, fb2
					}
				}
			}
			if f != R.DFID {
				return ""
			}
			af, ab := core.LoadedField(fb)
			if af != R.DBActive {
				return ""
			}
			if isScratchDB(m.merge, ab) {
				return "out"
			}
			return "marker"
		}
		sx, sy := side(bo.X), side(bo.Y)
		if !((sx == "out" && sy == "marker") || (sx == "marker" && sy == "out")) {
			continue
		}
		eval := func(out, mk int) bool {
			x, y := out, mk
			if sx == "marker" {
				x, y = mk, out
			}
			switch bo.Op {
			case token.GEQ:
				return x >= y
			case token.GTR:
				return x > y
			case token.LEQ:
				return x <= y
			case token.LSS:
				return x < y
			case token.EQL:
				return x == y
			case token.NEQ:
				return x != y
			}
			return false
		}
		below, equal, above := eval(1, 2), eval(2, 2), eval(3, 2)
		found = true
		switch {
		case equal != above || below == equal:
			why = fmt.Sprintf("guard at %s does not send 'output id == first non-participating id' to the failure edge (below=%v equal=%v above=%v): the last rewritten file would be lost at adoption", m.p.InstrPos(iff), below, equal, above)
		case !edgeDominates(iff, below, marker[0].Block()):
			why = "the marker creation is not dominated by the 'strictly below' edge of the guard at " + m.p.InstrPos(iff)
		default:
			// the failing edge must return an error
			fail := b.Succs[0]
			if !equal {
				fail = b.Succs[1]
			}
			okFail := false
			for _, r := range dominatedReturns(fail) {
				if !core.IsNilConst(core.ReturnOperand(r, 0)) {
					okFail = true
				}
			}
			if !okFail {
				why = "the failing edge of the guard does not return an error"
			}
		}
	}
	if !found {
		why = "no comparison between the scratch database's file id and the first non-participating id before the marker is written"
	}
	m.rep.Check(why == "", "MG1", "output-id-guard:"+core.FuncKey(m.merge), "rewritten file ids stay strictly below the first non-participating id", m.p.Pos(m.merge.Pos()), why, true)
}

// ---- MG2 ---------------------------------------------------------------------------------------------------

func (m *mergeCtx) mg2MarkerID() {
	R := m.p.R
	m.rep.Rule("MG2", "marker id provenance: the id written to the finished marker is the active-file id read in the same writer section as the rotation and the collection of participating files (not re-read after the lock was released)")
	// rotation call on the shared db, and unlock calls
	var rot ssa.Instruction
	var unlocks []ssa.Instruction
	direct := map[*ssa.Function]bool{}
	for _, fn := range m.p.LibFuncs() {
		for _, b := range fn.Blocks {
			for _, in := range b.Instrs {
				if f, _, _ := core.StoreField(in); f == R.DBActive {
					direct[fn] = true
				}
			}
		}
	}
	rotReach := m.p.Reaches("store.active", func(site ssa.CallInstruction) bool {
		c := site.Common().StaticCallee()
		return c != nil && direct[c]
	})
	for _, b := range m.merge.Blocks {
		for _, in := range b.Instrs {
			ci, ok := in.(ssa.CallInstruction)
			if !ok {
				continue
			}
			callee := ci.Common().StaticCallee()
			if callee == nil {
				continue
			}
			if (direct[callee] || rotReach[callee]) && m.p.InLib(callee) && len(ci.Common().Args) > 0 && !isScratchDB(m.merge, ci.Common().Args[0]) && rot == nil {
				if core.RecvNamed(callee) == R.DB {
					rot = in
				}
			}
			if callee.String() == "(*sync.RWMutex).Unlock" {
				unlocks = append(unlocks, in)
			}
		}
	}
	if rot == nil {
		core.Failf("role unresolved: rotation call in Merge")
	}
	// marker write
	n := 0
	for _, b := range m.merge.Blocks {
		for _, in := range b.Instrs {
			ci, ok := in.(ssa.CallInstruction)
			if !ok {
				continue
			}
			callee := ci.Common().StaticCallee()
			if callee == nil || callee.Name() != "WriteMergeFinRecord" {
				continue
			}
			n++
			why := ""
			for _, o := range core.Origins(ci.Common().Args[1]) {
				ld, isLoad := o.(*ssa.UnOp)
				f, fb := core.LoadedField(o)
				af, ab := core.LoadedField(fb)
				if !isLoad || f != R.DFID || af != R.DBActive || isScratchDB(m.merge, ab) {
					why = "the marker id is not a read of the shared database's active-file id"
					break
				}
				if !reachesAvoiding(rot, ld, nil) {
					why = "the marker id is read before the rotation"
					break
				}
				for _, u := range unlocks {
					if reachesAvoiding(rot, u, nil) && reachesAvoiding(u, ld, nil) && !reachesAvoiding(ld, u, nil) {
						why = fmt.Sprintf("the marker id is read at %s after the lock was released at %s: files rotated by racing writers during the scan would be treated as merged and deleted at adoption", m.p.InstrPos(ld), m.p.InstrPos(u))
					}
				}
			}
			m.rep.Check(why == "", "MG2", "marker-id:"+core.FuncKey(m.merge), "the marker records the id captured with the participating-file snapshot", m.p.InstrPos(in), why, true)
		}
	}
	if n == 0 {
		core.Failf("vacuity guard: MG2 found no marker write in Merge")
	}
}

// ---- MG3 ----------------------------------------------------------------------------------------------------

func (m *mergeCtx) rewriteCalls() []*ssa.Call {
	v := newVF(m.p, m.rep)
	var out []*ssa.Call
	for _, b := range m.merge.Blocks {
		for _, in := range b.Instrs {
			c, ok := in.(*ssa.Call)
			if !ok {
				continue
			}
			callee := c.Common().StaticCallee()
			if callee != nil && v.writeReach[callee] && v.recordArg(c.Common()) != nil {
				out = append(out, c)
			}
		}
	}
	return out
}

func (m *mergeCtx) mg3Liveness() {
	R := m.p.R
	m.rep.Rule("MG3", "liveness test: the rewriting call in Merge's scan loop is control dependent on the index position being non-nil and equal to the scanned record's position in every locating field (Fid, BlockID, Offset)")
	rw := m.rewriteCalls()
	if len(rw) == 0 {
		core.Failf("vacuity guard: no rewriting call in Merge")
	}
	blk := rw[0].Block()
	got := map[string]bool{}
	for _, b := range m.merge.Blocks {
		iff, ok := b.Instrs[len(b.Instrs)-1].(*ssa.If)
		if !ok {
			continue
		}
		bo, ok := iff.Cond.(*ssa.BinOp)
		if !ok {
			continue
		}
		// either polarity: `pos != nil && ...` on the true edge, or the De Morgan form `pos == nil || ... { continue }` on
		// the false edge
		if (bo.Op == token.NEQ || bo.Op == token.EQL) && core.IsNilConst(bo.Y) && edgeDominates(iff, bo.Op == token.NEQ, blk) {
			if c, ok := bo.X.(*ssa.Call); ok {
				if cal := c.Common().StaticCallee(); cal != nil && core.RecvNamed(cal) == R.ShardedIndex && cal.Name() == "Get" {
					got["non-nil"] = true
				}
			}
		}
		if (bo.Op != token.EQL && bo.Op != token.NEQ) || !edgeDominates(iff, bo.Op == token.EQL, blk) {
			continue
		}
		for _, pr := range [][2]ssa.Value{{bo.X, bo.Y}, {bo.Y, bo.X}} {
			f, base := core.LoadedField(pr[0])
			if f == nil || fieldOwner(m.p, f) != R.DataPos {
				continue
			}
			isIdx := false
			for _, o := range core.Origins(base) {
				if c, ok := o.(*ssa.Call); ok {
					if cal := c.Common().StaticCallee(); cal != nil && core.RecvNamed(cal) == R.ShardedIndex && cal.Name() == "Get" {
						isIdx = true
					}
				}
			}
			if !isIdx {
				continue
			}
			f2, _ := core.LoadedField(pr[1])
			if (f == R.PosFid && f2 == R.DFID) || f2 == f {
				got[f.Name()] = true
			}
		}
	}
	var miss []string
	for _, need := range []string{"non-nil", R.PosFid.Name(), R.PosBlock.Name(), R.PosOffset.Name()} {
		if !got[need] {
			miss = append(miss, need)
		}
	}
	m.rep.Check(len(miss) == 0, "MG3", "liveness-test:"+core.FuncKey(m.merge), "a record is rewritten only if the index still points exactly at it", m.p.InstrPos(rw[0]), "not tested before rewriting: "+strings.Join(miss, ", ")+" (a superseded record at the same offset of another block/file would be resurrected)", true)
}

// ---- VF5: hint pairing -----------------------------------------------------------------------------------------

func (m *mergeCtx) vf5Hint() {
	R := m.p.R
	m.rep.Rule("VF5", "hint pairing: the position written to the hint file is result #0 of the rewriting call of the same record and the key is that record's Key; every successful rewrite is followed by exactly one hint write before the next rewrite or the return")
	v := newVF(m.p, m.rep)
	rw := m.rewriteCalls()
	n := 0
	var hintCalls []ssa.Instruction
	for _, b := range m.merge.Blocks {
		for _, in := range b.Instrs {
			ci, ok := in.(ssa.CallInstruction)
			if !ok {
				continue
			}
			callee := ci.Common().StaticCallee()
			if callee == nil || callee.Name() != "WriteHintRecord" || core.RecvNamed(callee) != R.DataFile {
				continue
			}
			n++
			hintCalls = append(hintCalls, in)
			args := ci.Common().Args // recv, key, buf, pos
			why := ""
			c, idx := extractOf(args[3])
			isRw := false
			for _, r := range rw {
				if r == c {
					isRw = true
				}
			}
			switch {
			case c == nil || idx != 0 || !isRw:
				why = "the hinted position is not the position returned by the rewriting call (a hint pointing at the old location indexes the wrong bytes after adoption)"
			default:
				rec := v.recordArg(c.Common())
				f, base := core.LoadedField(args[1])
				if f != R.LRKey || !sameOrigin(base, rec) {
					why = "the hinted key is not the Key of the record that was rewritten"
				}
			}
			m.rep.Check(why == "", "VF5", "hint-pairing:"+core.FuncKey(m.merge), "hint entry = (key of the rewritten record, its new position)", m.p.InstrPos(in), why, true)
			// the hint file is the one opened with the hint suffix
			okFile := false
			for _, o := range core.Origins(args[0]) {
				if e, ok := o.(*ssa.Extract); ok {
					if oc, ok := e.Tuple.(*ssa.Call); ok && oc.Common().StaticCallee() == m.openFile {
						if s, ok := strConst(oc.Common().Args[2]); ok && s == m.suffix("HintFileSuffix") {
							okFile = true
						}
					}
				}
			}
			m.rep.Check(okFile, "VF5", "hint-file:"+core.FuncKey(m.merge), "hint records go to the file opened with the hint suffix", m.p.InstrPos(in), "hint record written to a file not opened with HintFileSuffix", false)
		}
	}
	if n == 0 {
		m.rep.Bad("VF5", "hint-pairing:"+core.FuncKey(m.merge), "hint entry = (key of the rewritten record, its new position)", m.p.Pos(m.merge.Pos()), "no hint record is written in Merge")
		return
	}
	// typestate: rewrite-ok -> hint -> ...
	var bad []string
	eng := core.NewEngine(m.p, core.Hooks{
		Name:   "VF5",
		Follow: func(fn *ssa.Function) bool { return false },
		Step: func(x *core.Exec, in ssa.Instruction, a core.AState) ([]core.StepOut, bool) {
			for _, r := range rw {
				if ssa.Instruction(r) == in {
					if a == "P" {
						bad = append(bad, "a second record is rewritten at "+m.p.InstrPos(in)+" before the hint of the previous one was written")
					}
					return []core.StepOut{{A: "P", Fact: true, Idx: 1, Truth: 0}, {A: a, Fact: true, Idx: 1, Truth: 1}}, true
				}
			}
			for _, h := range hintCalls {
				if h == in {
					if a != "P" {
						bad = append(bad, "hint record written at "+m.p.InstrPos(in)+" without a preceding successful rewrite")
					}
					return []core.StepOut{{A: "N"}}, true
				}
			}
			return nil, false
		},
	})
	for _, e := range eng.Run(m.merge, "N", "") {
		if e.Cls != core.ClsFailure && e.A == "P" {
			bad = append(bad, "success return at "+m.p.InstrPos(e.Ret)+" with a rewritten record that has no hint entry")
		}
	}
	m.rep.Check(len(bad) == 0, "VF5", "hint-per-rewrite:"+core.FuncKey(m.merge), "exactly one hint write per successful rewrite", m.p.Pos(m.merge.Pos()), strings.Join(sortedStr(bad), "; "), true)
}

// ---- PS5: ordering in Merge and in the adoption function ----------------------------------------------------------

func (m *mergeCtx) ps5MergeOrder() {
	R := m.p.R
	m.rep.Rule("PS5", "merge/adoption ordering: (a) the finished marker is created only after the hint file and every output file of the scratch database were closed (closing flushes, PS2); (f) leftovers of an earlier merge are removed before the scratch directory is reused; (c) every file-system mutation of the adoption step is dominated by the 'marker id != 0' edge; (d) originals are removed only under a successful existence test of a not-yet-adopted rewritten file; (e) the merge directory is removed only after the rename loop ran to completion - never from a deferred call, and the adoption loops can be left only through their loop condition or an error return; (g) each rewritten file is renamed to the same id and suffix in the data directory")
	marker := m.openOf(m.merge, m.suffix("MergeFinishedFileSuffix"))
	if len(marker) == 0 {
		core.Failf("role unresolved: marker creation in Merge")
	}
	M := marker[0]
	isClose := func(in ssa.Instruction) (ssa.Value, bool) {
		ci, ok := in.(ssa.CallInstruction)
		if !ok {
			return nil, false
		}
		c := ci.Common().StaticCallee()
		if c != nil && c.Name() == "Close" && core.RecvNamed(c) == R.DataFile {
			return ci.Common().Args[0], true
		}
		return nil, false
	}
	hintClosed, activeClosed, olderClosed := false, false, false
	// the closes may live in a helper that only Merge calls and that is handed the files (`closeMergeOutputs(hint, db)`):
	// its parameters are bound at the call site, and "before the marker" is asked of the call site
	closeBlocks := append([]*ssa.BasicBlock{}, m.merge.Blocks...)
	helperSite := map[*ssa.Function]ssa.CallInstruction{}
	for _, b := range m.merge.Blocks {
		for _, in := range b.Instrs {
			if ci, ok := in.(ssa.CallInstruction); ok {
				h := ci.Common().StaticCallee()
				if h != nil && inRootPkg(h) && h.Blocks != nil && h.Parent() == nil && !token.IsExported(h.Name()) && h != m.merge {
					if sites := m.staticCallers(h); len(sites) == 1 {
						if _, dup := helperSite[h]; !dup {
							helperSite[h] = ci
							closeBlocks = append(closeBlocks, h.Blocks...)
						}
					}
				}
			}
		}
	}
	// bind: origins of v with parameters of a helper replaced by the origins of the call-site arguments
	bind := func(v ssa.Value) []ssa.Value {
		var out []ssa.Value
		for _, o := range core.Origins(v) {
			if pr, ok := o.(*ssa.Parameter); ok {
				if site, isH := helperSite[pr.Parent()]; isH {
					for i, pp := range pr.Parent().Params {
						if pp == pr && i < len(site.Common().Args) {
							out = append(out, core.Origins(site.Common().Args[i])...)
						}
					}
					continue
				}
			}
			out = append(out, o)
		}
		return out
	}
	isScratch := func(base ssa.Value) bool {
		for _, o := range bind(base) {
			if isScratchDB(m.merge, o) {
				return true
			}
		}
		return isScratchDB(m.merge, base)
	}
	// beforeMarker: in (or, for an instruction of a helper, the helper's call - provided `in` lies on every path to the
	// helper's success returns) dominates the marker creation
	beforeMarker := func(in ssa.Instruction) bool {
		if in.Parent() == m.merge {
			return dominatesInstr(in, M)
		}
		site, ok := helperSite[in.Parent()]
		if !ok || !dominatesInstr(site, M) {
			return false
		}
		ei := core.ErrResultIndex(in.Parent().Signature)
		for _, r := range core.Returns(in.Parent()) {
			if ei >= 0 && !core.IsNilConst(core.ReturnOperand(r, ei)) {
				continue
			}
			if !(in.Block() == r.Block() || in.Block().Dominates(r.Block())) {
				return false
			}
		}
		return true
	}
	for _, b := range closeBlocks {
		for _, in := range b.Instrs {
			recv, ok := isClose(in)
			if !ok {
				continue
			}
			// which file?
			for _, o := range bind(recv) {
				switch t := o.(type) {
				case *ssa.Extract:
					if oc, ok := t.Tuple.(*ssa.Call); ok && oc.Common().StaticCallee() == m.openFile {
						if s, _ := strConst(oc.Common().Args[2]); s == m.suffix("HintFileSuffix") && beforeMarker(in) {
							hintClosed = true
						}
					}
					if nx, ok := t.Tuple.(*ssa.Next); ok {
						if rg, ok := nx.Iter.(*ssa.Range); ok {
							if f, base := core.LoadedField(rg.X); f == R.DBOlder && isScratch(base) && beforeMarker(rg) {
								olderClosed = true
							}
						}
					}
				case *ssa.UnOp:
					if f, base := core.LoadedField(t); f == R.DBActive && isScratch(base) {
						if beforeMarker(in) {
							activeClosed = true
						} else if len(b.Preds) == 1 && beforeMarker(b.Preds[0].Instrs[len(b.Preds[0].Instrs)-1]) {
							// "if scratch.activeFile != nil { Close }": the guarded form
							if iff, ok := b.Preds[0].Instrs[len(b.Preds[0].Instrs)-1].(*ssa.If); ok {
								if bo, ok := iff.Cond.(*ssa.BinOp); ok && core.IsNilConst(bo.Y) {
									if f2, _ := core.LoadedField(bo.X); f2 == R.DBActive {
										activeClosed = true
									}
								}
							}
						}
					}
				}
			}
		}
	}
	m.rep.Check(hintClosed, "PS5", "marker-after-hint-close:"+core.FuncKey(m.merge), "the hint file is closed (flushed) before the marker is created", m.p.InstrPos(M), "marker creation is not dominated by closing the hint file: a crash after the marker is durable can leave a torn hint file that Open trusts", true)
	m.rep.Check(activeClosed, "PS5", "marker-after-output-close:"+core.FuncKey(m.merge), "the last output file is closed (flushed) before the marker is created", m.p.InstrPos(M), "marker creation is not dominated by closing the scratch database's active file", true)
	m.rep.Check(olderClosed, "PS5", "marker-after-rotated-output-close:"+core.FuncKey(m.merge), "every rotated output file is closed (flushed, truncated under mmap) before the marker is created", m.p.InstrPos(M), "marker creation is not dominated by a loop closing the scratch database's rotated files", true)

	// (f) leftovers removed before the directory is reused - in Merge or in a helper only Merge calls
	var mk ssa.Instruction
	mkFn := m.merge
	scope := []*ssa.Function{m.merge}
	for _, b := range m.merge.Blocks {
		for _, in := range b.Instrs {
			if ci, ok := in.(ssa.CallInstruction); ok {
				if c := ci.Common().StaticCallee(); c != nil && inRootPkg(c) && c.Blocks != nil && len(libCallSites(m.p, c)) == 1 {
					scope = append(scope, c)
				}
			}
		}
	}
	for _, fn := range scope {
		for _, b := range fn.Blocks {
			for _, in := range b.Instrs {
				if calleeIs(in, "os.MkdirAll") {
					mk, mkFn = in, fn
				}
			}
		}
	}
	// liftM: the instruction of mkFn through which `in` is reached (itself, or the unique call site of its helper)
	liftM := func(in ssa.Instruction) ssa.Instruction {
		if in == nil || in.Parent() == mkFn {
			return in
		}
		sites := m.staticCallers(in.Parent())
		if len(sites) == 1 && sites[0].Parent() == mkFn {
			return sites[0]
		}
		return nil
	}
	cleaned := false
	if mk != nil {
		dir := mk.(ssa.CallInstruction).Common().Args[0]
		// the leftover removal may live in a helper that is handed the directory (`removeStaleMergeDir(mergePath)`), called
		// before the (re)creation
		for _, fn := range scope {
			if fn == mkFn {
				continue
			}
			for _, b := range fn.Blocks {
				for _, in := range b.Instrs {
					if !calleeIs(in, "os.RemoveAll") {
						continue
					}
					site := liftM(in)
					if site == nil || !dominatesInstr(site, mk) {
						continue
					}
					if pi := paramIndex(fn, in.(ssa.CallInstruction).Common().Args[0]); pi >= 0 {
						args := site.(ssa.CallInstruction).Common().Args
						if pi < len(args) && sameOrigin(args[pi], dir) {
							cleaned = true
						}
					}
				}
			}
		}
		for _, b := range mkFn.Blocks {
			for _, in := range b.Instrs {
				if calleeIs(in, "os.RemoveAll") && sameOrigin(in.(ssa.CallInstruction).Common().Args[0], dir) {
					if dominatesInstr(in, mk) {
						cleaned = true
					} else {
						// under the os.Stat(dir) == nil probe, whose test block dominates the (re)creation
						for _, gb := range mkFn.Blocks {
							iff, ok := gb.Instrs[len(gb.Instrs)-1].(*ssa.If)
							if !ok || !gb.Dominates(mk.Block()) {
								continue
							}
							bo, ok := iff.Cond.(*ssa.BinOp)
							if !ok || !core.IsNilConst(bo.Y) {
								continue
							}
							c, idx := extractOf(bo.X)
							if c == nil || idx != 1 || !core.StaticCalleeIs(c.Common(), "os.Stat") || !sameOrigin(c.Common().Args[0], dir) {
								continue
							}
							if edgeDominates(iff, bo.Op == token.EQL, b) {
								cleaned = true
							}
						}
					}
				}
			}
		}
	}
	// (i) Merge removes nothing but the leftovers of an earlier merge: every removal primitive it (or its private
	// helpers) calls lies before the directory is (re)created - in particular the hint file it just wrote is never
	// removed (adoption reads "no hint in the merge directory" as "already moved" and would use a stale one)
	// (j) the leftover cleanup removes the finished marker BEFORE the directory, so that a crash in the middle of the
	// removal leaves an unfinished merge (ignored by Open), never a marker-valid partial one
	var lateRemovals []string
	markerFirst := false
	for _, fn := range scope {
		for _, b := range fn.Blocks {
			for _, in := range b.Instrs {
				if !calleeIs(in, "os.Remove", "os.RemoveAll") {
					continue
				}
				lin := liftM(in)
				if mk == nil || lin == nil || lin == mk || !(dominatesInstr(lin, mk) || reachesAvoiding(lin, mk, nil)) || reachesAvoiding(mk, lin, nil) {
					lateRemovals = append(lateRemovals, core.CalleeName(in.(ssa.CallInstruction).Common())+" at "+m.p.InstrPos(in))
					continue
				}
				if calleeIs(in, "os.Remove") {
					// the marker: a GetFileName(dir, _, MergeFinishedFileSuffix) path, removed before the RemoveAll
					for _, o := range core.Origins(in.(ssa.CallInstruction).Common().Args[0]) {
						if gc, ok := o.(*ssa.Call); ok && gc.Common().StaticCallee() == m.getName {
							if sfx, _ := strConst(gc.Common().Args[2]); sfx == m.suffix("MergeFinishedFileSuffix") {
								for _, b2 := range fn.Blocks {
									for _, in2 := range b2.Instrs {
										if calleeIs(in2, "os.RemoveAll") && reachesAvoiding(in, in2, nil) && !reachesAvoiding(in2, in, nil) {
											markerFirst = true
										}
									}
								}
							}
						}
					}
				}
			}
		}
	}
	m.rep.Check(len(lateRemovals) == 0, "PS5", "merge-removes-only-leftovers:"+core.FuncKey(m.merge), "Merge removes files only while cleaning up the leftovers of an earlier merge", m.p.Pos(m.merge.Pos()), "removal after the scratch directory was created: "+strings.Join(lateRemovals, ", ")+" (a hint or output file removed by Merge makes adoption fall back on stale files)", true)
	m.rep.Check(markerFirst, "PS5", "leftover-marker-removed-first:"+core.FuncKey(m.merge), "the finished marker of an earlier merge is removed before its directory", m.p.Pos(m.merge.Pos()), "the leftover directory is removed without first removing its finished marker: a crash in the middle of the removal leaves a marker-valid partial merge that the next Open adopts (data loss)", true)
	m.rep.Check(mk != nil && cleaned, "PS5", "scratch-dir-cleaned:"+core.FuncKey(m.merge), "an existing merge directory (unfinished earlier merge) is removed before it is reused", m.p.Pos(m.merge.Pos()), "the scratch directory is (re)created without removing leftovers: files are opened in append mode, so the new output is appended to the partial files of a crashed merge and stale records are resurrected at adoption", true)
}

func (m *mergeCtx) ps5Adoption() {
	a := m.adopt
	// the marker id and its zero test
	var gate *ssa.If
	gateNZ := false
	for _, b := range a.Blocks {
		iff, ok := b.Instrs[len(b.Instrs)-1].(*ssa.If)
		if !ok {
			continue
		}
		bo, ok := iff.Cond.(*ssa.BinOp)
		if !ok || (bo.Op != token.EQL && bo.Op != token.NEQ) {
			continue
		}
		if k, ok := constInt(bo.Y); !ok || k != 0 {
			continue
		}
		if c, ok := core.Unwrap(bo.X).(*ssa.Call); ok && m.reachesMarkerRead(c) {
			gate, gateNZ = iff, bo.Op == token.NEQ
		}
	}
	if gate == nil {
		m.rep.Bad("PS5", "adoption-gated:"+core.FuncKey(a), "adoption is gated by a readable marker", m.p.Pos(a.Pos()), "no test of the marker id against 0 in the adoption function")
		return
	}
	var ungated, removesBad []string
	nMut, nRemove := 0, 0
	for _, b := range m.adoptBlocks() {
		for _, in := range b.Instrs {
			ci, ok := in.(ssa.CallInstruction)
			if !ok {
				continue
			}
			name := fsMutationName(ci.Common())
			if name == "" {
				continue
			}
			if _, isDefer := in.(*ssa.Defer); isDefer {
				continue
			}
			nMut++
			if lb := m.liftBlock(b); lb == nil || !edgeDominates(gate, gateNZ, lb) {
				ungated = append(ungated, name+" at "+m.p.InstrPos(in))
			}
			if name == "os.Remove" {
				nRemove++
				if !m.underStatOfMerged(b) {
					removesBad = append(removesBad, "os.Remove at "+m.p.InstrPos(in))
				}
			}
		}
	}
	if nMut == 0 {
		core.Failf("vacuity guard: no file-system mutation in the adoption function")
	}
	m.rep.Check(len(ungated) == 0, "PS5", "adoption-gated:"+core.FuncKey(a), fmt.Sprintf("all %d file-system mutations of the adoption step happen only when a finished marker was read", nMut), m.p.Pos(a.Pos()), "not dominated by the 'marker id != 0' edge: "+strings.Join(ungated, ", ")+" (an unfinished merge would be adopted)", true)
	m.rep.Check(len(removesBad) == 0, "PS5", "remove-only-before-adoption:"+core.FuncKey(a), fmt.Sprintf("the %d removal(s) of original data files happen only under a successful existence test of a rewritten file still in the merge directory", nRemove), m.p.Pos(a.Pos()), strings.Join(removesBad, ", ")+" not under os.Stat(<merge dir file>) == nil: re-running an interrupted adoption removes already adopted files (data loss)", true)

	// (e) merge directory removal: not deferred, after loops completed; loops exhaustive
	var bad []string
	for _, b := range m.adoptBlocks() {
		for _, in := range b.Instrs {
			if d, ok := in.(*ssa.Defer); ok {
				if callsRemoveAll(d.Call.StaticCallee()) || calleeIs(in, "os.RemoveAll") {
					bad = append(bad, "the merge directory is removed from a deferred call registered at "+m.p.InstrPos(in)+": it also runs on every failure return, destroying rewritten files whose originals are already gone")
				}
			}
		}
	}
	var loops []loopInfo
	for _, f := range m.adoptRegion {
		loops = append(loops, naturalLoops(f)...)
	}
	nLoops := 0
	for _, lp := range loops {
		hasMut := false
		for blk := range lp.body {
			for _, in := range blk.Instrs {
				if ci, ok := in.(ssa.CallInstruction); ok && fsMutationName(ci.Common()) != "" {
					hasMut = true
				}
			}
		}
		if !hasMut {
			continue
		}
		nLoops++
		for blk := range lp.body {
			for _, s := range blk.Succs {
				if lp.body[s] {
					continue
				}
				if blk == lp.header {
					continue
				}
				if onlyFailureReturns(s) {
					continue
				}
				bad = append(bad, fmt.Sprintf("the adoption loop at %s is left from its body at %s without an error (break): remaining rewritten files are never adopted and are deleted with the merge directory", m.p.InstrPos(lp.header.Instrs[len(lp.header.Instrs)-1]), m.p.InstrPos(blk.Instrs[len(blk.Instrs)-1])))
			}
		}
	}
	var rmAll ssa.Instruction
	for _, b := range m.adoptBlocks() {
		for _, in := range b.Instrs {
			if _, isDefer := in.(*ssa.Defer); !isDefer && calleeIs(in, "os.RemoveAll") {
				rmAll = in
			}
		}
	}
	if rmAll != nil {
		// order across the helpers the adoption was split into is decided at their call sites in the adoption function
		lrm := m.liftInstr(rmAll)
		for _, lp := range loops {
			for blk := range lp.body {
				for _, in := range blk.Instrs {
					if !calleeIs(in, "os.Rename") {
						continue
					}
					okOrder := false
					if lp.header.Parent() == rmAll.Parent() {
						okOrder = reachBlock(lp.header, rmAll.Block())
					} else if lh := m.liftBlock(lp.header); lh != nil && lrm != nil {
						okOrder = reachBlock(lh, lrm.Block())
					}
					if !okOrder {
						bad = append(bad, "merge directory removal is not after the rename loop")
					}
				}
			}
		}
		for _, b := range m.adoptBlocks() {
			for _, in := range b.Instrs {
				if !calleeIs(in, "os.Rename") {
					continue
				}
				after := false
				if in.Parent() == rmAll.Parent() {
					after = reachesAvoiding(rmAll, in, nil)
				} else if lin := m.liftInstr(in); lin == nil || lrm == nil || lin == lrm || reachesAvoiding(lrm, lin, nil) {
					after = true
				}
				if after {
					bad = append(bad, "a rename at "+m.p.InstrPos(in)+" can still run after the merge directory was removed")
				}
			}
		}
	}
	if nLoops == 0 {
		core.Failf("vacuity guard: no adoption loop with file-system mutations found")
	}
	m.rep.Check(len(bad) == 0, "PS5", "adoption-completes-before-cleanup:"+core.FuncKey(a), "the merge directory is removed only after every rewritten file was visited", m.p.Pos(a.Pos()), strings.Join(sortedStr(bad), "; "), true)

	// (g) rename keeps id and suffix
	nR := 0
	for _, b := range m.adoptBlocks() {
		for _, in := range b.Instrs {
			if !calleeIs(in, "os.Rename") {
				continue
			}
			nR++
			args := in.(ssa.CallInstruction).Common().Args
			why := ""
			var gs [2]*ssa.Call
			for i := 0; i < 2; i++ {
				for _, o := range core.Origins(args[i]) {
					if c, ok := o.(*ssa.Call); ok && c.Common().StaticCallee() == m.getName {
						gs[i] = c
					}
				}
			}
			if gs[0] == nil || gs[1] == nil {
				why = "rename arguments are not built by GetFileName"
			} else {
				s0, _ := strConst(gs[0].Common().Args[2])
				s1, _ := strConst(gs[1].Common().Args[2])
				id0, id1 := gs[0].Common().Args[1], gs[1].Common().Args[1]
				k0, c0 := constInt(id0)
				k1, c1 := constInt(id1)
				sameID := sameOrigin(id0, id1) || (c0 && c1 && k0 == k1)
				if s0 != s1 || !sameID {
					why = fmt.Sprintf("source and destination differ in id or suffix (%q vs %q): hint positions would name files that do not hold the hinted records", s0, s1)
				}
				if f := core.LastField(gs[1].Common().Args[0]); f != m.p.R.OptDir {
					why = "rename destination is not in the data directory"
				}
			}
			m.rep.Check(why == "", "PS5", fmt.Sprintf("rename-same-name#%d:%s", nR, core.FuncKey(a)), "a rewritten file is adopted under the id and suffix it was written with", m.p.InstrPos(in), why, true)
			// (h) the move is decided by the existence of its SOURCE (restartability), never by the destination
			gated := false
			for _, gb := range b.Parent().Blocks {
				iff, ok := gb.Instrs[len(gb.Instrs)-1].(*ssa.If)
				if !ok {
					continue
				}
				bo, ok := iff.Cond.(*ssa.BinOp)
				if !ok || !core.IsNilConst(bo.Y) || (bo.Op != token.EQL && bo.Op != token.NEQ) {
					continue
				}
				c, idx := extractOf(bo.X)
				if c == nil || idx != 1 || !core.StaticCalleeIs(c.Common(), "os.Stat") || !sameOrigin(c.Common().Args[0], args[0]) {
					continue
				}
				if edgeDominates(iff, bo.Op == token.EQL, b) {
					gated = true
				}
				// "if stat fails { if IsNotExist continue; return err }; rename": rename after the failure branch left
				fail := gb.Succs[0]
				if bo.Op == token.EQL {
					fail = gb.Succs[1]
				}
				if !gated && gb.Dominates(b) && !(fail == b || fail.Dominates(b)) && !reachBlockAvoid(fail, b, gb) {
					gated = true
				}
			}
			m.rep.Check(gated, "PS5", fmt.Sprintf("rename-gated-by-source#%d:%s", nR, core.FuncKey(a)), "a file is moved exactly when its source still exists in the merge directory", m.p.InstrPos(in), "the rename is not under a successful os.Stat of its source: deciding by the destination keeps a stale file (e.g. the hint of an earlier merge) and the new one is deleted with the merge directory", true)
		}
	}
}

func callsRemoveAll(fn *ssa.Function) bool {
	if fn == nil {
		return false
	}
	for _, b := range fn.Blocks {
		for _, in := range b.Instrs {
			if calleeIs(in, "os.RemoveAll") {
				return true
			}
		}
	}
	return false
}

func (m *mergeCtx) reachesMarkerRead(c *ssa.Call) bool {
	rd := m.p.Reaches("marker.read", func(site ssa.CallInstruction) bool {
		f := site.Common().StaticCallee()
		return f != nil && f.Name() == "ReadMergeFinRecord"
	})
	callee := c.Common().StaticCallee()
	return callee != nil && (rd[callee] || callee.Name() == "ReadMergeFinRecord")
}

// underStatOfMerged: block b is dominated by the success edge of os.Stat(<file in the merge directory>).
func (m *mergeCtx) underStatOfMerged(b *ssa.BasicBlock) bool {
	for _, gb := range b.Parent().Blocks {
		iff, ok := gb.Instrs[len(gb.Instrs)-1].(*ssa.If)
		if !ok {
			continue
		}
		bo, ok := iff.Cond.(*ssa.BinOp)
		if !ok || !core.IsNilConst(bo.Y) || (bo.Op != token.EQL && bo.Op != token.NEQ) {
			continue
		}
		c, idx := extractOf(bo.X)
		if c == nil || idx != 1 || !core.StaticCalleeIs(c.Common(), "os.Stat") {
			continue
		}
		// the path must be a GetFileName in a directory other than the data directory
		inMergeDir := false
		for _, o := range core.Origins(c.Common().Args[0]) {
			if gc, ok := o.(*ssa.Call); ok && gc.Common().StaticCallee() == m.getName {
				if f := core.LastField(gc.Common().Args[0]); f != m.p.R.OptDir {
					if s, _ := strConst(gc.Common().Args[2]); s == m.suffix("DataFileSuffix") {
						inMergeDir = true
					}
				}
			}
		}
		if inMergeDir && edgeDominates(iff, bo.Op == token.EQL, b) {
			return true
		}
	}
	return false
}

type loopInfo struct {
	header *ssa.BasicBlock
	body   map[*ssa.BasicBlock]bool
}

func naturalLoops(fn *ssa.Function) []loopInfo {
	var out []loopInfo
	for _, h := range fn.Blocks {
		body := map[*ssa.BasicBlock]bool{}
		for _, p := range h.Preds {
			if h.Dominates(p) {
				// nodes that reach p without passing h
				body[h] = true
				var work []*ssa.BasicBlock
				if !body[p] {
					body[p] = true
					work = append(work, p)
				}
				for len(work) > 0 {
					x := work[len(work)-1]
					work = work[:len(work)-1]
					for _, q := range x.Preds {
						if !body[q] {
							body[q] = true
							work = append(work, q)
						}
					}
				}
			}
		}
		if len(body) > 0 {
			out = append(out, loopInfo{header: h, body: body})
		}
	}
	sort.Slice(out, func(i, j int) bool { return out[i].header.Index < out[j].header.Index })
	return out
}

// onlyFailureReturns: every return reachable within the region dominated by b returns a non-nil error and the
// region does not flow back out.
func onlyFailureReturns(b *ssa.BasicBlock) bool {
	fn := b.Parent()
	ei := core.ErrResultIndex(fn.Signature)
	if ei < 0 {
		return false
	}
	seen := map[*ssa.BasicBlock]bool{}
	work := []*ssa.BasicBlock{b}
	n := 0
	for len(work) > 0 {
		x := work[len(work)-1]
		work = work[:len(work)-1]
		if seen[x] {
			continue
		}
		seen[x] = true
		if n++; n > 6 {
			return false
		}
		switch t := x.Instrs[len(x.Instrs)-1].(type) {
		case *ssa.Return:
			if core.IsNilConst(core.ReturnOperand(t, ei)) {
				return false
			}
		case *ssa.Panic:
		default:
			if len(x.Succs) == 0 {
				return false
			}
			work = append(work, x.Succs...)
		}
	}
	return true
}

// ps8Merge: C06.S2 - errors of every call made by the merge / adoption / hint-load functions.
func (m *mergeCtx) ps8Merge() {
	scope := map[*ssa.Function]bool{m.merge: true, m.adopt: true}
	for _, f := range m.adoptRegion {
		scope[f] = true
	}
	for _, fn := range m.p.LibFuncs() {
		if !inRootPkg(fn) {
			continue
		}
		for _, b := range fn.Blocks {
			for _, in := range b.Instrs {
				if ci, ok := in.(ssa.CallInstruction); ok {
					if c := ci.Common().StaticCallee(); c != nil && (c.Name() == "NextHintRecord" || c.Name() == "ReadMergeFinRecord") {
						scope[fn] = true
					}
				}
			}
		}
	}
	degrade := map[string]string{}
	for fn := range scope {
		for _, b := range fn.Blocks {
			for _, in := range b.Instrs {
				if ci, ok := in.(ssa.CallInstruction); ok {
					if c := ci.Common().StaticCallee(); c != nil && c.Name() == "ReadMergeFinRecord" && core.ErrResultIndex(fn.Signature) < 0 {
						degrade[core.FuncKey(fn)] = "a marker that cannot be opened reads as 0 = 'no finished merge to adopt' (designed behaviour; adoption is gated on a non-zero id)"
					}
				}
			}
		}
	}
	ps8(m.p, m.rep, ps8Scope{
		name:  "merge",
		funcs: func(fn *ssa.Function) bool { return scope[fn] || (fn.Parent() != nil && scope[fn.Parent()]) },
		source: func(fn *ssa.Function, ci ssa.CallInstruction) bool {
			return true
		},
		degrade: degrade,
	})
}

// reachBlockAvoid: can `to` be reached from `from` without passing through `avoid` (the loop header / test block)?
func reachBlockAvoid(from, to, avoid *ssa.BasicBlock) bool {
	seen := map[*ssa.BasicBlock]bool{}
	work := []*ssa.BasicBlock{from}
	for len(work) > 0 {
		x := work[len(work)-1]
		work = work[:len(work)-1]
		if x == to {
			return true
		}
		if seen[x] || x == avoid {
			continue
		}
		seen[x] = true
		work = append(work, x.Succs...)
	}
	return false
}
