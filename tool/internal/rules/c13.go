package rules

import (
	"go/constant"

	"golang.org/x/tools/go/ssa"

	"xkvverif/internal/core"
)

// ps1Always: with SyncStrategy = Always every success return of Put/Delete is clean.
func ps1Always(p *core.Prog, rep *core.Report) {
	rep.Rule("PS1", "sync-before-acknowledge: clean/dirty typestate over the entry point and its callees (summaries, error facts); WRITE = ReadWriter.Write, flush = (*os.File).Sync / mmap.Flush; every success return must be clean under the scenario")
	sc := durScenario{name: "SyncStrategy=Always", sync: syncConst(p, "Always"), invActive: true, mapped: true, open: true}
	d := newDurability(p, rep, sc, "PS1")
	for _, m := range []string{"Put", "Delete"} {
		fn := p.MustMethod(p.R.DB, m)
		d.runEntry(fn, "Cob", "(*DB)."+m+"|SyncStrategy=Always|success-returns", "every success return is reached in state clean", func(a string) bool { return a[0] == 'C' })
	}
	d.flush()
	if rep.Stats["write_events"] == 0 {
		core.Failf("vacuity guard: PS1 found no WRITE event below Put/Delete (every state would be trivially clean)")
	}
}

// thresholdDiscipline: C13.S2 (a)-(c).
func thresholdDiscipline(p *core.Prog, rep *core.Report) {
	rep.Rule("THR", "threshold counter discipline under SyncStrategy=Threshold: every successful write is added to the counter compared with BytesPerSync; the counter is reset only in state clean; at every success return of Put/Delete the state is clean or (counted and found below the threshold). Entry state = the invariant itself (induction over calls)")
	sc := durScenario{name: "SyncStrategy=Threshold", sync: syncConst(p, "Threshold"), invActive: true, mapped: true, open: true}
	d := newDurability(p, rep, sc, "THR")
	d.checkCounter = true
	for _, m := range []string{"Put", "Delete"} {
		fn := p.MustMethod(p.R.DB, m)
		d.runEntry(fn, "Dob", "(*DB)."+m+"|SyncStrategy=Threshold|success-returns",
			"every success return is clean, or all written bytes are counted and the counter was found below BytesPerSync",
			func(a string) bool { return a[0] == 'C' || (a[1] == 'o' && a[2] == 'b') })
	}
	// every other library function that stores the counter is analysed on its own from a dirty state
	analysed := map[*ssa.Function]bool{}
	for k := range d.storesSeen {
		_ = k
	}
	for _, fn := range p.LibFuncs() {
		stores := false
		for _, b := range fn.Blocks {
			for _, in := range b.Instrs {
				if f, _, _ := core.StoreField(in); f == d.counter {
					stores = true
				}
			}
		}
		if !stores || analysed[fn] {
			continue
		}
		analysed[fn] = true
		key := "counter-reset:" + core.FuncKey(fn)
		// already covered through Put/Delete?  (findings are deduplicated by construct)
		d.eng.Run(fn, "Dsu", "")
		_ = key
	}
	d.flush()
	n := 0
	for k := range d.storesSeen {
		rep.OK("THR", k, "counter reset happens in state clean (flush succeeded, no write since)", "", true)
		n++
	}
	if n == 0 && len(rep.Obls) > 0 {
		// a reset site must exist, else the threshold would fire on every call after the first
		hasBad := false
		for _, o := range rep.Obls {
			if o.Rule == "THR" && o.Status != core.Discharged {
				hasBad = true
			}
		}
		if !hasBad {
			core.Failf("vacuity guard: THR found no reset of the bytes-since-sync counter")
		}
	}
}

// ps1Batch: a Sync batch is flushed including its seal before Commit returns.
func ps1Batch(p *core.Prog, rep *core.Report) {
	sc := durScenario{name: "BatchOptions.Sync=true", batchSync: constant.MakeBool(true), invActive: true, mapped: true, open: true}
	d := newDurability(p, rep, sc, "PS1")
	fn := p.MustMethod(p.R.Batch, "Commit")
	d.runEntry(fn, "Cob", "(*Batch).Commit|BatchOptions.Sync=true|success-returns", "every success return is reached in state clean (seal record included)", func(a string) bool { return a[0] == 'C' })
	d.flush()
}

// ps1SyncClose: DB.Sync and DB.Close flush everything written so far.
func ps1SyncClose(p *core.Prog, rep *core.Report) {
	sc := durScenario{name: "any strategy; open database", invActive: true, mapped: true, open: true}
	d := newDurability(p, rep, sc, "PS1")
	d.checkFdClose = true
	for _, m := range []string{"Sync", "Close"} {
		fn := p.MustMethod(p.R.DB, m)
		d.runEntry(fn, "Dsu", "(*DB)."+m+"|entry=dirty|success-returns", "starting dirty, every success return is clean", func(a string) bool { return a[0] == 'C' })
	}
	d.flush()
}

// ps2Impls: every ReadWriter implementation's Sync reaches an OS durability primitive on every success
// path, and its Close passes one before closing the descriptor.
func ps2Impls(p *core.Prog, rep *core.Report) {
	rep.Rule("PS2", "each ReadWriter implementation: Sync success => flushed; Close success => flushed, and the descriptor is never closed while dirty (sibling parity of the I/O back-ends)")
	impls := p.R.Impls(p.R.ReadWriter)
	if len(impls) < 2 {
		core.Failf("vacuity guard: expected >= 2 ReadWriter implementations, found %d", len(impls))
	}
	for _, im := range impls {
		sc := durScenario{name: "impl " + im.Obj().Name() + " (mapped)", mapped: true, open: true}
		d := newDurability(p, rep, sc, "PS2")
		d.checkFdClose = true
		for _, m := range []string{"Sync", "Close"} {
			fn := p.MustMethod(im, m)
			d.runEntry(fn, "Dsu", "(*"+im.Obj().Name()+")."+m+"|entry=dirty|success-returns", "starting dirty, every success return is clean", func(a string) bool { return a[0] == 'C' })
		}
		d.flush()
	}
}

// ps3Rotate: the outgoing active file is flushed before the engine rotates away from it.
func ps3Rotate(p *core.Prog, rep *core.Report) {
	rep.Rule("PS3", "flush-before-rotate: every store to the DB's active-file field reachable from a public entry point (entry state dirty; Open: clean) happens in state clean")
	sc := durScenario{name: "any strategy", mapped: true, open: true, invActive: true}
	d := newDurability(p, rep, sc, "PS3")
	d.checkRotate = true
	entries := publicEntries(p)
	for _, fn := range entries {
		d.eng.Run(fn, "Dsu", "")
	}
	// Open builds a fresh database: nothing has been written, and activeFile is not yet set
	sc2 := sc
	sc2.invActive = false
	d2 := newDurability(p, rep, sc2, "PS3")
	d2.checkRotate = true
	if open := p.Func(core.ModPath, "Open"); open != nil {
		d2.eng.Run(open, "Cob", "")
	} else {
		core.Failf("role unresolved: Open")
	}
	d.flush()
	d2.flush()
	n := 0
	for _, dd := range []*durability{d, d2} {
		for k := range dd.storesSeen {
			rep.OK("PS3", k, "store to the active-file field happens in state clean", "", true)
			n++
		}
	}
	if n == 0 {
		bad := false
		for _, o := range rep.Obls {
			if o.Rule == "PS3" {
				bad = true
			}
		}
		if !bad {
			core.Failf("vacuity guard: PS3 found no store to the active-file field")
		}
	}
}

// publicEntries: exported methods of DB and Batch (the public mutating/reading API).
func publicEntries(p *core.Prog) []*ssa.Function {
	var out []*ssa.Function
	for _, n := range []string{"Put", "Get", "Delete", "ListKeys", "Fold", "Stat", "Sync", "Close", "Backup", "Merge", "NewBatch", "NewIterator"} {
		out = append(out, p.MustMethod(p.R.DB, n))
	}
	for _, n := range []string{"Put", "Get", "Delete", "Commit"} {
		out = append(out, p.MustMethod(p.R.Batch, n))
	}
	return out
}

func C13(p *core.Prog, rep *core.Report) {
	ps1Always(p, rep)
	thresholdDiscipline(p, rep)
	ps1Batch(p, rep)
	ps1SyncClose(p, rep)
	ps2Impls(p, rep)
	ps3Rotate(p, rep)
	ps8(p, rep, ps8Scope{
		name: "flush",
		funcs: func(fn *ssa.Function) bool {
			n := core.RecvNamed(fn)
			if n == p.R.DB && (fn.Name() == "Close" || fn.Name() == "Sync") {
				return true
			}
			return (n == p.R.DataFile || n == p.R.FileIO || n == p.R.MMap) && (fn.Name() == "Close" || fn.Name() == "Sync")
		},
		source: func(fn *ssa.Function, ci ssa.CallInstruction) bool {
			c := ci.Common()
			if c.IsInvoke() {
				return c.Method == p.R.RWSync || c.Method == p.R.RWClose
			}
			f := c.StaticCallee()
			if f == nil {
				return false
			}
			if f.Name() == "Sync" || f.Name() == "Close" || f.Name() == "Flush" || f.Name() == "Unmap" || f.Name() == "Truncate" {
				return f.String() != "(*github.com/gofrs/flock.Flock).Close"
			}
			return false
		},
		degrade: map[string]string{},
	})
	rep.Assumptions = append(rep.Assumptions,
		"(*os.File).Sync and mmap.MMap.Flush make previously written bytes durable when they return nil (OS contract)",
		"INV-ACTIVE: DB.activeFile is non-nil on an open database (set by Open before it returns)",
		"files of an open database are not closed (DataFile.closed == false) - Close is the last call",
		"dirty => mapped for MMap: MMap.Write maps the region before copying, so a file with unflushed bytes has a non-nil mapping",
		"the clean/dirty automaton is per database, not per file object; rotating between a write and its flush is excluded by PS3",
		"Threshold induction: entry state of Put/Delete is the invariant itself (dirty, all bytes counted, counter below BytesPerSync); BytesPerSync > 0 is enforced by checkOptions")
	rep.NotCovered = append(rep.NotCovered,
		"that the OS primitives do what they say; byte counts themselves (the counter is checked to be increased by a value derived from the write, not its arithmetic)",
		"batch writes are outside the Threshold clause (the property counts Put/Delete bytes only)")
}
