package rules

import (
	"golang.org/x/tools/go/ssa"

	"xkvverif/internal/core"
)

// Rule groups. A rule belongs to a property's check whenever breaking it breaks that property's behaviour for some
// input in the property's quantifier; the three held-out seeding rounds showed that changes made "for" one property
// very often break it through a mechanism first listed under another (a write cursor moved before the write breaks
// reads, restarts, framing and crash recovery alike). Groups keep the per-property rule lists honest about that.
// Obligations are merged by rule+construct, so a rule reached through two groups is reported once.

// frameGroup: the on-disk format and its readers (data_file.go, log_record.go).
func frameGroup(p *core.Prog, rep *core.Report) {
	codecAgreement(p, rep)
	h := cd2Header(p, rep)
	bs, hdr := cd3Threshold(p, rep, h)
	cd3bPadPerRecord(p, rep, bs, hdr)
	cd5Width(p, rep, bs, hdr)
	cd7LogicalSize(p, rep)
	wd1WideOffsets(p, rep, bs)
	cd8CursorInBlock(p, rep, bs)
	cd9OpenCursor(p, rep, bs)
	cd10LoopCarriedCursor(p, rep)
	cd11SizePerChunk(p, rep, hdr)
	cd12ChunkFitsBlock(p, rep)
	chunkTypeProtocol(p, rep)
	cd4Framing(p, rep)
	wr1SingleWrite(p, rep)
	bd1Bounds(p, rep)
	bd2Sign(p, rep)
	bd3Crc(p, rep)
	bd4Window(p, rep)
	eof1(p, rep)
	eof2ScanEnds(p, rep)
	ps8Readers(p, rep, "read")
	ps8Backend(p, rep)
	rt2Decoded(p, rep)
	pool3BufferSingleRelease(p, rep)
	pool4NoUseAfterRelease(p, rep)
}

// batchGroup: tagging, sealing, staging and the record pool (batch.go, replay in db.go).
func batchGroup(p *core.Prog, rep *core.Report) {
	v := newVF(p, rep)
	v.vf3Tagging()
	v.vf3Replay()
	v.vf3Merge()
	poolReset(p, rep)
	pool2SingleRelease(p, rep)
	bt1PutType(p, rep)
	bt2FlushThenStage(p, rep)
	bt3FlushLoopComplete(p, rep)
	bt4StagedIndexed(p, rep)
	bt4bBucketAppend(p, rep)
	bt5SizeBookkeeping(p, rep)
	ps6SealLast(p, rep)
	stagedOrder(p, rep)
}

// mergeGroup: Merge, the marker, the hint file and adoption (merge.go).
func mergeGroup(p *core.Prog, rep *core.Report) {
	m := newMergeCtx(p, rep)
	cd4Framing(p, rep)
	m.ps8Merge()
	m.mg1Guard()
	m.mg2MarkerID()
	m.mg3Liveness()
	m.mg4EveryRecordLookedUp()
	m.vf5Hint()
	m.ps5MergeOrder()
	m.ps5Adoption()
	m.ps5Tolerant()
	m.ps5ScratchOnly()
	m.mp1MergePath()
	rp1SkipBelow(p, rep)
	eof2ScanEnds(p, rep)
	v := newVF(p, rep)
	v.vf3Merge()
	hintLoader(p, rep, v)
}

// rt2Decoded: the record decoder and the sequential reader hand out private memory: recovery parks decoded records of
// a batch until its seal arrives, Merge holds a record across the next read; a view into the reader's reusable block
// buffer is overwritten by the next block.
func rt2Decoded(p *core.Prog, rep *core.Report) {
	rep.Rule("RT2", "fresh results (decoders): the Key and Value of the record returned by DecodeLogRecord, and the bytes returned by the sequential reader, originate from allocations made during the call - not from the input buffer / the reader's reusable block buffer")
	f := &fresher{p: p}
	dec := p.Func(core.ModPath+"/datafile", "DecodeLogRecord")
	if dec == nil {
		core.Failf("role unresolved: datafile.DecodeLogRecord")
	}
	var bad []string
	n := 0
	for _, b := range dec.Blocks {
		for _, in := range b.Instrs {
			fld, base, val := core.StoreField(in)
			if fld == nil || (fld != p.R.LRKey && fld != p.R.LRValue) || !freshInFn(base, dec) {
				continue
			}
			n++
			for _, w := range f.nonFresh(dec, val, 0, nil) {
				bad = append(bad, "LogRecord."+fld.Name()+": "+w)
			}
		}
	}
	if n < 2 {
		core.Failf("vacuity guard: RT2 expected Key and Value stores in DecodeLogRecord, found %d", n)
	}
	rep.Check(len(bad) == 0, "RT2", "fresh-result:"+core.FuncKey(dec), "decoded key and value are private copies", p.Pos(dec.Pos()), joinSorted(bad), true)
	for _, name := range []string{"NextLogRecord", "NextHintRecord"} {
		fn := p.MustMethod(p.R.DataReader, name)
		// the raw bytes come from the unexported assembling method: result #0 of the call whose result is decoded
		var bad2 []string
		for _, b := range fn.Blocks {
			for _, in := range b.Instrs {
				c, ok := in.(*ssa.Call)
				if !ok {
					continue
				}
				callee := c.Common().StaticCallee()
				if callee == nil || core.RecvNamed(callee) != p.R.DataReader || callee.Signature.Results().Len() != 3 {
					continue
				}
				for _, r := range core.Returns(callee) {
					bad2 = append(bad2, f.nonFresh(callee, core.ReturnOperand(r, 0), 0, nil)...)
				}
			}
		}
		rep.Check(len(bad2) == 0, "RT2", "fresh-result:"+core.FuncKey(fn)+"-bytes", "the assembled record bytes are not a view into the reader's block buffer", p.Pos(fn.Pos()), joinSorted(bad2), true)
	}
}

func joinSorted(s []string) string {
	out := ""
	for i, x := range sortedStr(s) {
		if i > 0 {
			out += " || "
		}
		out += x
	}
	return out
}
