package rules

import (
	"fmt"
	"go/token"
	"go/types"
	"strings"

	"golang.org/x/tools/go/ssa"

	"xkvverif/internal/core"
)

// ---------------------------------------------------------------------------------------------------
// PS8 error discipline (DESIGN 2.3): for every call in the source set that returns an error, the error is
// returned, propagated (passed on), or tested with the non-nil side leading only to failure returns -
// except the enumerated idioms: the io.EOF test (end of log), os.Stat/os.IsNotExist existence probes, and
// the frozen degrade-to-default table.
// ---------------------------------------------------------------------------------------------------

type ps8Scope struct {
	name    string
	funcs   func(fn *ssa.Function) bool                         // functions whose calls are checked
	source  func(fn *ssa.Function, ci ssa.CallInstruction) bool // calls in the source set
	degrade map[string]string                                   // FuncKey -> reason: function may degrade to a default
	noEOF   bool                                                // the io.EOF idiom is NOT accepted in this scope (below the scan loops nothing may turn an error into 'fine')
}

func errValueOf(ci ssa.CallInstruction) ssa.Value {
	v, ok := ci.(ssa.Value)
	if !ok {
		return nil
	}
	sig := ci.Common().Signature()
	ei := core.ErrResultIndex(sig)
	if ei < 0 {
		return nil
	}
	if sig.Results().Len() == 1 {
		return v
	}
	for _, ref := range *v.Referrers() {
		if e, ok := ref.(*ssa.Extract); ok && e.Index == ei {
			return e
		}
	}
	return nil // never extracted: dropped
}

// regionReturnsNil: within the blocks dominated by start, is there a Return whose error operand is the nil constant?
func dominatedReturns(start *ssa.BasicBlock) []*ssa.Return {
	var out []*ssa.Return
	fn := start.Parent()
	for _, b := range fn.Blocks {
		if b == start || start.Dominates(b) {
			if r, ok := b.Instrs[len(b.Instrs)-1].(*ssa.Return); ok {
				out = append(out, r)
			}
		}
	}
	return out
}

func isEOFTest(b *ssa.BasicBlock, e ssa.Value) bool {
	iff, ok := b.Instrs[len(b.Instrs)-1].(*ssa.If)
	if !ok {
		return false
	}
	bo, ok := iff.Cond.(*ssa.BinOp)
	if !ok || bo.Op != token.EQL {
		return false
	}
	for _, pr := range [][2]ssa.Value{{bo.X, bo.Y}, {bo.Y, bo.X}} {
		if pr[0] == e {
			if u, ok := pr[1].(*ssa.UnOp); ok {
				if g, ok := u.X.(*ssa.Global); ok && g.Name() == "EOF" && g.Pkg.Pkg.Path() == "io" {
					return true
				}
			}
		}
	}
	return false
}

func ps8(p *core.Prog, rep *core.Report, sc ps8Scope) {
	rep.Rule("PS8", "error discipline over a per-property source set: the error of every such call is returned, passed on, or tested with its non-nil side reaching only failure returns; dropping it, overwriting it, or returning nil on the non-nil edge are violations. Accepted idioms: io.EOF = end of log; os.Stat / os.IsNotExist existence probes; frozen degrade-to-default table")
	n := 0
	for _, fn := range p.LibFuncs() {
		if !sc.funcs(fn) {
			continue
		}
		_, mayDegrade := sc.degrade[core.FuncKey(fn)]
		hasErrResult := core.ErrResultIndex(fn.Signature) >= 0
		for _, b := range fn.Blocks {
			for _, in := range b.Instrs {
				ci, ok := in.(ssa.CallInstruction)
				if !ok {
					continue
				}
				if _, isDefer := in.(*ssa.Defer); isDefer {
					continue
				}
				if _, isGo := in.(*ssa.Go); isGo {
					continue
				}
				if core.ErrResultIndex(ci.Common().Signature()) < 0 || !sc.source(fn, ci) {
					continue
				}
				n++
				key := fmt.Sprintf("%s:%s->%s", sc.name, core.FuncKey(fn), shortCallee(ci.Common()))
				e := errValueOf(ci)
				what := "the error of this call is propagated or handled"
				if e == nil || e.Referrers() == nil || len(*e.Referrers()) == 0 {
					if mayDegrade {
						rep.OK("PS8", key, what+" (degrade-to-default table: "+sc.degrade[core.FuncKey(fn)]+")", p.InstrPos(in), false)
						continue
					}
					rep.Bad("PS8", key, what, p.InstrPos(in), "the error result is discarded")
					continue
				}
				verdict := ""
				handled := false
				for _, ref := range *e.Referrers() {
					switch r := ref.(type) {
					case *ssa.Return:
						handled = true
					case *ssa.Store:
						handled = true // spilled to the named result / a cell that is returned or tested
					case ssa.CallInstruction:
						handled = true // passed on (fail(err), fmt.Errorf("...", err), os.IsNotExist(err))
					case *ssa.MakeInterface, *ssa.ChangeInterface:
						handled = true
					case *ssa.Phi:
						// merged with another definition of the same variable: handled only if this definition cannot
						// be overwritten before it is looked at - i.e. the phi itself is tested / returned and no other
						// incoming edge of it is a LATER call result (err = f(); ...; err = g(); return err)
						if phiKeeps(r, e) {
							handled = true
						} else {
							verdict = "the error is assigned to a variable that a later call overwrites before it is tested or returned"
							handled = true
						}
					case *ssa.BinOp:
						if !core.IsNilConst(r.Y) && !core.IsNilConst(r.X) {
							handled = true // compared with a sentinel
							if sc.noEOF && (r.Op == token.EQL || r.Op == token.NEQ) {
								// the edge on which the error EQUALS the sentinel is an edge where it is non-nil: a nil
								// return dominated by it turns that error into success
								for _, ref2 := range *r.Referrers() {
									iff, ok := ref2.(*ssa.If)
									if !ok {
										continue
									}
									eq := iff.Block().Succs[0]
									if r.Op == token.NEQ {
										eq = iff.Block().Succs[1]
									}
									if len(eq.Preds) != 1 {
										continue
									}
									for _, ret := range dominatedReturns(eq) {
										if ei := core.ErrResultIndex(fn.Signature); ei >= 0 && core.IsNilConst(core.ReturnOperand(ret, ei)) {
											verdict = "nil is returned at " + p.InstrPos(ret) + " on the edge where this error equals a sentinel (" + p.InstrPos(iff) + "): below the readers no error may be turned into success"
										}
									}
								}
							}
							continue
						}
						// nil test: look at the non-nil side
						for _, ref2 := range *r.Referrers() {
							iff, ok := ref2.(*ssa.If)
							if !ok {
								handled = true
								continue
							}
							handled = true
							nonNil := iff.Block().Succs[0]
							if r.Op == token.EQL {
								nonNil = iff.Block().Succs[1]
							}
							if len(nonNil.Preds) != 1 {
								// shared block (e.g. "err == nil || ..."): not a swallowing branch by itself - unless this
								// test is all that ever looks at the error (`if err != nil { continue }`: the empty branch
								// is threaded away and the non-nil edge simply joins the normal path)
								onlyTests := true
								for _, r3 := range *e.Referrers() {
									if b3, ok := r3.(*ssa.BinOp); !ok || !(core.IsNilConst(b3.X) || core.IsNilConst(b3.Y)) {
										if _, isDbg := r3.(*ssa.DebugRef); !isDbg {
											onlyTests = false
										}
									}
								}
								if onlyTests && hasErrResult && !isStatProbe(ci.Common()) {
									verdict = "the non-nil edge of the test at " + p.InstrPos(iff) + " joins the normal path and nothing else looks at the error: it is ignored (continue / empty branch)"
								}
								continue
							}
							if isStatProbe(ci.Common()) {
								continue
							}
							if hasErrResult && !regionPropagates(nonNil, e, fn) {
								verdict = "the non-nil side of the test at " + p.InstrPos(iff) + " never reaches a failure return: the error is swallowed and the caller continues"
							}
							for _, ret := range dominatedReturns(nonNil) {
								if !hasErrResult {
									if !mayDegrade {
										verdict = "non-nil error leads to a plain return in a function without an error result at " + p.InstrPos(ret)
									}
									continue
								}
								ev := core.ReturnOperand(ret, core.ErrResultIndex(fn.Signature))
								if core.IsNilConst(ev) {
									// allowed only behind the io.EOF idiom
									if sc.noEOF || !behindEOF(nonNil, ret.Block(), e) {
										verdict = "nil is returned at " + p.InstrPos(ret) + " on the edge where this error is non-nil"
									}
								}
							}
						}
					}
				}
				if !handled {
					verdict = "the error value is never returned, tested or passed on"
				}
				if verdict != "" && mayDegrade {
					rep.OK("PS8", key, what+" (degrade-to-default table: "+sc.degrade[core.FuncKey(fn)]+")", p.InstrPos(in), false)
					continue
				}
				rep.Check(verdict == "", "PS8", key, what, p.InstrPos(in), verdict, true)
			}
		}
	}
	if n == 0 {
		core.Failf("vacuity guard: PS8 scope %s matched no call", sc.name)
	}
	for k, why := range sc.degrade {
		rep.Tables = append(rep.Tables, "degrade-to-default: "+k+" - "+why)
	}
}

func isStatProbe(c *ssa.CallCommon) bool {
	return core.StaticCalleeIs(c, "os.Stat") || core.StaticCalleeIs(c, "os.Lstat")
}

// behindEOF: the return block is reached from the non-nil block only through the true edge of (err == io.EOF).
func behindEOF(nonNil, ret *ssa.BasicBlock, e ssa.Value) bool {
	fn := nonNil.Parent()
	for _, b := range fn.Blocks {
		if (b == nonNil || nonNil.Dominates(b)) && isEOFTest(b, e) {
			t := b.Succs[0]
			if len(t.Preds) == 1 && (t == ret || t.Dominates(ret)) {
				return true
			}
		}
	}
	return false
}

func shortCallee(c *ssa.CallCommon) string {
	s := core.CalleeName(c)
	s = strings.ReplaceAll(s, core.ModPath+"/", "")
	s = strings.ReplaceAll(s, core.ModPath, "xixi_kv")
	return s
}

// ps8Readers: C12.S5 / C02.S3b - errors of calls that reach ReadWriter.Read.
func ps8Readers(p *core.Prog, rep *core.Report, name string) {
	rd := p.Reaches("rw.read", func(site ssa.CallInstruction) bool { return isReadPrimitive(p, site.Common()) })
	dec := chunkDecoder(p)
	ps8(p, rep, ps8Scope{
		name: "read",
		funcs: func(fn *ssa.Function) bool {
			if fn.Package() == nil && fn.Parent() == nil {
				return false
			}
			return inRootPkg(fn) || (fn.Package() != nil && fn.Package().Pkg.Path() == core.ModPath+"/datafile") || (fn.Parent() != nil && inRootPkg(fn.Parent()))
		},
		source: func(fn *ssa.Function, ci ssa.CallInstruction) bool {
			if isReadPrimitive(p, ci.Common()) {
				return true
			}
			for _, c := range p.Callees(ci) {
				if c == dec || (p.InLib(c) && rd[c]) {
					return true
				}
			}
			return false
		},
		degrade: map[string]string{
			"(*datafile.DataFile).ReadMergeFinRecord": "an unreadable merge marker reads as 0 = 'no finished merge to adopt' (designed behaviour; adoption is gated on a non-zero id)",
		},
	})
}

// regionPropagates: in the blocks dominated by the non-nil successor there is a return of a non-nil error, or
// the error is passed to a call (fail(err), fmt.Errorf, panic).
func regionPropagates(nonNil *ssa.BasicBlock, e ssa.Value, fn *ssa.Function) bool {
	ei := core.ErrResultIndex(fn.Signature)
	for _, b := range fn.Blocks {
		if b != nonNil && !nonNil.Dominates(b) {
			continue
		}
		for _, in := range b.Instrs {
			switch t := in.(type) {
			case *ssa.Return:
				if ei >= 0 && !core.IsNilConst(core.ReturnOperand(t, ei)) {
					return true
				}
			case *ssa.Panic:
				return true
			case ssa.CallInstruction:
				for _, a := range t.Common().Args {
					if a == e {
						if !core.StaticCalleeIs(t.Common(), "os.IsNotExist") {
							return true
						}
					}
				}
			}
		}
	}
	// remembered for later: the error is merged (in the region) into a variable that some return of the function
	// hands back (`if err != nil && first == nil { first = err }` ... `return first`)
	if ei >= 0 && e.Referrers() != nil {
		for _, r := range *e.Referrers() {
			ph, ok := r.(*ssa.Phi)
			if !ok {
				continue
			}
			for _, ret := range core.Returns(fn) {
				for _, o := range core.Origins(core.ReturnOperand(ret, ei)) {
					if o == e || o == ssa.Value(ph) {
						return true
					}
				}
				// Origins looks through phis: also accept a return operand that IS a phi fed by ph
				if rp, ok := core.ReturnOperand(ret, ei).(*ssa.Phi); ok {
					seen := map[*ssa.Phi]bool{}
					var feeds func(x *ssa.Phi) bool
					feeds = func(x *ssa.Phi) bool {
						if seen[x] {
							return false
						}
						seen[x] = true
						for _, ed := range x.Edges {
							if ed == e || ed == ssa.Value(ph) {
								return true
							}
							if p2, ok := ed.(*ssa.Phi); ok && feeds(p2) {
								return true
							}
						}
						return false
					}
					if feeds(rp) {
						return true
					}
				}
			}
		}
	}
	return false
}

// phiKeeps: the phi merges e only with nil constants or with itself (conditional assignment idioms), not with the
// result of another call that would overwrite e.
func phiKeeps(ph *ssa.Phi, e ssa.Value) bool {
	for _, ed := range ph.Edges {
		if ed == e || ed == ssa.Value(ph) || core.IsNilConst(ed) {
			continue
		}
		switch ed.(type) {
		case *ssa.Call, *ssa.Extract:
			return false
		case *ssa.Phi:
			continue
		}
	}
	return true
}

// eof2ScanEnds: a log / hint scan ends normally only on io.EOF: comparing the reader's error with any OTHER sentinel
// and leaving the loop without an error (ErrClosed treated as end of file, ...) turns an aborted scan into a
// complete one.
func eof2ScanEnds(p *core.Prog, rep *core.Report) {
	rep.Rule("EOF2", "scans end only on io.EOF: the error returned by NextLogRecord / NextHintRecord is compared for equality only with io.EOF (any other sentinel accepted as a normal end makes an aborted scan look complete: Merge would write its finished marker for a partial output, Open would index a partial log)")
	n := 0
	var bad []string
	for _, fn := range p.LibFuncs() {
		if !inRootPkg(fn) {
			continue
		}
		for _, b := range fn.Blocks {
			for _, in := range b.Instrs {
				c, ok := in.(*ssa.Call)
				if !ok {
					continue
				}
				callee := c.Common().StaticCallee()
				if callee == nil || core.RecvNamed(callee) != p.R.DataReader || (callee.Name() != "NextLogRecord" && callee.Name() != "NextHintRecord") {
					continue
				}
				n++
				e := errValueOf(c)
				if e == nil {
					continue
				}
				for _, ref := range *e.Referrers() {
					bo, ok := ref.(*ssa.BinOp)
					if !ok || (bo.Op != token.EQL && bo.Op != token.NEQ) {
						continue
					}
					other := bo.Y
					if other == e {
						other = bo.X
					}
					if core.IsNilConst(other) {
						continue
					}
					isEOF := false
					if u, ok := other.(*ssa.UnOp); ok {
						if g, ok := u.X.(*ssa.Global); ok && g.Name() == "EOF" && g.Pkg.Pkg.Path() == "io" {
							isEOF = true
						}
					}
					if !isEOF {
						bad = append(bad, fmt.Sprintf("%s compares the scan error with a sentinel other than io.EOF at %s", core.FuncKey(fn), p.InstrPos(bo)))
					}
				}
			}
		}
	}
	if n < 3 {
		core.Failf("vacuity guard: EOF2 expected >= 3 scan call sites (replay, merge, hint load), found %d", n)
	}
	rep.Check(len(bad) == 0, "EOF2", "scan-ends-on-eof-only", fmt.Sprintf("the %d scan loops treat only io.EOF as a normal end", n), "", strings.Join(sortedStr(bad), "; "), true)
}

// ps8Backend: below the chunk readers nothing decides that an I/O error is fine. A back-end Read that answers
// (n, nil) for a short read lets the reader decode whatever an earlier read left in the unfilled part of its pooled
// block buffer: the stale chunks pass their CRC and another key's value is served for a truncated file.
func ps8Backend(p *core.Prog, rep *core.Report) {
	impl := map[*types.Named]bool{}
	for _, n := range p.R.Impls(p.R.ReadWriter) {
		impl[n] = true
	}
	ps8(p, rep, ps8Scope{
		name: "backend-read",
		funcs: func(fn *ssa.Function) bool {
			return impl[core.RecvNamed(fn)] && fn.Name() == "Read"
		},
		source: func(fn *ssa.Function, ci ssa.CallInstruction) bool {
			return core.ErrResultIndex(ci.Common().Signature()) >= 0
		},
		degrade: map[string]string{},
		noEOF:   true,
	})
}
