package rules

import (
	"fmt"
	"go/constant"
	"go/token"
	"strings"

	"golang.org/x/tools/go/ssa"

	"xkvverif/internal/core"
)

const (
	poolGet = "(*sync.Pool).Get"
	poolPut = "(*sync.Pool).Put"
)

func isLogRecordPtr(p *core.Prog, v ssa.Value) bool {
	for _, o := range core.Origins(v) {
		t := o.Type()
		if pt, ok := t.Underlying().(interface{ Elem() interface{} }); ok {
			_ = pt
		}
		if strings.HasSuffix(t.String(), "datafile.LogRecord") && strings.HasPrefix(t.String(), "*") {
			return true
		}
	}
	return false
}

// poolReset (POOL-RESET): every function that returns a *LogRecord to a sync.Pool first stores the zero
// record type, batch id 0 and a nil key into it; the value slice is truncated or dropped.
func poolReset(p *core.Prog, rep *core.Report) {
	R := p.R
	rep.Rule("POOL", "pool invariant: every (*sync.Pool).Put of a *LogRecord in the library is dominated by stores of Type=0 (Normal), BatchID=0 and Key=nil into that record (and Value truncated/nil), so a record fresh from the pool is a plain, untagged, keyless record")
	n := 0
	for _, fn := range p.LibFuncs() {
		for _, b := range fn.Blocks {
			for _, in := range b.Instrs {
				ci, ok := in.(ssa.CallInstruction)
				if !ok || !core.StaticCalleeIs(ci.Common(), poolPut) || len(ci.Common().Args) < 2 {
					continue
				}
				rec := core.Unwrap(ci.Common().Args[1])
				if !isLogRecordPtr(p, rec) {
					continue
				}
				n++
				need := map[string]bool{"Type=0": false, "BatchID=0": false, "Key=nil": false, "Value reset": false}
				for _, b2 := range fn.Blocks {
					for _, in2 := range b2.Instrs {
						f, base, val := core.StoreField(in2)
						if f == nil || !sameOrigin(base, rec) || !dominatesInstr(in2, in) {
							continue
						}
						switch f {
						case R.LRType:
							if c, ok := val.(*ssa.Const); ok && c.Value != nil && constant.Sign(c.Value) == 0 {
								need["Type=0"] = true
							}
						case R.LRBatchID:
							if c, ok := val.(*ssa.Const); ok && c.Value != nil && constant.Sign(c.Value) == 0 {
								need["BatchID=0"] = true
							}
						case R.LRKey:
							if core.IsNilConst(val) {
								need["Key=nil"] = true
							}
						case R.LRValue:
							if core.IsNilConst(val) {
								need["Value reset"] = true
							}
							if sl, ok := val.(*ssa.Slice); ok && sl.High != nil {
								if c, ok := sl.High.(*ssa.Const); ok && c.Value != nil && constant.Sign(c.Value) == 0 {
									need["Value reset"] = true
								}
							}
						}
					}
				}
				var miss []string
				for k, ok := range need {
					if !ok {
						miss = append(miss, k)
					}
				}
				rep.Check(len(miss) == 0, "POOL", "pool-put:"+core.FuncKey(fn), "a record is reset before it goes back to the pool", p.InstrPos(in), "missing dominating store(s): "+strings.Join(sortedStr(miss), ", ")+" - the next user of the pooled record inherits the stale field", true)
			}
		}
	}
	if n == 0 {
		core.Failf("vacuity guard: POOL found no sync.Pool.Put of a *LogRecord")
	}
}

func sortedStr(s []string) []string {
	m := map[string]bool{}
	for _, x := range s {
		m[x] = true
	}
	return sortedKeys(m)
}

// bt1PutType (C05.S2): on every success path of Batch.Put the record left staged is typed Normal:
// fresh from the pool (POOL invariant) or Type stored Normal after it was looked up.
// States: N no record yet, F fresh from pool, L looked up (type unknown), T typed Normal.
func bt1PutType(p *core.Prog, rep *core.Report) {
	R := p.R
	rep.Rule("BT1", "Batch.Put defines the record type on every path: at each success return the staged record is fresh from the pool (POOL invariant => Normal) or has Type stored LogRecordNormal after it was looked up in the staged set")
	put := p.MustMethod(R.Batch, "Put")
	cs := p.ConstsOf(core.ModPath+"/datafile", "LogRecordType")
	normal := cs["LogRecordNormal"]
	lookups := 0
	eng := core.NewEngine(p, core.Hooks{
		Name: "BT1",
		Follow: func(fn *ssa.Function) bool {
			// helpers of Batch are events or neutral; do not descend (the record provenance is local to Put)
			return false
		},
		Step: func(x *core.Exec, in ssa.Instruction, a core.AState) ([]core.StepOut, bool) {
			switch t := in.(type) {
			case ssa.CallInstruction:
				c := t.Common()
				if core.StaticCalleeIs(c, poolGet) {
					return []core.StepOut{{A: "F"}}, true
				}
				if callee := c.StaticCallee(); callee != nil && core.RecvNamed(callee) == R.Batch {
					res := callee.Signature.Results()
					if res.Len() == 1 && strings.HasSuffix(res.At(0).Type().String(), "datafile.LogRecord") {
						lookups++
						return []core.StepOut{{A: "L"}}, true
					}
				}
			case *ssa.Store:
				if f, _, val := core.StoreField(in); f == R.LRType {
					if c, ok := val.(*ssa.Const); ok && c.Value != nil && constant.Compare(c.Value, token.EQL, normal) {
						if a == "L" || a == "T" {
							return []core.StepOut{{A: "T"}}, true
						}
						return []core.StepOut{{A: a}}, true
					}
					return []core.StepOut{{A: "L"}}, true
				}
			}
			return nil, false
		},
		Edge: func(x *core.Exec, iff *ssa.If, taken bool, a core.AState) (core.AState, bool) {
			if a != "L" {
				return a, true
			}
			bo, ok := iff.Cond.(*ssa.BinOp)
			if !ok || (bo.Op != token.EQL && bo.Op != token.NEQ) || !core.IsNilConst(bo.Y) {
				return a, true
			}
			if call, ok := bo.X.(*ssa.Call); ok {
				if callee := call.Common().StaticCallee(); callee != nil && core.RecvNamed(callee) == R.Batch {
					isNil := (bo.Op == token.EQL) == taken
					if isNil {
						return "N", true
					}
				}
			}
			return a, true
		},
	})
	var bad []string
	nSucc := 0
	for _, e := range eng.Run(put, "N", "") {
		if e.Cls == core.ClsFailure {
			continue
		}
		nSucc++
		if e.A == "L" {
			bad = append(bad, fmt.Sprintf("success return at %s: the staged record found for the key keeps whatever type it had (a key deleted earlier in the batch stays a tombstone)", p.InstrPos(e.Ret)))
		}
		if e.A == "N" {
			bad = append(bad, fmt.Sprintf("success return at %s without any record staged", p.InstrPos(e.Ret)))
		}
	}
	if lookups == 0 || nSucc == 0 {
		core.Failf("vacuity guard: BT1 found %d staged-record lookups and %d success returns in Batch.Put", lookups, nSucc)
	}
	rep.Check(len(bad) == 0, "BT1", "(*Batch).Put|record-type", "the staged record is typed Normal at every success return", p.Pos(put.Pos()), strings.Join(bad, "; "), true)
}
