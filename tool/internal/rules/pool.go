package rules

import (
	"fmt"
	"go/constant"
	"go/token"
	"go/types"
	"strings"

	"golang.org/x/tools/go/ssa"

	"xkvverif/internal/core"
)

const (
	poolGet = "(*sync.Pool).Get"
	poolPut = "(*sync.Pool).Put"
)

func isLogRecordPtr(p *core.Prog, v ssa.Value) bool {
	for _, o := range core.Origins(v) {
		t := o.Type()
		if pt, ok := t.Underlying().(interface{ Elem() interface{} }); ok {
			_ = pt
		}
		if strings.HasSuffix(t.String(), "datafile.LogRecord") && strings.HasPrefix(t.String(), "*") {
			return true
		}
	}
	return false
}

// poolReset (POOL-RESET): every function that returns a *LogRecord to a sync.Pool first stores the zero
// record type, batch id 0 and a nil key into it; the value slice is truncated or dropped.
func poolReset(p *core.Prog, rep *core.Report) {
	R := p.R
	rep.Rule("POOL", "pool invariant: every (*sync.Pool).Put of a *LogRecord in the library is dominated by stores of Type=0 (Normal), BatchID=0 and Key=nil into that record (and Value truncated/nil), so a record fresh from the pool is a plain, untagged, keyless record")
	n := 0
	for _, fn := range p.LibFuncs() {
		for _, b := range fn.Blocks {
			for _, in := range b.Instrs {
				ci, ok := in.(ssa.CallInstruction)
				if !ok || !core.StaticCalleeIs(ci.Common(), poolPut) || len(ci.Common().Args) < 2 {
					continue
				}
				rec := core.Unwrap(ci.Common().Args[1])
				if !isLogRecordPtr(p, rec) {
					continue
				}
				n++
				need := map[string]bool{"Type=0": false, "BatchID=0": false, "Key=nil": false, "Value reset": false}
				for _, b2 := range fn.Blocks {
					for _, in2 := range b2.Instrs {
						f, base, val := core.StoreField(in2)
						if f == nil || !sameOrigin(base, rec) || !dominatesInstr(in2, in) {
							continue
						}
						switch f {
						case R.LRType:
							if c, ok := val.(*ssa.Const); ok && c.Value != nil && constant.Sign(c.Value) == 0 {
								need["Type=0"] = true
							}
						case R.LRBatchID:
							if c, ok := val.(*ssa.Const); ok && c.Value != nil && constant.Sign(c.Value) == 0 {
								need["BatchID=0"] = true
							}
						case R.LRKey:
							if core.IsNilConst(val) {
								need["Key=nil"] = true
							}
						case R.LRValue:
							if core.IsNilConst(val) {
								need["Value reset"] = true
							}
							if sl, ok := val.(*ssa.Slice); ok && sl.High != nil {
								if c, ok := sl.High.(*ssa.Const); ok && c.Value != nil && constant.Sign(c.Value) == 0 {
									need["Value reset"] = true
								}
							}
						}
					}
				}
				var miss []string
				for k, ok := range need {
					if !ok {
						miss = append(miss, k)
					}
				}
				rep.Check(len(miss) == 0, "POOL", "pool-put:"+core.FuncKey(fn), "a record is reset before it goes back to the pool", p.InstrPos(in), "missing dominating store(s): "+strings.Join(sortedStr(miss), ", ")+" - the next user of the pooled record inherits the stale field", true)
			}
		}
	}
	if n == 0 {
		core.Failf("vacuity guard: POOL found no sync.Pool.Put of a *LogRecord")
	}
}

func sortedStr(s []string) []string {
	m := map[string]bool{}
	for _, x := range s {
		m[x] = true
	}
	return sortedKeys(m)
}

// bt1PutType (C05.S2): on every success path of Batch.Put the record left staged is typed Normal:
// fresh from the pool (POOL invariant) or Type stored Normal after it was looked up.
// States: N no record yet, F fresh from pool, L looked up (type unknown), T typed Normal.
func bt1PutType(p *core.Prog, rep *core.Report) {
	R := p.R
	rep.Rule("BT1", "Batch.Put defines the record type on every path: at each success return the staged record is fresh from the pool (POOL invariant => Normal) or has Type stored LogRecordNormal after it was looked up in the staged set")
	put := p.MustMethod(R.Batch, "Put")
	cs := p.ConstsOf(core.ModPath+"/datafile", "LogRecordType")
	normal := cs["LogRecordNormal"]
	lookups := 0
	eng := core.NewEngine(p, core.Hooks{
		Name: "BT1",
		Follow: func(fn *ssa.Function) bool {
			// helpers of Batch are events or neutral; do not descend (the record provenance is local to Put)
			return false
		},
		Step: func(x *core.Exec, in ssa.Instruction, a core.AState) ([]core.StepOut, bool) {
			switch t := in.(type) {
			case ssa.CallInstruction:
				c := t.Common()
				if core.StaticCalleeIs(c, poolGet) {
					return []core.StepOut{{A: "F"}}, true
				}
				if callee := c.StaticCallee(); callee != nil && core.RecvNamed(callee) == R.Batch {
					res := callee.Signature.Results()
					if res.Len() == 1 && strings.HasSuffix(res.At(0).Type().String(), "datafile.LogRecord") {
						// a constructor helper (`newPendingRecord(typ, key, value)`): every record it returns is fresh from the
						// pool, and its Type is left alone or stored from a constant / from a parameter bound to a constant here
						if fresh, typed := recordCtorKind(p, callee, c, normal); fresh {
							if typed {
								return []core.StepOut{{A: "F"}}, true
							}
							return []core.StepOut{{A: "L"}}, true
						}
						lookups++
						return []core.StepOut{{A: "L"}}, true
					}
				}
			case *ssa.Store:
				if f, _, val := core.StoreField(in); f == R.LRType {
					if c, ok := val.(*ssa.Const); ok && c.Value != nil && constant.Compare(c.Value, token.EQL, normal) {
						if a == "L" || a == "T" {
							return []core.StepOut{{A: "T"}}, true
						}
						return []core.StepOut{{A: a}}, true
					}
					return []core.StepOut{{A: "L"}}, true
				}
			}
			return nil, false
		},
		Edge: func(x *core.Exec, iff *ssa.If, taken bool, a core.AState) (core.AState, bool) {
			if a != "L" {
				return a, true
			}
			bo, ok := iff.Cond.(*ssa.BinOp)
			if !ok || (bo.Op != token.EQL && bo.Op != token.NEQ) || !core.IsNilConst(bo.Y) {
				return a, true
			}
			if call, ok := bo.X.(*ssa.Call); ok {
				if callee := call.Common().StaticCallee(); callee != nil && core.RecvNamed(callee) == R.Batch {
					isNil := (bo.Op == token.EQL) == taken
					if isNil {
						return "N", true
					}
				}
			}
			return a, true
		},
	})
	var bad []string
	nSucc := 0
	for _, e := range eng.Run(put, "N", "") {
		if e.Cls == core.ClsFailure {
			continue
		}
		nSucc++
		if e.A == "L" {
			bad = append(bad, fmt.Sprintf("success return at %s: the staged record found for the key keeps whatever type it had (a key deleted earlier in the batch stays a tombstone)", p.InstrPos(e.Ret)))
		}
		if e.A == "N" {
			bad = append(bad, fmt.Sprintf("success return at %s without any record staged", p.InstrPos(e.Ret)))
		}
	}
	if lookups == 0 || nSucc == 0 {
		core.Failf("vacuity guard: BT1 found %d staged-record lookups and %d success returns in Batch.Put", lookups, nSucc)
	}
	rep.Check(len(bad) == 0, "BT1", "(*Batch).Put|record-type", "the staged record is typed Normal at every success return", p.Pos(put.Pos()), strings.Join(bad, "; "), true)
}

// bt2FlushThenStage (C02/C04): a mid-batch flush in Batch.Put / Batch.Delete is followed by staging the current
// record, so a batch that flushed anything never reaches Commit with an empty staged set (Commit's empty fast path
// returns without writing the seal). States: N nothing, F flushed and nothing staged since, S staged.
func bt2FlushThenStage(p *core.Prog, rep *core.Report) {
	R := p.R
	rep.Rule("BT2", "flush-then-stage: on every success path of Batch.Put / Batch.Delete, a mid-batch flush (tagged records written without their seal) is followed by staging a record before the method returns - otherwise Commit's empty-batch fast path acknowledges the batch without ever sealing it and recovery drops it")
	wr := p.Reaches("rw.write", func(site ssa.CallInstruction) bool { return isWritePrimitive(p, site.Common()) })
	n := 0
	for _, name := range []string{"Put", "Delete"} {
		fn := p.MustMethod(R.Batch, name)
		flushes := 0
		eng := core.NewEngine(p, core.Hooks{
			Name: "BT2",
			Follow: func(f *ssa.Function) bool {
				n := core.RecvNamed(f)
				return p.InLib(f) && (n == R.Batch)
			},
			Step: func(x *core.Exec, in ssa.Instruction, a core.AState) ([]core.StepOut, bool) {
				if ci, ok := in.(ssa.CallInstruction); ok && isSharedActiveWrite(p, wr, ci.Common()) {
					flushes++
					callee := ci.Common().StaticCallee()
					idx := core.ErrResultIndex(callee.Signature)
					if callee.Signature.Results().Len() == 1 {
						idx = -1
					}
					return []core.StepOut{{A: "F", Fact: true, Idx: idx, Truth: 0}, {A: a, Fact: true, Idx: idx, Truth: 1}}, true
				}
				if f, _, val := core.StoreField(in); f == R.BatchStaged {
					if c, ok := val.(*ssa.Call); ok {
						if bi, ok := c.Call.Value.(*ssa.Builtin); ok && bi.Name() == "append" {
							return []core.StepOut{{A: "S"}}, true
						}
					}
				}
				return nil, false
			},
		})
		var bad []string
		for _, e := range eng.Run(fn, "N", "") {
			if e.Cls != core.ClsFailure && e.A == "F" {
				bad = append(bad, "success return at "+p.InstrPos(e.Ret)+" after a mid-batch flush with nothing staged afterwards")
			}
		}
		if flushes == 0 {
			continue
		}
		n++
		rep.Check(len(bad) == 0, "BT2", "flush-then-stage:"+core.FuncKey(fn), "a mid-batch flush is followed by staging the current record", p.Pos(fn.Pos()), strings.Join(sortedStr(bad), "; "), true)
	}
	if n < 2 {
		core.Failf("vacuity guard: BT2 expected mid-batch flushes in Batch.Put and Batch.Delete, found %d", n)
	}
}

// lk11PrivateReadBuffers (C09): positional reads run concurrently on one DataFile (rotated files are read without
// any lock, the active file under the shared read lock), so the read path must not use per-file mutable state.
func lk11PrivateReadBuffers(p *core.Prog, rep *core.Report) {
	R := p.R
	rep.Rule("LK11", "lock-free read paths are private: in the DataFile methods reachable from the positional read API (which runs concurrently on one file object) the buffer handed to ReadWriter.Read is rooted in a fresh / pooled allocation, never in a field of the DataFile, and no field of the DataFile is stored")
	entry := p.MustMethod(R.DataFile, "ReadRecordValue")
	scope := p.ReachableFrom([]*ssa.Function{entry}, func(f *ssa.Function) bool { return core.RecvNamed(f) == R.DataFile })
	var bad []string
	reads := 0
	for fn := range scope {
		for _, b := range fn.Blocks {
			for _, in := range b.Instrs {
				if f, base, _ := core.StoreField(in); f != nil && fieldOwner(p, f) == R.DataFile && !freshInFn(base, fn) {
					bad = append(bad, fmt.Sprintf("%s stores DataFile.%s at %s on a read path", core.FuncKey(fn), f.Name(), p.InstrPos(in)))
				}
				ci, ok := in.(ssa.CallInstruction)
				if !ok || !isReadPrimitive(p, ci.Common()) {
					continue
				}
				reads++
				buf := ci.Common().Args[0]
				if !ci.Common().IsInvoke() && len(ci.Common().Args) > 1 {
					buf = ci.Common().Args[1]
				}
				for {
					sl, ok := buf.(*ssa.Slice)
					if !ok {
						break
					}
					buf = sl.X
				}
				for _, o := range core.Origins(buf) {
					if f, _ := core.LoadedField(o); f != nil && fieldOwner(p, f) == R.DataFile {
						bad = append(bad, fmt.Sprintf("%s reads into the per-file buffer DataFile.%s at %s: concurrent readers of one file overwrite each other's block (wrong bytes, CRC errors, panics)", core.FuncKey(fn), f.Name(), p.InstrPos(in)))
					}
				}
			}
		}
	}
	if reads == 0 {
		core.Failf("vacuity guard: LK11 found no ReadWriter.Read below ReadRecordValue")
	}
	rep.Check(len(bad) == 0, "LK11", "read-path-private", fmt.Sprintf("the %d read call(s) below the positional read API use private buffers and store no per-file state", reads), p.Pos(entry.Pos()), strings.Join(sortedStr(bad), "; "), true)
}

// bt3FlushLoopComplete (C05/C04): once the staged records were written, the index-update loop of the flush visits
// every staged record: it can be left only through its loop condition (an early error return applies a prefix of the
// batch to the index, leaves the rest written but unindexed and the batch without its seal).
func bt3FlushLoopComplete(p *core.Prog, rep *core.Report) {
	R := p.R
	rep.Rule("BT3", "flush applies every staged record: in Batch methods, a loop that updates the index (ShardedIndex.Put / Delete in its body) is left only through its loop condition or by panicking - no return or break inside the body")
	n := 0
	for _, fn := range p.LibFuncs() {
		if core.RecvNamed(fn) != R.Batch {
			continue
		}
		for _, lp := range naturalLoops(fn) {
			upd := false
			for blk := range lp.body {
				for _, in := range blk.Instrs {
					if ci, ok := in.(ssa.CallInstruction); ok {
						if c := ci.Common().StaticCallee(); callUpdatesIndex(p, c, 0) {
							upd = true
						}
					}
				}
			}
			if !upd {
				continue
			}
			n++
			var bad []string
			for blk := range lp.body {
				for _, s := range blk.Succs {
					if lp.body[s] || blk == lp.header {
						continue
					}
					bad = append(bad, "the index-update loop is left from its body at "+p.InstrPos(blk.Instrs[len(blk.Instrs)-1]))
				}
				if _, isRet := blk.Instrs[len(blk.Instrs)-1].(*ssa.Return); isRet {
					bad = append(bad, "return inside the index-update loop at "+p.InstrPos(blk.Instrs[len(blk.Instrs)-1])+": the records after this one are on disk but never indexed, and Commit fails without sealing")
				}
			}
			rep.Check(len(bad) == 0, "BT3", "flush-loop-complete:"+core.FuncKey(fn), "every staged record is applied to the index", p.Pos(fn.Pos()), strings.Join(sortedStr(bad), "; "), true)
		}
	}
	if n == 0 {
		core.Failf("vacuity guard: BT3 found no index-update loop in a Batch method")
	}
}

// pool2SingleRelease: a pooled record obtained by a function is handed back at most once on every path (a second
// release puts one object into the pool twice: two later users then share it).
func pool2SingleRelease(p *core.Prog, rep *core.Report) {
	rep.Rule("POOL2", "single release: in every function that takes a *LogRecord from the sync.Pool, the release (the library function that calls Pool.Put on a record, direct or deferred) is executed at most once per path for that record")
	// release functions: library functions that call (*sync.Pool).Put with their *LogRecord parameter
	release := map[*ssa.Function]int{}
	for _, fn := range p.LibFuncs() {
		for _, b := range fn.Blocks {
			for _, in := range b.Instrs {
				if ci, ok := in.(ssa.CallInstruction); ok && core.StaticCalleeIs(ci.Common(), poolPut) && len(ci.Common().Args) > 1 {
					if pi := paramIndex(fn, core.Unwrap(ci.Common().Args[1])); pi >= 0 {
						release[fn] = pi
					}
				}
			}
		}
	}
	n := 0
	for _, fn := range p.LibFuncs() {
		var gets []ssa.Value
		for _, b := range fn.Blocks {
			for _, in := range b.Instrs {
				if c, ok := in.(*ssa.Call); ok && core.StaticCalleeIs(c.Common(), poolGet) {
					for _, ref := range *c.Referrers() {
						if ta, ok := ref.(*ssa.TypeAssert); ok && strings.HasSuffix(ta.AssertedType.String(), "datafile.LogRecord") {
							gets = append(gets, ta)
						}
					}
				}
			}
		}
		if len(gets) == 0 {
			continue
		}
		n++
		var bad []string
		eng := core.NewEngine(p, core.Hooks{
			Name:   "POOL2",
			Follow: func(f *ssa.Function) bool { return false },
			Step: func(x *core.Exec, in ssa.Instruction, a core.AState) ([]core.StepOut, bool) {
				ci, ok := in.(ssa.CallInstruction)
				if !ok {
					return nil, false
				}
				c := ci.Common()
				callee := c.StaticCallee()
				var rec ssa.Value
				if pi, ok := release[callee]; ok && callee != nil && pi < len(c.Args) {
					rec = c.Args[pi]
				} else if core.StaticCalleeIs(c, poolPut) && len(c.Args) > 1 {
					rec = core.Unwrap(c.Args[1])
				}
				if rec == nil {
					return nil, false
				}
				for i, g := range gets {
					if sameOriginLoose(rec, g) {
						k := fmt.Sprintf("r%d,", i)
						if strings.Contains(a, k) {
							bad = append(bad, "the record taken from the pool at "+p.InstrPos(g.(ssa.Instruction))+" is released a second time at "+p.InstrPos(in)+": the pool then holds one object twice and two later users share it")
							return []core.StepOut{{A: a}}, true
						}
						return []core.StepOut{{A: a + k}}, true
					}
				}
				return nil, false
			},
		})
		eng.Run(fn, "", "")
		rep.Check(len(bad) == 0, "POOL2", "single-release:"+core.FuncKey(fn), "each pooled record is released at most once per path", p.Pos(fn.Pos()), strings.Join(sortedStr(bad), "; "), true)
	}
	if n < 3 {
		core.Failf("vacuity guard: POOL2 expected >= 3 functions taking records from the pool, found %d", n)
	}
}

// bt4StagedIndexed: the batch keeps its staged records in a slice (issue order, what Commit writes) and in a lookup map
// (what Batch.Get and the hit paths of Put / Delete consult). The two must change together: a record appended to the
// slice but not entered in the map is written at Commit yet invisible to the batch's own reads (Get serves the
// pre-batch value of a key the batch deleted; a second Put of the key stages a duplicate); a slice reset that leaves
// the map behind makes the next lookup index a record that is no longer there.
func bt4StagedIndexed(p *core.Prog, rep *core.Report) {
	R := p.R
	rep.Rule("BT4", "staged slice and lookup map change together: in every function, an append to the batch's staged slice is paired with an update of the batch's lookup map, and a reset of the slice with a reset of the map, on every path (the partner dominates the store, or every path from the store to a return passes through it)")
	var lookup *types.Var
	st := R.Batch.Underlying().(*types.Struct)
	for i := 0; i < st.NumFields(); i++ {
		if _, ok := st.Field(i).Type().Underlying().(*types.Map); ok {
			if lookup != nil {
				rep.Unk("BT4", "lookup-map", "exactly one map field in Batch expected (the staged-record lookup)", "", "found several: "+lookup.Name()+", "+st.Field(i).Name())
				return
			}
			lookup = st.Field(i)
		}
	}
	if lookup == nil {
		rep.Unk("BT4", "lookup-map", "a map field in Batch expected (the staged-record lookup)", "", "none found")
		return
	}
	n := 0
	for _, fn := range p.LibFuncs() {
		// partner instructions of this function
		var updates, resets []ssa.Instruction
		for _, b := range fn.Blocks {
			for _, in := range b.Instrs {
				switch t := in.(type) {
				case *ssa.MapUpdate:
					if core.LastField(t.Map) == lookup {
						updates = append(updates, in)
					}
				case *ssa.Store:
					if f, _, _ := core.StoreField(in); f == lookup {
						resets = append(resets, in)
					}
				}
			}
		}
		for _, b := range fn.Blocks {
			for _, in := range b.Instrs {
				f, _, val := core.StoreField(in)
				if f != R.BatchStaged {
					continue
				}
				isAppend := false
				if c, ok := val.(*ssa.Call); ok {
					if bi, ok := c.Call.Value.(*ssa.Builtin); ok && bi.Name() == "append" {
						isAppend = true
					}
				}
				partners, kind, consequence := resets, "reset", "stale lookup entries index records that are no longer staged (out-of-range / wrong record on the next lookup)"
				if isAppend {
					partners, kind, consequence = updates, "append", "the record is written at Commit but invisible to Batch.Get and to the hit paths of Put / Delete"
				}
				n++
				ok := false
				isPartner := map[*ssa.BasicBlock]int{}
				for _, pi := range partners {
					if before(pi, in) {
						ok = true
					}
					if idx, seen := isPartner[pi.Block()]; !seen || indexIn(pi) > idx {
						isPartner[pi.Block()] = indexIn(pi)
					}
				}
				escape := ""
				if !ok {
					if idx, has := isPartner[b]; has && idx > indexIn(in) {
						ok = true
					} else {
						seen := map[*ssa.BasicBlock]bool{}
						var dfs func(x *ssa.BasicBlock)
						dfs = func(x *ssa.BasicBlock) {
							if escape != "" {
								return
							}
							if r, isRet := x.Instrs[len(x.Instrs)-1].(*ssa.Return); isRet {
								escape = p.InstrPos(r)
								return
							}
							for _, s := range x.Succs {
								if seen[s] {
									continue
								}
								seen[s] = true
								if _, has := isPartner[s]; has {
									continue
								}
								dfs(s)
							}
						}
						dfs(b)
						ok = escape == ""
					}
				}
				rep.Check(ok, "BT4", fmt.Sprintf("paired-%s:%s", kind, core.FuncKey(fn)), "the staged slice and the lookup map change together", p.InstrPos(in), fmt.Sprintf("%s of the staged slice at %s reaches the return at %s without the matching change of Batch.%s: %s", kind, p.InstrPos(in), escape, lookup.Name(), consequence), true)
			}
		}
	}
	if n < 1 {
		rep.Unk("VAC", "BT4", "expected >= 2 stores to the staged slice", "", fmt.Sprintf("found %d", n))
	}
}

const (
	bbGet = "github.com/valyala/bytebufferpool.Get"
	bbPut = "github.com/valyala/bytebufferpool.Put"
)

// pool3BufferSingleRelease: the same single-release discipline for the pooled byte buffers of package datafile.
// Ownership is split between callers and callees there (the single-record writer releases the buffer it is handed;
// the readers' callers release theirs with a defer), so the rule is interprocedural: a function that MAY release a
// buffer it received as a parameter counts as a release at each of its call sites.
func pool3BufferSingleRelease(p *core.Prog, rep *core.Report) {
	rep.Rule("POOL3", "single release (byte buffers): in every function that takes a buffer from bytebufferpool, the buffer is released at most once per path, counting bytebufferpool.Put (direct or deferred) and every call that passes it to a library function which may release that parameter; a second release puts one buffer into the pool twice and two later users (two readers, or a reader and a batch flush) share it")
	release := map[*ssa.Function]map[int]bool{}
	for _, fn := range p.LibFuncs() {
		for _, b := range fn.Blocks {
			for _, in := range b.Instrs {
				if ci, ok := in.(ssa.CallInstruction); ok && core.StaticCalleeIs(ci.Common(), bbPut) && len(ci.Common().Args) > 0 {
					if pi := paramIndex(fn, core.Unwrap(ci.Common().Args[0])); pi >= 0 {
						if release[fn] == nil {
							release[fn] = map[int]bool{}
						}
						release[fn][pi] = true
					}
				}
			}
		}
	}
	n := 0
	for _, fn := range p.LibFuncs() {
		var gets []ssa.Value
		for _, b := range fn.Blocks {
			for _, in := range b.Instrs {
				if c, ok := in.(*ssa.Call); ok && core.StaticCalleeIs(c.Common(), bbGet) {
					gets = append(gets, c)
				}
			}
		}
		if len(gets) == 0 {
			continue
		}
		n++
		var bad []string
		eng := core.NewEngine(p, core.Hooks{
			Name:   "POOL3",
			Follow: func(f *ssa.Function) bool { return false },
			Step: func(x *core.Exec, in ssa.Instruction, a core.AState) ([]core.StepOut, bool) {
				ci, ok := in.(ssa.CallInstruction)
				if !ok {
					return nil, false
				}
				c := ci.Common()
				callee := c.StaticCallee()
				var bufs []ssa.Value
				how := ""
				if core.StaticCalleeIs(c, bbPut) && len(c.Args) > 0 {
					bufs = append(bufs, core.Unwrap(c.Args[0]))
					how = "bytebufferpool.Put"
				} else if rs, ok := release[callee]; ok && callee != nil {
					for pi := range rs {
						if pi < len(c.Args) {
							bufs = append(bufs, core.Unwrap(c.Args[pi]))
							how = core.FuncKey(callee) + " (which may release its parameter)"
						}
					}
				}
				if len(bufs) == 0 {
					return nil, false
				}
				out := a
				for _, buf := range bufs {
					for i, g := range gets {
						if sameOriginLoose(buf, g) {
							k := fmt.Sprintf("r%d,", i)
							if strings.Contains(out, k) {
								bad = append(bad, "the buffer taken from the pool at "+p.InstrPos(g.(ssa.Instruction))+" is released a second time at "+p.InstrPos(in)+" through "+how)
							} else {
								out += k
							}
						}
					}
				}
				return []core.StepOut{{A: out}}, true
			},
		})
		eng.Run(fn, "", "")
		rep.Check(len(bad) == 0, "POOL3", "single-release:"+core.FuncKey(fn), "each pooled byte buffer is released at most once per path", p.Pos(fn.Pos()), strings.Join(sortedStr(bad), "; "), true)
	}
	if n < 1 {
		rep.Unk("VAC", "POOL3", "expected >= 3 functions taking byte buffers from the pool", "", fmt.Sprintf("found %d", n))
	}
}

// pool4NoUseAfterRelease: once an object has been handed back to a pool (sync.Pool, bytebufferpool, or a library
// helper that does so with its parameter) the releasing function does not touch it again: another goroutine may
// already own it. `defer release(x)` is the safe idiom; turning it into a plain call at the top of the function
// (one deleted word) releases the buffer while it is still being read into and decoded from.
func pool4NoUseAfterRelease(p *core.Prog, rep *core.Report) {
	rep.Rule("POOL4", "no use after release: in every library function, after a (non-deferred) call that returns a value to a pool - (*sync.Pool).Put, bytebufferpool.Put, or a library function that does so with its parameter - no instruction reachable without passing the value's definition again uses that value or a slice of it")
	release := map[*ssa.Function]map[int]bool{}
	for _, fn := range p.LibFuncs() {
		for _, b := range fn.Blocks {
			for _, in := range b.Instrs {
				ci, ok := in.(ssa.CallInstruction)
				if !ok {
					continue
				}
				var arg ssa.Value
				switch {
				case core.StaticCalleeIs(ci.Common(), bbPut) && len(ci.Common().Args) > 0:
					arg = ci.Common().Args[0]
				case core.StaticCalleeIs(ci.Common(), poolPut) && len(ci.Common().Args) > 1:
					arg = ci.Common().Args[1]
				}
				if arg == nil {
					continue
				}
				if pi := paramIndex(fn, core.Unwrap(arg)); pi >= 0 {
					if release[fn] == nil {
						release[fn] = map[int]bool{}
					}
					release[fn][pi] = true
				}
			}
		}
	}
	n := 0
	var bad []string
	for _, fn := range p.LibFuncs() {
		for _, b := range fn.Blocks {
			for idx, in := range b.Instrs {
				c, ok := in.(*ssa.Call) // plain calls only: a deferred release runs after every use
				if !ok {
					continue
				}
				var vals []ssa.Value
				switch {
				case core.StaticCalleeIs(c.Common(), bbPut) && len(c.Common().Args) > 0:
					vals = append(vals, c.Common().Args[0])
				case core.StaticCalleeIs(c.Common(), poolPut) && len(c.Common().Args) > 1:
					vals = append(vals, c.Common().Args[1])
				default:
					if rs, ok := release[c.Common().StaticCallee()]; ok {
						for pi := range rs {
							if pi < len(c.Common().Args) {
								vals = append(vals, c.Common().Args[pi])
							}
						}
					}
				}
				for _, v0 := range vals {
					v := core.Unwrap(v0)
					if _, isConst := v.(*ssa.Const); isConst {
						continue
					}
					n++
					// the released value and what is derived from it without copying
					derived := map[ssa.Value]bool{v: true}
					work := []ssa.Value{v}
					for len(work) > 0 {
						x := work[0]
						work = work[1:]
						if x.Referrers() == nil {
							continue
						}
						for _, r := range *x.Referrers() {
							switch t := r.(type) {
							case *ssa.Slice:
								if !derived[t] {
									derived[t] = true
									work = append(work, t)
								}
							case *ssa.MakeInterface:
								if !derived[t] {
									derived[t] = true
									work = append(work, t)
								}
							}
						}
					}
					var def *ssa.BasicBlock
					if di, ok := v.(ssa.Instruction); ok {
						def = di.Block()
					}
					// blocks reachable from the release without re-executing the definition
					reach := map[*ssa.BasicBlock]bool{}
					var dfs func(x *ssa.BasicBlock)
					dfs = func(x *ssa.BasicBlock) {
						for _, s := range x.Succs {
							if s == def || reach[s] {
								continue
							}
							reach[s] = true
							dfs(s)
						}
					}
					dfs(b)
					use := func(u ssa.Instruction) bool {
						if u == ssa.Instruction(c) {
							return false
						}
						if _, isDbg := u.(*ssa.DebugRef); isDbg {
							return false
						}
						for _, op := range u.Operands(nil) {
							if op != nil && *op != nil && derived[*op] {
								return true
							}
						}
						return false
					}
					found := ""
					for j := idx + 1; j < len(b.Instrs) && found == ""; j++ {
						if use(b.Instrs[j]) {
							found = p.InstrPos(b.Instrs[j])
						}
					}
					for rb := range reach {
						if found != "" {
							break
						}
						for j, u := range rb.Instrs {
							if rb == b && j <= idx {
								continue // before the release in its own block: only reachable through the definition or a loop - handled by reach
							}
							if use(u) {
								found = p.InstrPos(u)
								break
							}
						}
					}
					if found != "" {
						bad = append(bad, fmt.Sprintf("%s releases %s at %s and uses it afterwards at %s: the pool may already have handed it to another goroutine", core.FuncKey(fn), v.Name(), p.InstrPos(c), found))
					}
				}
			}
		}
	}
	if n < 1 {
		rep.Unk("VAC", "POOL4", "expected at least one non-deferred release call", "", "found none")
		return
	}
	rep.Check(len(bad) == 0, "POOL4", "no-use-after-release", fmt.Sprintf("none of the %d non-deferred releases is followed by a use of the released object", n), "", strings.Join(sortedStr(bad), "; "), true)
}

// callUpdatesIndex: c is ShardedIndex.Put / Delete, or an unexported function of the root package that calls one
// (the body of an index-update loop is often extracted into a helper; two levels).
func callUpdatesIndex(p *core.Prog, c *ssa.Function, d int) bool {
	if c == nil {
		return false
	}
	if core.RecvNamed(c) == p.R.ShardedIndex && (c.Name() == "Put" || c.Name() == "Delete") {
		return true
	}
	if d >= 2 || !inRootPkg(c) || token.IsExported(c.Name()) {
		return false
	}
	for _, b := range c.Blocks {
		for _, in := range b.Instrs {
			if ci, ok := in.(ssa.CallInstruction); ok {
				if cc := ci.Common().StaticCallee(); cc != c && callUpdatesIndex(p, cc, d+1) {
					return true
				}
			}
		}
	}
	return false
}

// recordCtorKind: callee returns only records fresh from the pool (fresh); typedNormal: it leaves Type alone (pool
// invariant: Normal) or stores the Normal constant - directly or through a parameter that this call binds to it.
func recordCtorKind(p *core.Prog, callee *ssa.Function, call *ssa.CallCommon, normal constant.Value) (fresh, typedNormal bool) {
	n := 0
	for _, r := range core.Returns(callee) {
		v := core.ReturnOperand(r, 0)
		n++
		if !core.AllOrigins(v, func(o ssa.Value) bool {
			c, ok := o.(*ssa.Call)
			return ok && core.StaticCalleeIs(c.Common(), poolGet)
		}) {
			return false, false
		}
	}
	if n == 0 {
		return false, false
	}
	typedNormal = true
	for _, b := range callee.Blocks {
		for _, in := range b.Instrs {
			f, _, val := core.StoreField(in)
			if f != p.R.LRType {
				continue
			}
			if c, ok := val.(*ssa.Const); ok && c.Value != nil && constant.Compare(c.Value, token.EQL, normal) {
				continue
			}
			okParam := false
			if par, ok := val.(*ssa.Parameter); ok {
				for i, pp := range callee.Params {
					if pp == par && i < len(call.Args) {
						if c, ok := call.Args[i].(*ssa.Const); ok && c.Value != nil && constant.Compare(c.Value, token.EQL, normal) {
							okParam = true
						}
					}
				}
			}
			if !okParam {
				typedNormal = false
			}
		}
	}
	return true, typedNormal
}
