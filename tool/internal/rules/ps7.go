package rules

import (
	"fmt"
	"go/token"
	"strings"

	"golang.org/x/tools/go/ssa"

	"xkvverif/internal/core"
)

// derives: which roles occur in the arithmetic expression tree of v: 's' = (*DataFile).Size() of the
// active file, 'l' = Options.DataFileSize.
func sizeRoles(p *core.Prog, v ssa.Value, depth int, out map[byte]bool) {
	if v == nil || depth > 8 {
		return
	}
	switch u := v.(type) {
	case *ssa.BinOp:
		if u.Op == token.ADD || u.Op == token.SUB {
			sizeRoles(p, u.X, depth+1, out)
			sizeRoles(p, u.Y, depth+1, out)
		}
	case *ssa.Convert:
		sizeRoles(p, u.X, depth+1, out)
	case *ssa.Call:
		if c := u.Common().StaticCallee(); c != nil && c.Name() == "Size" && core.RecvNamed(c) == p.R.DataFile {
			for _, o := range core.Origins(u.Common().Args[0]) {
				if f, _ := core.LoadedField(o); f == p.R.DBActive {
					out['s'] = true
				}
			}
		}
	case *ssa.UnOp:
		if f, _ := core.LoadedField(u); f == p.R.OptFileSize {
			out['l'] = true
		}
	case *ssa.Phi:
		for _, e := range u.Edges {
			sizeRoles(p, e, depth+1, out)
		}
	}
}

// sizeCheck classifies an If: is it the "active file would overflow" comparison, and which edge is overflow?
func sizeCheck(p *core.Prog, iff *ssa.If) (is bool, overflowTaken bool) {
	bo, ok := iff.Cond.(*ssa.BinOp)
	if !ok {
		return false, false
	}
	l, r := map[byte]bool{}, map[byte]bool{}
	sizeRoles(p, bo.X, 0, l)
	sizeRoles(p, bo.Y, 0, r)
	switch {
	case l['s'] && r['l'] && !l['l'] && !r['s']:
		switch bo.Op {
		case token.GTR, token.GEQ:
			return true, true
		case token.LSS, token.LEQ:
			return true, false
		}
	case l['l'] && r['s'] && !l['s'] && !r['l']:
		switch bo.Op {
		case token.LSS, token.LEQ:
			return true, true
		case token.GTR, token.GEQ:
			return true, false
		}
	}
	return false, false
}

func isSharedActiveWrite(p *core.Prog, wr map[*ssa.Function]bool, c *ssa.CallCommon) bool {
	callee := c.StaticCallee()
	if callee == nil || core.RecvNamed(callee) != p.R.DataFile || !wr[callee] || len(c.Args) == 0 {
		return false
	}
	for _, o := range core.Origins(c.Args[0]) {
		if f, _ := core.LoadedField(o); f == p.R.DBActive {
			return true
		}
	}
	return false
}

// ps7SizeCheck: PS7. States U unchecked, K checked, O overflow seen (rotation owed).
func ps7SizeCheck(p *core.Prog, rep *core.Report, withBatch bool) {
	rep.Rule("PS7", "size-check-before-append: on every path of a mutating entry point the first append to the shared active file is preceded by a comparison of activeFile.Size()+estimate with Options.DataFileSize, and on its overflow edge a rotation (store to the active-file field) precedes the append")
	wr := p.Reaches("rw.write", func(site ssa.CallInstruction) bool { return isWritePrimitive(p, site.Common()) })
	entries := []*ssa.Function{p.MustMethod(p.R.DB, "Put"), p.MustMethod(p.R.DB, "Delete")}
	if withBatch {
		for _, n := range []string{"Put", "Delete", "Commit"} {
			entries = append(entries, p.MustMethod(p.R.Batch, n))
		}
	}
	for _, entry := range entries {
		var bad []string
		nW, nChk := 0, 0
		eng := core.NewEngine(p, core.Hooks{
			Name: "PS7",
			Follow: func(fn *ssa.Function) bool {
				if !p.InLib(fn) {
					return false
				}
				n := core.RecvNamed(fn)
				return n != p.R.DataFile && n != p.R.ShardedIndex
			},
			Edge: func(x *core.Exec, iff *ssa.If, taken bool, a core.AState) (core.AState, bool) {
				if is, ov := sizeCheck(p, iff); is {
					nChk++
					if taken == ov {
						return "O", true
					}
					return "K", true
				}
				return a, true
			},
			Step: func(x *core.Exec, in ssa.Instruction, a core.AState) ([]core.StepOut, bool) {
				if _, isGo := in.(*ssa.Go); isGo {
					return []core.StepOut{{A: a}}, true
				}
				if ci, ok := in.(ssa.CallInstruction); ok && isSharedActiveWrite(p, wr, ci.Common()) {
					nW++
					switch a {
					case "U":
						bad = append(bad, fmt.Sprintf("append at %s (in %s) is reached without a size check of the active file", p.InstrPos(in), core.FuncKey(x.Fn)))
					case "O":
						bad = append(bad, fmt.Sprintf("append at %s (in %s) is reached on the overflow edge without rotating to a new file", p.InstrPos(in), core.FuncKey(x.Fn)))
					}
					return []core.StepOut{{A: a}}, true
				}
				if f, _, _ := core.StoreField(in); f == p.R.DBActive && a == "O" {
					return []core.StepOut{{A: "K"}}, true
				}
				return nil, false
			},
		})
		eng.Run(entry, "U", "")
		if nW == 0 {
			if core.RecvNamed(entry) == p.R.DB {
				core.Failf("vacuity guard: PS7 found no append below %s", core.FuncKey(entry))
			}
			continue
		}
		uniq := map[string]bool{}
		for _, b := range bad {
			uniq[b] = true
		}
		rep.Check(len(bad) == 0, "PS7", "size-check:"+core.FuncKey(entry), "every append to the active file is preceded by the size check, with rotation on overflow", p.Pos(entry.Pos()), strings.Join(sortedKeys(uniq), "; "), true)
		rep.Stats["ps7_checks"] += nChk
	}
}

// ---- stale active-file alias ----------------------------------------------------------------------------

// staleActive: a value loaded from the active-file field is not used after a call that may replace that field.
func staleActive(p *core.Prog, rep *core.Report) {
	rep.Rule("VF7", "no stale active-file alias: a value loaded from the DB's active-file field is never used (as receiver, argument or for a field access) after a call that may store that field (rotation) on a path that does not reload it")
	// functions that may store the active-file field
	direct := map[*ssa.Function]bool{}
	for _, fn := range p.LibFuncs() {
		for _, b := range fn.Blocks {
			for _, in := range b.Instrs {
				if f, _, _ := core.StoreField(in); f == p.R.DBActive {
					direct[fn] = true
				}
			}
		}
	}
	rot := p.Reaches("store.active", func(site ssa.CallInstruction) bool {
		c := site.Common().StaticCallee()
		return c != nil && direct[c]
	})
	for f := range direct {
		rot[f] = true
	}
	mayRotate := func(in ssa.Instruction) bool {
		ci, ok := in.(ssa.CallInstruction)
		if !ok {
			return false
		}
		if _, isGo := in.(*ssa.Go); isGo {
			return false
		}
		for _, c := range p.Callees(ci) {
			if direct[c] || (rot[c] && p.InLib(c)) {
				return true
			}
		}
		return false
	}
	nLoads := 0
	var bad []string
	for _, fn := range p.LibFuncs() {
		if !inRootPkg(fn) {
			continue
		}
		var loads []ssa.Instruction
		var rots []ssa.Instruction
		for _, b := range fn.Blocks {
			for _, in := range b.Instrs {
				if u, ok := in.(*ssa.UnOp); ok {
					if f, _ := core.LoadedField(u); f == p.R.DBActive {
						loads = append(loads, in)
					}
				}
				if mayRotate(in) {
					rots = append(rots, in)
				}
			}
		}
		nLoads += len(loads)
		if len(loads) == 0 || len(rots) == 0 {
			continue
		}
		for _, b := range fn.Blocks {
			for _, use := range b.Instrs {
				if _, isPhi := use.(*ssa.Phi); isPhi {
					continue
				}
				var ops []*ssa.Value
				for _, op := range use.Operands(ops) {
					if *op == nil {
						continue
					}
					for _, o := range core.Origins(*op) {
						ld, ok := o.(*ssa.UnOp)
						if !ok {
							continue
						}
						if f, _ := core.LoadedField(ld); f != p.R.DBActive {
							continue
						}
						if ssa.Instruction(ld) == use {
							continue
						}
						for _, k := range rots {
							if k == use {
								continue
							}
							if reachesAvoiding(ld, k, nil) && reachesAvoiding(k, use, ld) {
								bad = append(bad, fmt.Sprintf("%s: active file loaded at %s is still used at %s after %s may have rotated it", core.FuncKey(fn), p.InstrPos(ld), p.InstrPos(use), core.CalleeName(k.(ssa.CallInstruction).Common())))
							}
						}
					}
				}
			}
		}
	}
	if nLoads < 10 {
		core.Failf("vacuity guard: VF7 expected >= 10 loads of the active-file field, found %d", nLoads)
	}
	uniq := map[string]bool{}
	for _, b := range bad {
		uniq[b] = true
	}
	rep.Check(len(bad) == 0, "VF7", "stale-active-file", fmt.Sprintf("none of the %d loads of the active-file field is used across a possible rotation", nLoads), "", strings.Join(sortedKeys(uniq), "; "), true)
}

// reachesAvoiding: is there a CFG path from just after instruction a to instruction b that does not execute
// instruction `avoid`?
func reachesAvoiding(a, b, avoid ssa.Instruction) bool {
	ba := a.Block()
	// scan the rest of a's block
	after := false
	for _, in := range ba.Instrs {
		if after {
			if avoid != nil && in == avoid {
				return false
			}
			if in == b {
				return true
			}
		}
		if in == a {
			after = true
		}
	}
	seen := map[*ssa.BasicBlock]bool{}
	var work []*ssa.BasicBlock
	work = append(work, ba.Succs...)
	for len(work) > 0 {
		blk := work[len(work)-1]
		work = work[:len(work)-1]
		if seen[blk] {
			continue
		}
		seen[blk] = true
		killed := false
		for _, in := range blk.Instrs {
			if avoid != nil && in == avoid {
				killed = true
				break
			}
			if in == b {
				return true
			}
		}
		if !killed {
			work = append(work, blk.Succs...)
		}
	}
	return false
}
