package rules

import (
	"fmt"
	"go/types"
	"sort"
	"strings"

	"golang.org/x/tools/go/ssa"

	"xkvverif/internal/core"
)

func emptyLK() lkState { return lkState{c: '-', w: '0', g: '0', u: '0', m: '-', e: '0'} }

// sameLocks: exit lockset equals entry lockset.
func sameLocks(in, out lkState, e *core.Exit) string {
	a, b := append([]string(nil), in.locks...), append([]string(nil), out.locks...)
	sort.Strings(a)
	sort.Strings(b)
	if strings.Join(a, ",") != strings.Join(b, ",") {
		return fmt.Sprintf("returns holding [%s] (entered with [%s])", strings.Join(b, ","), strings.Join(a, ","))
	}
	return ""
}

// runLockRules runs the lockset engine over every public entry point (DB, Iterator, Batch, background
// goroutine, and optionally the datatype layer) and returns the engine for further queries.
func runLockRules(p *core.Prog, rep *core.Report, withDatatype bool) *lockset {
	l := newLockset(p, rep)
	R := p.R
	rep.Rule("LK1", "guarded-by: every read of an inferred mutable DB/Batch field through a shared base holds the owner's lock (R or W), every write holds it in W; fresh objects (Open's db before publication, Merge's scratch DB) exempt")
	rep.Rule("LK3", "writer-section continuity: every index update reachable from the mutating API holds the DB writer lock continuously since the log append of the same section")
	rep.Rule("LK4", "check-then-act: an index read that precedes an append to the shared active file lies in the same writer section; the merge-in-progress flag is tested and set in one section")
	rep.Rule("LK5", "pairing: no release of an unheld lock, no re-acquisition of a held lock (self-deadlock), entry lockset = exit lockset on every path (NewBatch/Commit are the one protocol pair)")
	rep.Rule("LK6", "lock order: the may-hold graph is acyclic")
	rep.Rule("LK7", "shard-lock mode: a shard container is called only under its shard lock, and under the READ lock only if no implementation of the method writes shared state (writes-through-receiver summary over the three index implementations and btree/skiplist)")
	rep.Rule("LK12", "scratch buffers: a []byte field of DB that shared code never re-assigns (initialised once in Open) is loaded only while the database WRITER lock is held")
	rep.Rule("LK10", "active-file discipline: every DataFile method call whose receiver is, on the path taken, the shared database's active file is made while the database lock is held (R or W); rotated files are immutable and may be read lock-free")
	rep.Rule("LK8", "batch typestate: invariant (not committed => DB writer lock held by the batch) & (committed => not held) is preserved by every exported Batch method; a committed batch performs no effect")

	// DB methods
	for _, n := range []string{"Put", "Get", "Delete", "ListKeys", "Fold", "Stat", "Sync", "Merge", "NewIterator", "Close", "Backup"} {
		l.runEntry(p.MustMethod(R.DB, n), []lkState{emptyLK()}, true, sameLocks)
	}
	// NewBatch returns holding the writer lock with a fresh, uncommitted batch
	l.runEntry(p.MustMethod(R.DB, "NewBatch"), []lkState{emptyLK()}, true, func(in, out lkState, e *core.Exit) string {
		if len(out.locks) != 1 || !out.holds(l.dbMu, 'W') {
			return "NewBatch must return holding exactly the database writer lock, holds [" + strings.Join(out.locks, ",") + "]"
		}
		if out.c != '0' {
			return "NewBatch must return an uncommitted batch"
		}
		return ""
	})
	for _, n := range []string{"Rewind", "Seek", "Next", "Valid", "Key", "Value", "Close"} {
		l.runEntry(p.MustMethod(R.Iterator, n), []lkState{emptyLK()}, true, sameLocks)
	}
	// Batch methods: the two states of the protocol invariant
	open := emptyLK()
	open.c = '0'
	open.locks = []string{l.dbMu + ":W"}
	done := emptyLK()
	done.c = '1'
	done.e = '1'
	inv := func(in, out lkState, e *core.Exit) string {
		switch out.c {
		case '0':
			if len(out.locks) != 1 || !out.holds(l.dbMu, 'W') {
				return "batch left uncommitted but the database writer lock is not held exactly once [" + strings.Join(out.locks, ",") + "]: later use runs without the lock"
			}
		case '1':
			if len(out.locks) != 0 {
				return "batch committed but still holding [" + strings.Join(out.locks, ",") + "]"
			}
		default:
			return "committed flag unknown at exit"
		}
		return ""
	}
	for _, n := range []string{"Put", "Get", "Delete"} {
		l.runEntry(p.MustMethod(R.Batch, n), []lkState{open, done}, true, inv)
	}
	l.runEntry(p.MustMethod(R.Batch, "Commit"), []lkState{open, done}, true, func(in, out lkState, e *core.Exit) string {
		if msg := inv(in, out, e); msg != "" {
			return msg
		}
		if out.c != '1' {
			return "Commit returned without finishing the batch (lock still held, batch still open)"
		}
		return ""
	})
	// background goroutine(s) started by Open
	openFn := p.Func(core.ModPath, "Open")
	for _, b := range openFn.Blocks {
		for _, in := range b.Instrs {
			if g, ok := in.(*ssa.Go); ok {
				if mc, ok := g.Call.Value.(*ssa.MakeClosure); ok {
					if cf, ok := mc.Fn.(*ssa.Function); ok {
						l.runEntry(cf, []lkState{emptyLK()}, true, sameLocks)
						rep.OK("LK1", "goroutine-entry:"+core.FuncKey(cf), "background goroutine analysed as a shared-context entry point", p.InstrPos(in), false)
					}
				}
			}
		}
	}
	// the index layer's own exported surface (Close is not reachable from DB today)
	for _, n := range []string{"Put", "Get", "Delete", "Size", "Iterator", "Close"} {
		l.runEntry(p.MustMethod(R.ShardedIndex, n), []lkState{emptyLK()}, false, sameLocks)
	}
	if withDatatype {
		dts := p.Pkg(core.ModPath + "/datatype")
		svc, _ := dts.Pkg.Scope().Lookup("DataTypeService").(*types.TypeName)
		if svc == nil {
			core.Failf("role unresolved: datatype.DataTypeService")
		}
		named := svc.Type().(*types.Named)
		ms := p.SSA.MethodSets.MethodSet(types.NewPointer(named))
		n := 0
		for i := 0; i < ms.Len(); i++ {
			fn := p.SSA.MethodValue(ms.At(i))
			if fn == nil || fn.Blocks == nil {
				continue
			}
			n++
			l.runEntry(fn, []lkState{emptyLK()}, false, sameLocks)
		}
		if n < 15 {
			core.Failf("vacuity guard: expected >= 15 DataTypeService methods, found %d", n)
		}
	}
	lk9Scratch(p, rep)
	l.checkOrder()
	l.flush()
	var g []string
	for f, lk := range l.guarded {
		g = append(g, ownerName(p, f)+" guarded by "+lk)
	}
	sort.Strings(g)
	rep.Tables = append(rep.Tables, "inferred guarded fields: "+strings.Join(g, "; "))
	if len(l.guarded) < 6 {
		core.Failf("vacuity guard: only %d guarded fields inferred", len(l.guarded))
	}
	if l.mergeFlag == nil {
		// not a tool failure: a Merge that never raises a flag has no exclusion at all (the flag store was removed)
		rep.Bad("LK4", "merge-flag-set:(*xixi_kv.DB).Merge", "Merge raises its in-progress flag", "", "no boolean field of DB is stored true by Merge: the in-progress test can never refuse a second, concurrent Merge")
	}
	return l
}

// lk2Atomic: a field accessed through sync/atomic anywhere is accessed through sync/atomic everywhere.
func lk2Atomic(p *core.Prog, rep *core.Report) {
	rep.Rule("LK2", "atomic consistency: no struct field of the library is accessed both through sync/atomic and plainly")
	atomicF := map[*types.Var]string{}
	plain := map[*types.Var]string{}
	for _, fn := range p.LibFuncs() {
		for _, b := range fn.Blocks {
			for _, in := range b.Instrs {
				switch t := in.(type) {
				case ssa.CallInstruction:
					if f := t.Common().StaticCallee(); f != nil && f.Package() != nil && f.Package().Pkg.Path() == "sync/atomic" && len(t.Common().Args) > 0 {
						if fv, _ := core.FieldOfAddr(t.Common().Args[0]); fv != nil {
							atomicF[fv] = p.InstrPos(in)
						}
					}
				case *ssa.Store:
					if fv, _ := core.FieldOfAddr(t.Addr); fv != nil {
						plain[fv] = p.InstrPos(in)
					}
				case *ssa.UnOp:
					if fv, _ := core.LoadedField(t); fv != nil {
						plain[fv] = p.InstrPos(in)
					}
				}
			}
		}
	}
	var bad []string
	for f, where := range atomicF {
		if pw, ok := plain[f]; ok {
			bad = append(bad, fmt.Sprintf("%s: atomic at %s, plain at %s", ownerName(p, f), where, pw))
		}
	}
	sort.Strings(bad)
	rep.Check(len(bad) == 0, "LK2", "atomic-vs-plain", fmt.Sprintf("%d field(s) accessed through sync/atomic; none of them is also accessed plainly", len(atomicF)), "", strings.Join(bad, "; "), false)
}

// vf6Snapshot: functions that take an index snapshot do not size their result from the live index.
func vf6Snapshot(p *core.Prog, rep *core.Report) {
	rep.Rule("VF6", "single snapshot acquisition: in a function that takes an index snapshot (ShardedIndex.Iterator), no value derived from the live ShardedIndex.Size() is used as a slice length or index bound")
	n := 0
	for _, fn := range p.LibFuncs() {
		if fn.Package() == nil || fn.Package().Pkg.Path() != core.ModPath {
			continue
		}
		var snaps, sizes []*ssa.Call
		for _, b := range fn.Blocks {
			for _, in := range b.Instrs {
				if c, ok := in.(*ssa.Call); ok {
					if f := c.Common().StaticCallee(); f != nil && core.RecvNamed(f) == p.R.ShardedIndex {
						switch f.Name() {
						case "Iterator":
							snaps = append(snaps, c)
						case "Size":
							sizes = append(sizes, c)
						}
					}
				}
			}
		}
		if len(snaps) == 0 {
			continue
		}
		n++
		key := "snapshot:" + core.FuncKey(fn)
		if len(snaps) > 1 {
			rep.Bad("VF6", key, "one snapshot per enumeration", p.Pos(fn.Pos()), fmt.Sprintf("%d snapshots taken in one function", len(snaps)))
			continue
		}
		bad := ""
		for _, sz := range sizes {
			seen := map[ssa.Value]bool{}
			var walk func(v ssa.Value)
			walk = func(v ssa.Value) {
				if seen[v] || bad != "" {
					return
				}
				seen[v] = true
				for _, ref := range *v.Referrers() {
					switch r := ref.(type) {
					case *ssa.MakeSlice:
						if r.Len == v {
							bad = "live index size used as the length of a slice at " + p.InstrPos(r)
						}
					case *ssa.Convert:
						walk(r)
					case *ssa.BinOp:
						walk(r)
					case *ssa.Phi:
						walk(r)
					case *ssa.IndexAddr:
						if r.Index == v {
							bad = "live index size used as an index at " + p.InstrPos(r)
						}
					}
				}
			}
			walk(sz)
		}
		if bad == "" {
			// VF6b: values are read through the position captured in the snapshot, never through a fresh lookup
			idxGet := p.Reaches("index.get", func(site ssa.CallInstruction) bool {
				c := site.Common().StaticCallee()
				return c != nil && core.RecvNamed(c) == p.R.ShardedIndex && c.Name() == "Get"
			})
			for _, b := range fn.Blocks {
				for _, in := range b.Instrs {
					ci, ok := in.(ssa.CallInstruction)
					if !ok {
						continue
					}
					c := ci.Common().StaticCallee()
					if c == nil || !p.InLib(c) {
						continue
					}
					if (core.RecvNamed(c) == p.R.ShardedIndex && c.Name() == "Get") || idxGet[c] {
						bad = "the live index is consulted through " + core.CalleeName(ci.Common()) + " at " + p.InstrPos(in) + " while enumerating a snapshot: keys come from the snapshot but values from the live state (a concurrent delete aborts the enumeration, an overwrite shows the new value)"
					}
				}
			}
		}
		rep.Check(bad == "", "VF6", key, "result is built from the snapshot only", p.Pos(fn.Pos()), bad, true)
	}
	if n < 3 {
		core.Failf("vacuity guard: expected >= 3 snapshot-taking functions (ListKeys, Fold, NewIterator), found %d", n)
	}
}

func C09(p *core.Prog, rep *core.Report) {
	runLockRules(p, rep, true)
	lk2Atomic(p, rep)
	vf6Snapshot(p, rep)
	lk11PrivateReadBuffers(p, rep)
	rep.Require("LK1", "read:", 10, "guarded reads")
	rep.Require("LK3", "index-update:", 3, "Put, Delete, batch flush")
	rep.Require("LK7", "shard-call:", 6, "put/get/delete/size/iterator/close on shards")
	rep.Assumptions = append(rep.Assumptions,
		"object identity of locks is by access path (owner type + field): two DB objects are not distinguished, except that objects allocated by the analysed activation are fresh (Merge's scratch DB has no mutex at all)",
		"DataFile / MMap / FileIO internals are not in the guarded set: they have no lock of their own; rotated files are read lock-free by design and the only mutation reachable from a read path (MMap.remap from MMap.Read) is dead by the arithmetic argument offset+len <= virtualSize <= endOff, which is not decided here",
		"user callbacks (Fold's fn) and dependency code other than btree/skiplist summaries are not followed",
		"panicking paths are not exits")
	rep.NotCovered = append(rep.NotCovered, "races inside DataFile/MMap state", "absence of all run-time panics (only the cross-goroutine ListKeys one is decided, VF6)", "liveness / starvation", "that the shard used and the shard lock taken are the same element (both come from one locateShard call or one index expression - by reading)")
}

func C08(p *core.Prog, rep *core.Report) {
	full := core.NewReport("C09")
	l := runLockRules(p, full, false)
	_ = l
	// C08 keeps the clauses its mechanism list names: LK3, LK4, LK7 (per-shard atomicity), TB2 (positions immutable)
	for k, v := range full.Rules {
		if k == "LK3" || k == "LK4" || k == "LK7" || k == "LK5" || k == "LK9" || k == "LK10" || k == "LK12" {
			rep.Rule(k, v)
		}
	}
	for _, o := range full.Obls {
		keep := o.Rule == "LK3" || o.Rule == "LK4" || o.Rule == "LK7" || o.Rule == "LK9" || o.Rule == "LK10" || o.Rule == "LK12" || (o.Rule == "LK5" && (strings.Contains(o.Construct, "ShardedIndex") || strings.Contains(o.Construct, "(*xixi_kv.DB).Put") || strings.Contains(o.Construct, "(*xixi_kv.DB).Delete") || strings.Contains(o.Construct, "(*xixi_kv.DB).Get")))
		if keep {
			rep.Add(*o)
		}
	}
	rep.Tables, rep.Stats = full.Tables, full.Stats
	rep.Require("LK3", "index-update:", 3, "Put, Delete, batch flush")
	tb2Positions(p, rep)
	tb2FilesStayOpen(p, rep)
	// a Merge racing with writers must record the boundary captured with its file snapshot (live view = recovered view)
	newMergeCtx(p, rep).mg2MarkerID()
	rep.Assumptions = append(rep.Assumptions, "see C09 for the lock-analysis assumptions (access-path identity, fresh contexts)")
	rep.NotCovered = append(rep.NotCovered, "per-key linearizability of all interleavings; agreement of the live view with recovery for all schedules (only the lock discipline that both rest on is decided)")
}

// lk9Scratch: a scratch DB built by a shared-context function does not share mutable buffers with the live one.
func lk9Scratch(p *core.Prog, rep *core.Report) {
	rep.Rule("LK9", "scratch isolation: when a library function other than Open constructs a fresh DB (Merge's scratch database, used without any lock), every slice / map / pointer field of it is initialised from an allocation of that function, never from a field of the live database (whose buffers are mutated under db.mu)")
	n := 0
	var bad []string
	for _, fn := range p.LibFuncs() {
		if !inRootPkg(fn) || fn.Name() == "Open" {
			continue
		}
		for _, b := range fn.Blocks {
			for _, in := range b.Instrs {
				f, base, val := core.StoreField(in)
				if f == nil || fieldOwner(p, f) != p.R.DB || !freshInFn(base, fn) {
					continue
				}
				switch f.Type().Underlying().(type) {
				case *types.Slice, *types.Map, *types.Pointer:
				default:
					continue
				}
				n++
				for _, o := range core.Origins(val) {
					if lf, lb := core.LoadedField(o); lf != nil && fieldOwner(p, lf) == p.R.DB && !freshInFn(lb, fn) {
						bad = append(bad, fmt.Sprintf("%s initialises the scratch database's %s from the live database's %s at %s: the unlocked scratch user and locked writers share one buffer", core.FuncKey(fn), f.Name(), lf.Name(), p.InstrPos(in)))
					}
				}
			}
		}
	}
	if n < 2 {
		core.Failf("vacuity guard: LK9 expected >= 2 reference-typed fields initialised on a scratch DB, found %d", n)
	}
	rep.Check(len(bad) == 0, "LK9", "scratch-db-isolated", fmt.Sprintf("all %d reference-typed fields of scratch databases are private", n), "", strings.Join(bad, "; "), true)
}
