package triage

import (
	"os"
	"path/filepath"
	"testing"

	kv "github.com/XiXi-2024/xixi-kv"
)

// F8: a failed Open must release the directory lock (pinned tree: second Open = "directory is used").
func TestF8_FailedOpenReleasesLock(t *testing.T) {
	o := kv.DefaultOptions
	d, _ := os.MkdirTemp("", "triage-f8")
	o.DirPath = d
	bad := filepath.Join(d, "abc.data")
	_ = os.WriteFile(bad, []byte("x"), 0644)
	if _, err := kv.Open(o); err == nil {
		t.Fatal("expected failure")
	}
	_ = os.Remove(bad)
	db, err := kv.Open(o)
	if err != nil {
		t.Fatalf("second Open: %v", err)
	}
	_ = db.Close()
}
