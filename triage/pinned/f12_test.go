package triage

import (
	"os"
	"testing"

	kv "github.com/XiXi-2024/xixi-kv"
)

// F12: batch writes must be charged to DiskSize; files stay within DataFileSize.
func TestF12_BatchAccounting(t *testing.T) {
	o := kv.DefaultOptions
	d, _ := os.MkdirTemp("", "triage-f12")
	o.DirPath = d
	o.DataFileSize = 8192
	db, _ := kv.Open(o)
	_ = db.Put([]byte("pre"), make([]byte, 5000))
	for i := 0; i < 3; i++ {
		b := db.NewBatch(kv.DefaultBatchOptions)
		_ = b.Put([]byte("k"), make([]byte, 1000))
		_ = b.Put([]byte("j"), make([]byte, 3000))
		if err := b.Commit(); err != nil {
			t.Fatal(err)
		}
	}
	st := db.Stat()
	t.Logf("%+v", *st)
	if st.ReclaimableSize > st.DiskSize {
		t.Fatalf("reclaimable %d > disk %d", st.ReclaimableSize, st.DiskSize)
	}
	if err := db.Merge(); err != nil {
		t.Fatalf("merge: %v", err)
	}
	ents, _ := os.ReadDir(d)
	for _, e := range ents {
		fi, _ := e.Info()
		if fi.Size() > o.DataFileSize {
			t.Fatalf("%s is %d bytes > limit", e.Name(), fi.Size())
		}
	}
}
