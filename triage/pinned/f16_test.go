package triage

import (
	"fmt"
	"os"
	"path/filepath"
	"testing"

	kv "github.com/XiXi-2024/xixi-kv"
)

// F16 (remark of the C07 round-3 seeding sub-agent, reproduced): Merge removed the leftover directory of an earlier
// FINISHED but not yet adopted merge with one os.RemoveAll. A crash in the middle of that removal could leave the
// marker but not rewritten file 0; the next Open then skipped the delete-originals step, renamed the remaining
// rewritten files over originals and lost records. The repair removes the marker first, so every crash image of the
// cleanup is an unfinished merge, which Open ignores.
func TestF16_CleanupCrashImages(t *testing.T) {
	o := kv.DefaultOptions
	base, _ := os.MkdirTemp("", "triage-f16")
	o.DirPath = filepath.Join(base, "db")
	o.DataFileSize = 16 * 1024
	db, _ := kv.Open(o)
	want := map[string]string{}
	// keys A are written once (they stay live in the oldest files); keys B are overwritten many times afterwards
	for i := 0; i < 400; i++ {
		k, v := fmt.Sprintf("a%03d", i), fmt.Sprintf("A-%d-%s", i, string(make([]byte, 100)))
		_ = db.Put([]byte(k), []byte(v))
		want[k] = v
	}
	for r := 0; r < 6; r++ {
		for i := 0; i < 60; i++ {
			k, v := fmt.Sprintf("b%03d", i), fmt.Sprintf("B%d-%d-%s", r, i, string(make([]byte, 100)))
			_ = db.Put([]byte(k), []byte(v))
			want[k] = v
		}
	}
	if err := db.Merge(); err != nil {
		t.Fatal(err)
	}
	_ = db.Close()
	mdir := o.DirPath + "-merge"
	for _, img := range []struct {
		name   string
		remove []string
		mustOK bool
	}{
		{"old order: rewritten file 0 gone, marker still there", []string{"000000000.data"}, false},
		{"new order: marker gone first", []string{"000000000.merge-finished"}, true},
		{"new order: marker and file 0 gone", []string{"000000000.merge-finished", "000000000.data"}, true},
	} {
		d := filepath.Join(base, "img")
		_ = os.RemoveAll(d)
		_ = os.RemoveAll(d + "-merge")
		copyTree(t, o.DirPath, d)
		copyTree(t, mdir, d+"-merge")
		for _, f := range img.remove {
			_ = os.Remove(filepath.Join(d+"-merge", f))
		}
		o2 := o
		o2.DirPath = d
		db2, err := kv.Open(o2)
		lost := 0
		if err != nil {
			lost = len(want)
		} else {
			for k, v := range want {
				got, err := db2.Get([]byte(k))
				if err != nil || string(got) != v {
					lost++
				}
			}
			_ = db2.Close()
		}
		t.Logf("%-55s open err=%v, wrong/lost keys=%d", img.name, err, lost)
		if img.mustOK && lost != 0 {
			t.Fatalf("image %q must recover everything", img.name)
		}
	}
}
