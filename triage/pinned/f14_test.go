package triage

import (
	"fmt"
	"os"
	"path/filepath"
	"testing"

	kv "github.com/XiXi-2024/xixi-kv"
	"github.com/XiXi-2024/xixi-kv/fio"
)

// F14 (found by a seeding sub-agent on the repaired tree): with MemoryMap I/O the rotated output files of a
// merge were never closed, kept their 512 MiB zero-extended size, and the second restart after adoption
// failed with an invalid-CRC error.
func TestF14_MMapMergeSecondRestart(t *testing.T) {
	o := kv.DefaultOptions
	base, _ := os.MkdirTemp("", "triage-f14")
	o.DirPath = filepath.Join(base, "db")
	o.FileIOType = fio.MemoryMap
	o.DataFileSize = 64 * 1024
	db, err := kv.Open(o)
	if err != nil {
		t.Fatal(err)
	}
	for i := 0; i < 2000; i++ {
		_ = db.Put([]byte(fmt.Sprintf("k%04d", i)), make([]byte, 200))
	}
	if err := db.Merge(); err != nil {
		t.Fatal(err)
	}
	_ = db.Close()
	for r := 1; r <= 2; r++ {
		db, err = kv.Open(o)
		if err != nil {
			t.Fatalf("restart %d: %v", r, err)
		}
		if n := len(db.ListKeys()); n != 2000 {
			t.Fatalf("restart %d: %d keys", r, n)
		}
		_ = db.Close()
	}
}
