package triage

import (
	"os"
	"path/filepath"
	"testing"

	kv "github.com/XiXi-2024/xixi-kv"
)

// F10: file ending 1..7 bytes before a block boundary / damaged length byte must not panic Open.
func TestF10_EOFNearBoundary(t *testing.T) {
	for vl := 32740; vl <= 32760; vl++ {
		o := kv.DefaultOptions
		d, _ := os.MkdirTemp("", "triage-f10")
		o.DirPath = d
		db, err := kv.Open(o)
		if err != nil {
			t.Fatal(err)
		}
		_ = db.Put([]byte("k"), make([]byte, vl))
		_ = db.Close()
		db, err = kv.Open(o)
		if err != nil {
			t.Fatalf("vl=%d reopen: %v", vl, err)
		}
		v, err := db.Get([]byte("k"))
		if err != nil || len(v) != vl {
			t.Fatalf("vl=%d get: %v %d", vl, err, len(v))
		}
		_ = db.Close()
		os.RemoveAll(d)
	}
}

func TestF10_DamagedLength(t *testing.T) {
	o := kv.DefaultOptions
	d, _ := os.MkdirTemp("", "triage-f10b")
	o.DirPath = d
	db, _ := kv.Open(o)
	_ = db.Put([]byte("k"), []byte("value"))
	_ = db.Close()
	f := filepath.Join(d, "000000000.data")
	b, _ := os.ReadFile(f)
	b[5] ^= 0x80
	_ = os.WriteFile(f, b, 0644)
	db, err := kv.Open(o)
	if err == nil {
		t.Logf("open ok (unexpected but not a panic)")
		_ = db.Close()
	} else {
		t.Logf("open failed cleanly: %v", err)
	}
}
