package triage

import (
	"fmt"
	"os"
	"path/filepath"
	"testing"

	kv "github.com/XiXi-2024/xixi-kv"
)

func dump(t *testing.T, db *kv.DB) map[string]string {
	m := map[string]string{}
	for _, k := range db.ListKeys() {
		v, err := db.Get(k)
		if err != nil {
			t.Fatalf("get %q: %v", k, err)
		}
		m[string(k)] = string(v)
	}
	return m
}

func same(a, b map[string]string) bool {
	if len(a) != len(b) {
		return false
	}
	for k, v := range a {
		if b[k] != v {
			return false
		}
	}
	return true
}

func copyTree(t *testing.T, src, dst string) {
	_ = os.RemoveAll(dst)
	_ = filepath.Walk(src, func(p string, info os.FileInfo, err error) error {
		rel, _ := filepath.Rel(src, p)
		if info.IsDir() {
			return os.MkdirAll(filepath.Join(dst, rel), 0755)
		}
		if info.Name() == ".lock" {
			return nil
		}
		b, _ := os.ReadFile(p)
		return os.WriteFile(filepath.Join(dst, rel), b, 0644)
	})
}

// F11: merge is adopted, preserves values (plain + batch-written), survives a second restart,
// and re-running an interrupted adoption is harmless.
func TestF11_MergeAdoption(t *testing.T) {
	o := kv.DefaultOptions
	base, _ := os.MkdirTemp("", "triage-f11")
	o.DirPath = filepath.Join(base, "db")
	o.DataFileSize = 16 * 1024
	db, err := kv.Open(o)
	if err != nil {
		t.Fatal(err)
	}
	for r := 0; r < 10; r++ {
		for i := 0; i < 40; i++ {
			_ = db.Put([]byte(fmt.Sprintf("k%03d", i)), []byte(fmt.Sprintf("v%d-%d-%s", r, i, string(make([]byte, 100)))))
		}
	}
	b := db.NewBatch(kv.DefaultBatchOptions)
	for i := 0; i < 10; i++ {
		_ = b.Put([]byte(fmt.Sprintf("b%03d", i)), []byte("batchval"))
	}
	_ = b.Delete([]byte("k001"))
	if err := b.Commit(); err != nil {
		t.Fatal(err)
	}
	want := dump(t, db)
	if err := db.Merge(); err != nil {
		t.Fatal(err)
	}
	_ = db.Put([]byte("after"), []byte("merge"))
	want["after"] = "merge"
	if !same(want, dump(t, db)) {
		t.Fatal("live mapping changed by merge")
	}
	_ = db.Close()
	// keep a crash image: data dir + merge dir before adoption
	copyTree(t, o.DirPath, filepath.Join(base, "img-db"))
	copyTree(t, o.DirPath+"-merge", filepath.Join(base, "img-db-merge"))

	nBefore := countData(o.DirPath)
	db, err = kv.Open(o)
	if err != nil {
		t.Fatal(err)
	}
	if _, err := os.Stat(o.DirPath + "-merge"); err == nil {
		t.Fatal("merge directory still present: merge not adopted")
	}
	t.Logf("data files before adoption %d, after %d", nBefore, countData(o.DirPath))
	if countData(o.DirPath) >= nBefore {
		t.Fatal("no garbage reclaimed")
	}
	if !same(want, dump(t, db)) {
		t.Fatal("mapping changed by adoption")
	}
	st := db.Stat()
	if st.ReclaimableSize < 0 || st.ReclaimableSize > st.DiskSize {
		t.Fatalf("stat %+v", *st)
	}
	_ = db.Close()
	db, err = kv.Open(o)
	if err != nil {
		t.Fatal(err)
	}
	if !same(want, dump(t, db)) {
		t.Fatal("mapping changed by second restart")
	}
	_ = db.Close()

	// interrupted adoption: adopted data dir + the original merge dir put back (crash before RemoveAll
	// is approximated by restoring marker+hint only, i.e. all data files already moved)
	mdir := o.DirPath + "-merge"
	_ = os.MkdirAll(mdir, 0755)
	for _, n := range []string{"000000000.merge-finished", "000000000.hint"} {
		bs, _ := os.ReadFile(filepath.Join(base, "img-db-merge", n))
		_ = os.WriteFile(filepath.Join(mdir, n), bs, 0644)
	}
	db, err = kv.Open(o)
	if err != nil {
		t.Fatalf("retry after interrupted adoption: %v", err)
	}
	if !same(want, dump(t, db)) {
		t.Fatal("mapping changed by re-run adoption")
	}
	_ = db.Close()

	// crash half-way through phase 2: first two rewritten files moved, rest still in merge dir
	img := filepath.Join(base, "img2")
	copyTree(t, filepath.Join(base, "img-db"), img)
	copyTree(t, filepath.Join(base, "img-db-merge"), img+"-merge")
	// emulate: phase 1 done (originals below marker removed), file 0 moved
	ents, _ := os.ReadDir(img + "-merge")
	nm := 0
	for _, e := range ents {
		if filepath.Ext(e.Name()) == ".data" {
			nm++
		}
	}
	for i := 0; i < nBefore; i++ { // remove originals (ids below marker); marker id = nBefore-1 .. be conservative
		if i < nBefore-1 {
			_ = os.Remove(filepath.Join(img, fmt.Sprintf("%09d.data", i)))
		}
	}
	_ = os.Rename(filepath.Join(img+"-merge", "000000000.data"), filepath.Join(img, "000000000.data"))
	o2 := o
	o2.DirPath = img
	db, err = kv.Open(o2)
	if err != nil {
		t.Fatalf("retry after half adoption: %v", err)
	}
	if !same(want, dump(t, db)) {
		t.Fatalf("mapping changed by half-adoption retry (merged files %d)", nm)
	}
	_ = db.Close()
}

func countData(d string) int {
	ents, _ := os.ReadDir(d)
	n := 0
	for _, e := range ents {
		if filepath.Ext(e.Name()) == ".data" {
			n++
		}
	}
	return n
}
