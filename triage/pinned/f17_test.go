package xixi_kv

// Triage reproduction for F17 (not registered, decides nothing): under MemoryMap I/O, Backup leaves every data file
// unmapped (ResetFileSize); the next reads of a rotated file go through MMap.Read -> remap WITHOUT any lock
// (getValueByPosition reads rotated files lock-free), so concurrent Gets race on MMap.endOff / MMap.activeMap and a
// reader arriving mid-remap slices a nil mapping.
// Run: copy into the module root of a scratch worktree; go test -race -run TestF17 .

import (
	"fmt"
	"os"
	"sync"
	"testing"

	"github.com/XiXi-2024/xixi-kv/fio"
)

func TestF17_ConcurrentGetsAfterBackupMMap(t *testing.T) {
	for round := 0; round < 20; round++ {
		dir, _ := os.MkdirTemp("", "f17")
		bdir, _ := os.MkdirTemp("", "f17b")
		opts := DefaultOptions
		opts.DirPath = dir
		opts.FileIOType = fio.MemoryMap
		opts.DataFileSize = 64 * 1024
		db, err := Open(opts)
		if err != nil {
			t.Fatal(err)
		}
		val := make([]byte, 100)
		for i := 0; i < 3000; i++ {
			if err := db.Put([]byte(fmt.Sprintf("key-%05d", i)), val); err != nil {
				t.Fatal(err)
			}
		}
		if err := db.Backup(bdir); err != nil {
			t.Fatal(err)
		}
		var wg sync.WaitGroup
		start := make(chan struct{})
		var mu sync.Mutex
		var problems []string
		for g := 0; g < 16; g++ {
			wg.Add(1)
			go func() {
				defer wg.Done()
				defer func() {
					if r := recover(); r != nil {
						mu.Lock()
						problems = append(problems, fmt.Sprintf("Get panicked: %v", r))
						mu.Unlock()
					}
				}()
				<-start
				for i := 0; i < 50; i++ {
					if _, err := db.Get([]byte(fmt.Sprintf("key-%05d", i))); err != nil {
						mu.Lock()
						problems = append(problems, "Get: "+err.Error())
						mu.Unlock()
					}
				}
			}()
		}
		close(start)
		wg.Wait()
		_ = db.Close()
		os.RemoveAll(dir)
		os.RemoveAll(bdir)
		if len(problems) > 0 {
			t.Fatalf("round %d: %d problems, first: %s", round, len(problems), problems[0])
		}
	}
}
