package triage

// One-off triage artefacts (DESIGN §5 step 1): reproductions of suspected defects against the real
// package. NOT registered in MANIFEST.json; they decide nothing. Run on the pinned tree 10c4525.

import (
	"fmt"
	"os"
	"sync"
	"testing"

	kv "github.com/XiXi-2024/xixi-kv"
	"github.com/XiXi-2024/xixi-kv/fio"
	"github.com/XiXi-2024/xixi-kv/index"
)

func open(t *testing.T, f func(o *kv.Options)) *kv.DB {
	o := kv.DefaultOptions
	d, _ := os.MkdirTemp("", "triage")
	o.DirPath = d
	if f != nil {
		f(&o)
	}
	db, err := kv.Open(o)
	if err != nil {
		t.Fatal(err)
	}
	return db
}

// F1/F2: Stat races with Put on reclaimSize (atomic add outside the lock vs plain read under RLock).
func TestF1_StatPutRace(t *testing.T) {
	db := open(t, nil)
	var wg sync.WaitGroup
	wg.Add(2)
	go func() { defer wg.Done(); for i := 0; i < 2000; i++ { _ = db.Put([]byte("k"), []byte("v")) } }()
	go func() { defer wg.Done(); for i := 0; i < 2000; i++ { _ = db.Stat() } }()
	wg.Wait()
}

// F1: two deleters of one key: one gets ErrIndexUpdateFailed.
func TestF1_DoubleDelete(t *testing.T) {
	db := open(t, nil)
	bad := 0
	for r := 0; r < 3000 && bad == 0; r++ {
		_ = db.Put([]byte("k"), []byte("v"))
		var wg sync.WaitGroup
		errs := make([]error, 2)
		for g := 0; g < 2; g++ {
			wg.Add(1)
			go func(g int) { defer wg.Done(); errs[g] = db.Delete([]byte("k")) }(g)
		}
		wg.Wait()
		for _, e := range errs {
			if e != nil {
				bad++
				t.Logf("round %d: Delete returned %v", r, e)
			}
		}
	}
	if bad > 0 {
		t.Fatalf("valid concurrent Delete returned an internal error")
	}
}

// F2: Merge reads activeFile / counters unlocked while Put rotates.
func TestF2_MergePutRace(t *testing.T) {
	db := open(t, func(o *kv.Options) { o.DataFileSize = 64 * 1024 })
	var wg sync.WaitGroup
	wg.Add(3)
	go func() { defer wg.Done(); for i := 0; i < 3000; i++ { _ = db.Put([]byte(fmt.Sprintf("k%d", i%50)), make([]byte, 200)) } }()
	go func() { defer wg.Done(); for i := 0; i < 5; i++ { _ = db.Merge() } }()
	go func() { defer wg.Done(); for i := 0; i < 200; i++ { _ = db.Sync() } }()
	wg.Wait()
}

// F3: two concurrent iterators over a B-tree index race inside btree.Clone.
func TestF3_BTreeIteratorRace(t *testing.T) {
	db := open(t, func(o *kv.Options) { o.IndexType = index.BTree; o.ShardNum = 1 })
	for i := 0; i < 100; i++ {
		_ = db.Put([]byte(fmt.Sprintf("k%d", i)), []byte("v"))
	}
	var wg sync.WaitGroup
	for g := 0; g < 4; g++ {
		wg.Add(1)
		go func() { defer wg.Done(); for i := 0; i < 500; i++ { _ = db.ListKeys() } }()
	}
	wg.Wait()
}

// F4: ListKeys sizes from the live index and fills from a snapshot: panics / nil tails.
func TestF4_ListKeysPut(t *testing.T) {
	db := open(t, nil)
	stop := make(chan struct{})
	var wg sync.WaitGroup
	wg.Add(1)
	go func() {
		defer wg.Done()
		for i := 0; ; i++ {
			select {
			case <-stop:
				return
			default:
			}
			k := []byte(fmt.Sprintf("k%d", i%500))
			if i%2 == 0 {
				_ = db.Put(k, []byte("v"))
			} else {
				_ = db.Delete(k)
			}
		}
	}()
	defer func() {
		close(stop)
		wg.Wait()
		if r := recover(); r != nil {
			t.Fatalf("ListKeys panicked: %v", r)
		}
	}()
	for i := 0; i < 20000; i++ {
		for _, k := range db.ListKeys() {
			if k == nil {
				t.Fatalf("ListKeys returned a nil key (size taken separately from snapshot)")
			}
		}
	}
}

// F13: Backup under MMap truncates live mappings; the next large Put dies with SIGBUS.
func TestF13_BackupMMap(t *testing.T) {
	if os.Getenv("F13") == "" {
		t.Skip("kills the process; run with F13=1")
	}
	db := open(t, func(o *kv.Options) { o.FileIOType = fio.MemoryMap })
	_ = db.Put([]byte("a"), []byte("b"))
	d, _ := os.MkdirTemp("", "bk")
	if err := db.Backup(d); err != nil {
		t.Fatal(err)
	}
	if err := db.Put([]byte("big"), make([]byte, 1<<20)); err != nil {
		t.Fatal(err)
	}
}

// F13 (after repair): Backup under MMap, then Sync, big Put, reopen of both directories.
func TestF13_AfterBackupUsable(t *testing.T) {
	db := open(t, func(o *kv.Options) { o.FileIOType = fio.MemoryMap })
	_ = db.Put([]byte("a"), []byte("b"))
	d, _ := os.MkdirTemp("", "bk")
	if err := db.Backup(d); err != nil {
		t.Fatal(err)
	}
	if err := db.Sync(); err != nil {
		t.Fatalf("sync after backup: %v", err)
	}
	if v, err := db.Get([]byte("a")); err != nil || string(v) != "b" {
		t.Fatalf("get after backup: %q %v", v, err)
	}
	if err := db.Backup(d); err != nil {
		t.Fatal(err)
	}
	if err := db.Put([]byte("big"), make([]byte, 1<<20)); err != nil {
		t.Fatal(err)
	}
	if err := db.Backup(d); err != nil {
		t.Fatal(err)
	}
	if err := db.Close(); err != nil {
		t.Fatalf("close: %v", err)
	}
	o := kv.DefaultOptions
	o.DirPath = d
	o.FileIOType = fio.MemoryMap
	db2, err := kv.Open(o)
	if err != nil {
		t.Fatal(err)
	}
	if v, err := db2.Get([]byte("big")); err != nil || len(v) != 1<<20 {
		t.Fatalf("backup get: %d %v", len(v), err)
	}
	_ = db2.Close()
}
