package triage

import (
	"os"
	"path/filepath"
	"testing"

	kv "github.com/XiXi-2024/xixi-kv"
)

// F15 (reported by the C12 round-2 seeding sub-agent on the repaired tree): a data file cut exactly at a block
// boundary inside a multi-chunk record, then appended to, made the sequential reader glue the orphaned First chunk
// to the next record's Full chunk (chunk-type sequence not validated): a bogus value was served for the old key and
// the new key was lost. After the repair the scan fails with an error instead.
func TestF15_OrphanedFirstChunk(t *testing.T) {
	o := kv.DefaultOptions
	d, _ := os.MkdirTemp("", "triage-f15")
	o.DirPath = d
	db, _ := kv.Open(o)
	big := make([]byte, 40000)
	for i := range big {
		big[i] = 'A'
	}
	_ = db.Put([]byte("old"), big)
	_ = db.Close()
	f := filepath.Join(d, "000000000.data")
	_ = os.Truncate(f, 32768)
	db, err := kv.Open(o)
	if err != nil {
		t.Logf("open after truncation failed cleanly: %v", err)
		return
	}
	_ = db.Put([]byte("new"), []byte("value"))
	_ = db.Close()
	db, err = kv.Open(o)
	if err != nil {
		t.Logf("reopen failed cleanly: %v", err)
		return
	}
	defer db.Close()
	v, err := db.Get([]byte("old"))
	if err == nil && len(v) != 40000 {
		t.Fatalf("Get(old) served %d bytes that were never written", len(v))
	}
	if err == nil {
		for _, b := range v {
			if b != 'A' {
				t.Fatalf("Get(old) served bytes that were never written")
			}
		}
	}
	if _, err := db.Get([]byte("new")); err != nil {
		t.Fatalf("acknowledged key lost: %v", err)
	}
}
