#!/bin/bash
# Runs every check (one load, all properties) against each confirmed seeded change, applied to /repo and
# undone straight afterwards. Output: /verif/seeded/MATRIX.txt
export GOFLAGS=-mod=mod GOPROXY=off GOSUMDB=off GOTOOLCHAIN=local GOMAXPROCS=2 CGO_ENABLED=0; unset GOWORK
cd /verif
OUT=/verif/seeded/MATRIX.txt
: > "$OUT"
git -C /repo diff --quiet || { echo "/repo is dirty"; exit 2; }
for d in seeded/C*-[${SEED_SET:-A-D}]; do
  s=$(basename $d); pid=${s%-*}
  [ -f $d/meta.json ] || continue
  grep -q '"confirmed": true' $d/meta.json || { echo "$s unconfirmed" >> "$OUT"; continue; }
  if ! git -C /repo apply /verif/$d/patch.diff 2>/dev/null; then git -C /repo apply -3 /verif/$d/patch.diff 2>/dev/null || { echo "$s patch-failed" >> "$OUT"; git -C /repo checkout -- .; continue; }; fi
  res=$(bin/xkvlint -prop matrix -repo /repo 2>&1)
  git -C /repo reset -q --hard HEAD
  own=$(echo "$res" | grep "^$pid " | grep -v TOOL-FAILURE | head -3 | sed 's/^/    /')
  others=$(echo "$res" | grep -v "^$pid " | awk '{print $1}' | sort -u | paste -sd, )
  tf=$(echo "$res" | grep TOOL-FAILURE | head -2)
  if [ -n "$own" ]; then verdict=CAUGHT; elif [ -n "$others" ]; then verdict="caught-by-other($others)"; else verdict=MISSED; fi
  echo "$s $verdict" >> "$OUT"
  [ -n "$own" ] && echo "$own" >> "$OUT"
  [ -z "$own" ] && [ -n "$others" ] && echo "$res" | grep -v "^$pid " | head -3 | sed 's/^/    /' >> "$OUT"
  [ -n "$tf" ] && echo "    $tf" >> "$OUT"
done
git -C /repo status --short | head -3
cat "$OUT"
