#!/usr/bin/env python3
# Turns confirmed seeds into corpus variants: seed_to_mutant.py out.json "Cxx-X:RULE:construct_contains" ...
import sys,json,re,os
out=sys.argv[1]
M=json.load(open(out)) if os.path.exists(out) else []
ids={m['id'] for m in M}
for spec in sys.argv[2:]:
    seed,rule,cc=(spec.split(':')+['',''])[:3]
    diff=open(f'/verif/seeded/{seed}/patch.diff').read()
    edits=[]; cur=None; f=None
    for line in diff.splitlines():
        if line.startswith('+++ b/'): f=line[6:]; continue
        if line.startswith('--- ') or line.startswith('diff ') or line.startswith('index '): continue
        if line.startswith('@@'):
            cur={'file':f,'find':[], 'replace':[]}; edits.append(cur); continue
        if cur is None: continue
        if line.startswith('-'): cur['find'].append(line[1:])
        elif line.startswith('+'): cur['replace'].append(line[1:])
        elif line.startswith('\\'): continue
        else:
            t=line[1:] if line.startswith(' ') else line
            cur['find'].append(t); cur['replace'].append(t)
    es=[{'file':e['file'],'find':'\n'.join(e['find'])+'\n','replace':'\n'.join(e['replace'])+'\n'} for e in edits]
    mid='seed-'+seed.lower()
    if mid in ids: continue
    m={'id':mid,'props':[seed.split('-')[0]],'file':es[0]['file'],'find':es[0]['find'],'replace':es[0]['replace'],'rule':rule,'construct_contains':cc,'note':'seeded '+seed}
    if len(es)>1: m['edits']=es[1:]
    M.append(m)
json.dump(M,open(out,'w'),indent=1,ensure_ascii=False)
print(len(M))
