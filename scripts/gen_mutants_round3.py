import json
M=[]
def m(id,props,file,find,replace,rule,cc,note,edits=None,all=False):
    d={"id":id,"props":props,"file":file,"find":find,"replace":replace,"rule":rule,"construct_contains":cc,"note":note}
    if all: d["all"]=True
    if edits: d["edits"]=edits
    M.append(d)
m("bt2-put-hit-flush-not-restaged",["C04","C05"],"batch.go",
  "\t\tlogRecord.Value = append(logRecord.Value, value...)\n\t\tb.addPendingRecord(key, logRecord)\n\t\tb.cachedDataSize += newSize\n",
  "\t\tlogRecord.Value = append(logRecord.Value, value...)\n\t\tb.cachedDataSize += newSize\n",
  "BT2","flush-then-stage:(*xixi_kv.Batch).Put","after a mid-batch flush on the hit path the record is not staged again")
m("bt3-flush-loop-break",["C04","C17"],"batch.go",
  "\t\tif pos != nil {\n\t\t\tb.db.reclaimSize += int64(pos.Size)\n\t\t}\n\t\t// 写入完成后将结构体归还缓冲池\n",
  "\t\tif pos == nil {\n\t\t\tbreak\n\t\t}\n\t\tb.db.reclaimSize += int64(pos.Size)\n\t\t// 写入完成后将结构体归还缓冲池\n",
  "BT3","flush-loop-complete","index loop of flushStaged left early")
m("eof2-merge-crc-ends-scan",["C06","C12","C18","C03"],"merge.go",
  "\t\t\tif err != nil {\n\t\t\t\tif err == io.EOF {\n\t\t\t\t\tbreak\n\t\t\t\t}\n\t\t\t\treturn err\n\t\t\t}\n\t\t\t// 比较内存中索引的最新数据",
  "\t\t\tif err != nil {\n\t\t\t\tif err == io.EOF || err == datafile.ErrInvalidCRC {\n\t\t\t\t\tbreak\n\t\t\t\t}\n\t\t\t\treturn err\n\t\t\t}\n\t\t\t// 比较内存中索引的最新数据",
  "EOF2","scan-ends-on-eof-only","Merge treats a corrupt record as the end of the file and still writes its marker")
m("list1-left-end-other-convention",["C19"],"datatype/types.go",
  "\t\tlk.index = meta.head - 1\n","\t\tlk.index = meta.head\n",
  "LIST1","window-convention","left end follows (lo,hi] while right end follows [lo,hi): first LPush and first RPush share a slot",
  edits=[{"file":"datatype/types.go","find":"\t\tlk.index = meta.head\n\t} else {\n\t\tlk.index = meta.tail - 1\n","replace":"\t\tlk.index = meta.head + 1\n\t} else {\n\t\tlk.index = meta.tail - 1\n"}])
m("list1-cursors-start-apart",["C19"],"datatype/types.go",
  "\t\t\tmeta.tail = initialListMark\n","\t\t\tmeta.tail = initialListMark + 1\n",
  "LIST1","cursors-start-equal","fresh list claims one occupied slot")
m("pool2-seal-released-twice",["C04","C09","C15"],"batch.go",
  "\tb.db.putRecordToPool(logRecord)\n\tif err != nil {\n\t\treturn err\n\t}\n\t// 完成标识记录同样需要按配置持久化\n",
  "\tb.db.putRecordToPool(logRecord)\n\tif err != nil {\n\t\tb.db.putRecordToPool(logRecord)\n\t\treturn err\n\t}\n\t// 完成标识记录同样需要按配置持久化\n",
  "POOL2","single-release:(*xixi_kv.Batch).Commit","the seal record is returned to the pool twice on the error path")
m("wd1-block-offset-in-32-bits",["C11","C12"],"datafile/data_file.go",
  "\t\toff := int64(blockID) * blockSize\n","\t\toff := int64(blockID * blockSize)\n",
  "WD1","block-offset-width","block offset multiplied in uint32: wraps at 4 GiB")
m("wd1-helper-returns-narrow-product",["C11"],"datafile/data_file.go",
  "\t\toff := int64(reader.blockID) * blockSize\n","\t\toff := int64(blockStart(reader.blockID))\n",
  "WD1","block-offset-width","helper returns the product as uint32, caller widens",
  edits=[{"file":"datafile/data_file.go","find":"func (df *DataFile) Size() int64 {","replace":"func blockStart(id uint32) uint32 { return id * blockSize }\n\nfunc (df *DataFile) Size() int64 {"}])
m("cfg1-batch-sync-cleared-by-auto-flush",["C13","C14"],"batch.go",
  "func (b *Batch) flushStagedAndUpdateFile() error {\n","func (b *Batch) flushStagedAndUpdateFile() error {\n\tb.options.Sync = false\n",
  "CFG1","options-immutable","Sync option of a live batch cleared: later flushes and the seal are not synced")
m("cfg1-db-strategy-switched-in-merge",["C13","C14"],"merge.go",
  "\tnonMergeFileId := db.activeFile.ID\n","\tnonMergeFileId := db.activeFile.ID\n\tdb.options.SyncStrategy = No\n",
  "CFG1","options-immutable","SyncStrategy of the open DB overwritten by Merge")
m("eof1c-decoder-zero-header-is-eof",["C03","C12"],"datafile/log_record.go",
  "\tlength := binary.LittleEndian.Uint16(block[4:6])\n\tstart, end := chunkHeaderSize",
  "\tlength := binary.LittleEndian.Uint16(block[4:6])\n\tif length == 0 && block[6] == 0 && binary.LittleEndian.Uint32(block[:4]) == 0 {\n\t\treturn nil, 0, io.EOF\n\t}\n\tstart, end := chunkHeaderSize",
  "EOF1","eof-only-from-readers","an all-zero header decodes as end of log: a zeroed block silently hides the rest of the file",
  edits=[{"file":"datafile/log_record.go","find":"\t\"hash/crc32\"\n)","replace":"\t\"hash/crc32\"\n\t\"io\"\n)"}])
m("tr1-mmap-close-without-truncate",["C02"],"fio/mmap.go",
  "\tif err := m.resetFileSize(); err != nil {\n\t\treturn err\n\t}\n\treturn m.file.Close()\n",
  "\tif m.activeMap != nil {\n\t\tif err := m.activeMap.Flush(); err != nil {\n\t\t\treturn err\n\t\t}\n\t\tif err := m.activeMap.Unmap(); err != nil {\n\t\t\treturn err\n\t\t}\n\t}\n\treturn m.file.Close()\n",
  "TR1","truncate-before-close","Close leaves the file at its mapping size: zero tail read as chunks on the next Open")
m("cd5-block-size-exceeds-length-field",["C11"],"datafile/log_record.go",
  "\tblockSize = 32 * 1024\n","\tblockSize = 128 * 1024\n",
  "CD5","","payload of a full block no longer fits the 16-bit length field")
m("tb2b-merge-drops-older-file-entries",["C08"],"merge.go",
  "\tfor _, file := range db.olderFiles {\n\t\tmergeFiles = append(mergeFiles, file)\n\t}\n",
  "\tfor id, file := range db.olderFiles {\n\t\tmergeFiles = append(mergeFiles, file)\n\t\tif id+8 < nonMergeFileId {\n\t\t\tdelete(db.olderFiles, id)\n\t\t}\n\t}\n",
  "TB2b","","positions still in the index point at files removed from the rotated-files map")
m("tb5b-observer-writes-through-receiver",["C10"],"index/btree.go",
  "func (it *btreeIterator) key() []byte {\n\tif !it.isIterable {\n\t\treturn nil\n\t}\n",
  "func (it *btreeIterator) key() []byte {\n\tif !it.isIterable {\n\t\tit.current = nil\n\t\treturn nil\n\t}\n",
  "TB5b","","observer of one shard iterator writes iterator state")
m("tb6b-sync-uses-unmapped-region",["C20"],"fio/mmap.go",
  "\tif m.activeMap == nil {\n\t\treturn m.file.Sync()\n\t}\n\treturn m.activeMap.Flush()\n",
  "\treturn m.activeMap.Flush()\n",
  "TB6b","","Sync after a size reset flushes a nil mapping")

m("hp2-seek-drops-exhausted-cursors",["C10","C14"],"index/sharded_index.go",
  "\t\tif item.valid() {\n\t\t\tit.heap.items = append(it.heap.items, item)\n\t\t} else {\n\t\t\tit.oldItems = append(it.oldItems, item)\n\t\t}\n\t}\n\n\t// 重新构建堆",
  "\t\tif item.valid() {\n\t\t\tit.heap.items = append(it.heap.items, item)\n\t\t}\n\t}\n\n\t// 重新构建堆",
  "HP2","cursor-conserved:(*index.IndexIterator).Seek","Seek forgets the cursors it exhausts (seeded C10-E)")
m("hp2-next-drops-exhausted-cursor",["C10","C14"],"index/sharded_index.go",
  "\tif item.valid() {\n\t\theap.Push(it.heap, item)\n\t} else {\n\t\tit.oldItems = append(it.oldItems, item)\n\t}\n",
  "\tif item.valid() {\n\t\theap.Push(it.heap, item)\n\t}\n",
  "HP2","cursor-conserved:(*index.IndexIterator).Next","Next forgets the cursor it exhausts: Rewind no longer visits that shard")

m("lk13-remap-under-read-lock",["C09","C20"],"fio/mmap.go",
  "\tm.mu.Lock()\n\tdefer m.mu.Unlock()\n\tif offset >= m.virtualSize {\n\t\treturn 0, io.EOF\n\t}\n\tif err := m.remap(offset, len(b)); err != nil {",
  "\tm.mu.RLock()\n\tdefer m.mu.RUnlock()\n\tif offset >= m.virtualSize {\n\t\treturn 0, io.EOF\n\t}\n\tif err := m.remap(offset, len(b)); err != nil {",
  "LK13","locked-state:(*fio.MMap).Read","the slow path of Read re-maps while holding only the read lock")
m("lk13-reset-without-lock",["C09","C20"],"fio/mmap.go",
  "func (m *MMap) ResetFileSize() error {\n\tm.mu.Lock()\n\tdefer m.mu.Unlock()\n\treturn m.resetFileSize()",
  "func (m *MMap) ResetFileSize() error {\n\treturn m.resetFileSize()",
  "LK13","locked-state:(*fio.MMap).ResetFileSize","Backup's size reset unmaps without excluding lock-free readers")
m("lk13-mmap-unlocked",["C09","C20"],"fio/mmap.go",
  "\tm.mu.Lock()\n\tdefer m.mu.Unlock()\n","",
  "LK13","locked-state:(*fio.MMap).Read","pre-fix behaviour (F17): MMap without any lock",all=True,
  edits=[{"file":"fio/mmap.go","find":"\tm.mu.RLock()\n\tdefer m.mu.RUnlock()\n","replace":"","all":True},
         {"file":"fio/mmap.go","find":"\t\tm.mu.RUnlock()\n","replace":"","all":True},
         {"file":"fio/mmap.go","find":"\tm.mu.RUnlock()\n","replace":"","all":True},
         {"file":"fio/mmap.go","find":"\tm.mu.RLock()\n","replace":"","all":True}])

m("cd8-cursor-left-at-block-size",["C01","C11"],"datafile/data_file.go",
  "\tnextID += nextSize / blockSize\n\tnextSize %= blockSize\n",
  "\tif nextSize > blockSize {\n\t\tnextID += nextSize / blockSize\n\t\tnextSize %= blockSize\n\t}\n",
  "CD8","cursor-below-block-size","a record ending exactly on a block boundary leaves the cursor at offset 32768 (seeded C01-G)")
m("bt4-tombstone-not-indexed",["C05","C04"],"batch.go",
  "\tb.addPendingRecord(key, logRecord)\n\tb.cachedDataSize += size\n\treturn nil\n}",
  "\tb.staged = append(b.staged, logRecord)\n\tb.cachedDataSize += size\n\treturn nil\n}",
  "BT4","paired-append:(*xixi_kv.Batch).Delete","tombstone staged without a lookup entry: Batch.Get serves the pre-batch value (seeded C05-H)")
m("bt4-reset-leaves-lookup",["C05"],"batch.go",
  "\tb.staged = b.staged[:0]\n\tb.stageIndex = map[uint64][]int{}\n",
  "\tb.staged = b.staged[:0]\n",
  "BT4","paired-reset:(*xixi_kv.Batch).flushStaged","mid-batch flush keeps stale lookup entries")
m("cf2-active-file-chosen-by-size-limit",["C02","C14"],"db.go",
  "\t\tif i == len(fileIds)-1 {\n","\t\tif i == len(fileIds)-1 && dataFile.Size() < db.options.DataFileSize {\n",
  "CF2","open-ignores-size-limit","a full newest file is not made active: the next session appends to low-numbered old files (seeded C02-H)")

m("dt1-hset-existence-from-nil-value",["C19"],"datatype/types.go",
  "\tvar exist = true\n\tif _, err = dts.db.Get(encKey); err == bitcask.ErrKeyNotFound {\n\t\texist = false\n\t}\n\n\t// 涉及更新数据和元数据两步操作, 需保证原子性\n\twb := dts.db.NewBatch(bitcask.DefaultBatchOptions)\n\t// 不存在则更新元数据",
  "\toldValue, err := dts.db.Get(encKey)\n\tif err != nil && err != bitcask.ErrKeyNotFound {\n\t\treturn false, err\n\t}\n\texist := oldValue != nil\n\n\t// 涉及更新数据和元数据两步操作, 需保证原子性\n\twb := dts.db.NewBatch(bitcask.DefaultBatchOptions)\n\t// 不存在则更新元数据",
  "DT1","existence-by-error","HSet decides existence from the value: a field holding an empty value counts as new (seeded C19-A)")

m("pool3-reader-releases-callers-buffer",["C12","C09","C15"],"datafile/data_file.go",
  "\t\tdata, chunkType, err := DecodeChunk(block[offset:size])\n\t\tif err != nil {\n\t\t\treturn err\n\t\t}",
  "\t\tdata, chunkType, err := DecodeChunk(block[offset:size])\n\t\tif err != nil {\n\t\t\tbytebufferpool.Put(buf)\n\t\t\treturn err\n\t\t}",
  "POOL3","single-release:(*datafile.DataFile).ReadRecordValue","positional reader releases the buffer its callers also release: after a detected CRC error one buffer is in the pool twice (seeded C12-G)")
m("ps8-backend-short-read-is-success",["C12","C03"],"fio/file_io.go",
  "\treturn fio.fd.ReadAt(b, offset)\n",
  "\tn, err := fio.fd.ReadAt(b, offset)\n\tif err == io.EOF && n > 0 {\n\t\treturn n, nil\n\t}\n\treturn n, err\n",
  "PS8","backend-read:(*fio.FileIO).Read","short read at end of file reported as success: stale bytes of the pooled block buffer are decoded (seeded C12-H)",
  edits=[{"file":"fio/file_io.go","find":"import \"os\"","replace":"import (\n\t\"io\"\n\t\"os\"\n)"}])
m("tb4c-empty-means-absent-before-tag-test",["C19"],"datatype/types.go",
  "\t\tif meta.dataType != dt {\n\t\t\treturn nil, ErrWrongTypeOperation\n\t\t}\n",
  "\t\tif meta.size == 0 {\n\t\t\texist = false\n\t\t} else if meta.dataType != dt {\n\t\t\treturn nil, ErrWrongTypeOperation\n\t\t}\n",
  "TB4","tag-test-first","size tested before the type tag: a one-byte string decodes to size 0 and loses its wrong-type reply (seeded C19-G)")
m("rm1-adoption-removes-listed-names",["C16","C07"],"merge.go",
  "\t\tfor fileID := uint32(0); fileID < mergeID; fileID++ {\n\t\t\tdestName := datafile.GetFileName(db.options.DirPath, fileID, datafile.DataFileSuffix)\n",
  "\t\tentries, err := os.ReadDir(db.options.DirPath)\n\t\tif err != nil {\n\t\t\treturn 0, err\n\t\t}\n\t\tfor _, entry := range entries {\n\t\t\tfileID, _ := strconv.Atoi(strings.SplitN(entry.Name(), \".\", 2)[0])\n\t\t\tif entry.IsDir() || uint32(fileID) >= mergeID {\n\t\t\t\tcontinue\n\t\t\t}\n\t\t\tdestName := filepath.Join(db.options.DirPath, entry.Name())\n",
  "RM1","removal-targets-constructed","adoption deletes by directory listing: '.lock' parses as id 0 and is unlinked while held (seeded C16-H)",
  edits=[{"file":"merge.go","find":"\t\"path/filepath\"\n)","replace":"\t\"path/filepath\"\n\t\"strconv\"\n\t\"strings\"\n)"}])
m("cd9-open-steps-over-short-tail",["C11","C02"],"datafile/data_file.go",
  "\treturn &DataFile{\n\t\tID:            id,\n\t\tReadWriter:    readWriter,\n\t\tlastBlockID:   uint32(size / blockSize),\n\t\tlastBlockSize: uint32(size % blockSize),\n",
  "\tlastBlockID, lastBlockSize := uint32(size/blockSize), uint32(size%blockSize)\n\tif lastBlockSize+chunkHeaderSize >= blockSize {\n\t\tlastBlockID += 1\n\t\tlastBlockSize = 0\n\t}\n\treturn &DataFile{\n\t\tID:            id,\n\t\tReadWriter:    readWriter,\n\t\tlastBlockID:   lastBlockID,\n\t\tlastBlockSize: lastBlockSize,\n",
  "CD9","open-cursor:datafile.OpenFile","cursor moved past an unpadded block tail at open: logical size != physical size (seeded C11-G)")
# union props with what a WRITE_PROPS=1 corpus run recorded earlier
try:
    old={m['id']:m for m in json.load(open('/verif/mutants/c_round3.json'))}
    for m in M:
        if m['id'] in old: m['props']=sorted(set(m['props'])|set(old[m['id']]['props']))
except Exception: pass
json.dump(M,open('/verif/mutants/c_round3.json','w'),indent=1,ensure_ascii=False)
print(len(M))
