#!/bin/bash
# Development aid: apply a patch to a scratch worktree of /repo HEAD and run the named properties' quick checks on it
# (evidence goes to a scratch directory). Usage: try.sh <patch|none> <Cxx> [Cxx...]
export GOFLAGS=-mod=mod GOPROXY=off GOSUMDB=off GOTOOLCHAIN=local GOMAXPROCS=2 CGO_ENABLED=0; unset GOWORK
PATCH=$1; shift
WT=$(mktemp -d /tmp/try-XXXXXX); rmdir $WT
git -C /repo worktree add -q --detach $WT HEAD || exit 2
case "$PATCH" in none|/*) ;; *) PATCH=$(pwd)/$PATCH;; esac
if [ "$PATCH" != none ]; then git -C $WT apply $PATCH 2>/dev/null || git -C $WT apply -3 $PATCH || { echo patch-failed; }; fi
V=$(mktemp -d /tmp/tryv-XXXXXX); mkdir -p $V/evidence; cp /verif/known_findings.json /verif/properties.jsonl $V/; cp -r /verif/mutants $V/
for P in "$@"; do
  /verif/bin/xkvlint -prop $P -tier quick -repo $WT -verif $V 2>&1 | grep -v "^WARNING" | cut -c1-400
done
git -C /repo worktree remove --force $WT; rm -rf $WT $V
