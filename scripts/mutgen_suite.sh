#!/bin/bash
# Development triage aid: for every mechanical variant that no rule noticed, does the project's own test suite notice it?
# (Hidden changes are promised to pass the suite, so only suite-surviving variants matter.) Not registered; decides nothing.
# Usage: mutgen_suite.sh <dir with variant json + .out> <out.jsonl> [workers]
export GOFLAGS=-mod=mod GOPROXY=off GOSUMDB=off GOTOOLCHAIN=local GOMAXPROCS=3; unset GOWORK
D=$1; OUT=$2; W=${3:-5}
python3 - "$D" > /tmp/mgs-list.txt <<'PY'
import json,glob,re,sys
for f in sorted(glob.glob(sys.argv[1]+'/*.json')):
    try: o=open(f+'.out').read()
    except: continue
    rc=re.search(r'rc=(\d+)',o)
    if rc and rc.group(1)=='0' and not re.search(r'^C\d+ (VIOLATED|UNDECIDED)',o,re.M): print(f)
PY
for k in $(seq 1 $W); do
 (
  export TMPDIR=/tmp/mgs-tmp-$k; mkdir -p $TMPDIR; WT=/tmp/mgs-wt-$k; rm -rf $WT; git -C /repo worktree remove --force $WT 2>/dev/null; git -C /repo worktree add -q --detach $WT HEAD || exit 2
  awk -v k=$k -v w=$W 'NR%w==k%w' /tmp/mgs-list.txt | while read f; do
    [ -f $f.suite ] && continue
    python3 - "$f" "$WT" <<'PY'
import json,sys
m=json.load(open(sys.argv[1])); p=sys.argv[2]+'/'+m['file']
s=open(p).read()
assert m['find'] in s
open(p,'w').write(s.replace(m['find'],m['replace'],1))
PY
    cd $WT
    if ! go build ./... >/dev/null 2>&1; then r=nobuild
    elif timeout 180 go test -vet=off -count=1 ./... >/tmp/mgs-$k.log 2>&1; then r=suite-pass; else r=suite-fail; fi
    echo $r > $f.suite
    git checkout -q -- .; rm -rf /tmp/mgs-tmp-$k/* 2>/dev/null
  done
  cd /; git -C /repo worktree remove --force $WT; rm -rf $WT $TMPDIR
 ) &
done
wait
python3 - "$D" "$OUT" <<'PY'
import json,glob,sys
out=open(sys.argv[2],'w')
for f in sorted(glob.glob(sys.argv[1]+'/*.json')):
    try: r=open(f+'.suite').read().strip()
    except: continue
    m=json.load(open(f)); out.write(json.dumps({"id":m["id"],"kind":m["kind"],"file":m["file"],"line":m["line"],"func":m["func"],"text":m["text"],"suite":r})+"\n")
PY
