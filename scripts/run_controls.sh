#!/bin/bash
# Analyses every control variant (behaviour-preserving edit) with ALL twenty checks in one load each.
# Every check must stay silent. Output: one line per control.
export GOFLAGS=-mod=mod GOPROXY=off GOSUMDB=off GOTOOLCHAIN=local GOMAXPROCS=2 CGO_ENABLED=0; unset GOWORK
cd /verif
python3 - <<'PY'
import json,glob,subprocess,tempfile,os,sys
bad=0
for f in sorted(glob.glob('mutants/*.json')):
    for m in json.load(open(f)):
        if not m.get('control'): continue
        t=tempfile.NamedTemporaryFile('w',suffix='.json',delete=False); json.dump(m,t); t.close()
        r=subprocess.run(['bin/xkvlint','-prop','matrix','-repo',os.environ.get('XKV_REPO','/repo'),'-overlay',t.name],capture_output=True,text=True)
        os.unlink(t.name)
        out=(r.stdout+r.stderr).strip()
        st={0:'silent-ok',1:'FALSE-ALARM',2:'TOOL-FAILURE',3:'inapplicable'}.get(r.returncode,'rc=%d'%r.returncode)
        if r.returncode in(1,2): bad+=1
        print('%-44s %s'%(m['id'],st))
        if r.returncode in(1,2):
            for l in out.splitlines()[:6]: print('      '+l[:220])
sys.exit(1 if bad else 0)
PY
