#!/bin/bash
# Usage: run_mutants_matrix.sh <mutants.json> [parallel]  - every variant of one corpus file through all properties (one load each).
# Prints per variant: the expected rule, whether an obligation of that rule failed in one of its listed properties, and all failing (prop rule) pairs.
export GOFLAGS=-mod=mod GOPROXY=off GOSUMDB=off GOTOOLCHAIN=local GOMAXPROCS=2 CGO_ENABLED=0; unset GOWORK
F=$1; P=${2:-6}; T=$(mktemp -d /tmp/xkvmm.XXXX)
python3 - "$F" "$T" <<'PY'
import json,sys
ms=json.load(open(sys.argv[1]))
for i,m in enumerate(ms):
    json.dump(m,open(f"{sys.argv[2]}/{i:03d}.json","w"))
PY
ls $T/*.json | xargs -P $P -I{} sh -c '${XKV_BIN:-/verif/bin/xkvlint} -prop matrix -repo ${XKV_REPO:-/repo} -overlay {} > {}.out 2>&1; echo $? > {}.rc'
python3 - "$T" <<'PY'
import json,sys,glob,re,os
bad=0
upd={}
for f in sorted(glob.glob(sys.argv[1]+"/*.json")):
    m=json.load(open(f)); out=open(f+".out").read(); rc=open(f+".rc").read().strip()
    fails=[l.split() for l in out.splitlines() if re.match(r"^C\d+ (VIOLATED|UNDECIDED)",l)]
    pairs=sorted({(x[0],x[2]) for x in fails})
    if m.get("control"):
        ok = rc=="0"; verdict="silent-ok" if ok else "FALSE-ALARM"
    else:
        want=m.get("rule","")
        hit=[l for l in out.splitlines() if re.match(r"^C\d+ (VIOLATED|UNDECIDED)",l) and l.split()[0] in m["props"] and (not want or l.split()[2]==want) and m.get("construct_contains","") in l]
        ok=bool(hit); verdict="caught" if ok else ("caught-other-rule" if any(p in m["props"] for p,_ in pairs) else ("TOOL-FAILURE" if rc not in("0","1") else "MISSED"))
        ok = ok
    if not ok: bad+=1
    if os.environ.get("WRITE_PROPS") and not m.get("control") and hit:
        allp=sorted({l.split()[0] for l in out.splitlines() if re.match(r"^C\d+ (VIOLATED|UNDECIDED)",l) and (not want or l.split()[2]==want) and m.get("construct_contains","") in l})
        upd[m["id"]]=sorted(set(m["props"])|set(allp))
    print(f'{m["id"]:45s} {verdict:18s} rc={rc} {" ".join(p+":"+r for p,r in pairs)[:160]}')
    if rc not in ("0","1"): print("   ", out.strip().splitlines()[-1][:300] if out.strip() else "")
if upd: json.dump(upd,open(sys.argv[1]+'/props_update.json','w'))
sys.exit(1 if bad else 0)
PY
rc=$?
if [ -f $T/props_update.json ]; then python3 - "$F" $T/props_update.json <<'PY2'
import json,sys
ms=json.load(open(sys.argv[1])); u=json.load(open(sys.argv[2]))
for m in ms:
    if m['id'] in u: m['props']=u[m['id']]
json.dump(ms,open(sys.argv[1],'w'),indent=1,ensure_ascii=False)
PY2
fi; rm -rf $T; exit $rc
