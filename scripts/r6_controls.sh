#!/bin/bash
# Runs all twenty checks (one load) on every round-6 control (behaviour-preserving refactoring from an independent
# sub-agent) in scratch worktrees of /repo HEAD. Usage: r6_controls.sh <tag> [parallel] [binary]
TAG=$1; PAR=${2:-8}; BIN=${3:-/verif/bin/xkvlint}
export GOFLAGS=-mod=mod GOPROXY=off GOSUMDB=off GOTOOLCHAIN=local GOMAXPROCS=2 CGO_ENABLED=0; unset GOWORK
mkdir -p /tmp/r6/res
cp $BIN /tmp/r6/xkvlint-$TAG
ls -d /verif/seeded/controls/C??-R? | xargs -P $PAR -I{} sh -c '
  n=$(basename {}); WT=/tmp/ec-'$TAG'-$n; git -C /repo worktree remove --force $WT 2>/dev/null; rm -rf $WT
  git -C /repo worktree add -q --detach $WT HEAD || exit 0
  if git -C $WT apply {}/patch.diff 2>/dev/null; then /tmp/r6/xkvlint-'$TAG' -prop matrix -repo $WT > /tmp/r6/res/$n.'$TAG'.txt 2>&1; echo "rc=$?" >> /tmp/r6/res/$n.'$TAG'.txt; else echo patch-failed > /tmp/r6/res/$n.'$TAG'.txt; fi
  git -C /repo worktree remove --force $WT 2>/dev/null; rm -rf $WT'
for f in /tmp/r6/res/*-R?.$TAG.txt; do n=$(basename $f .$TAG.txt); echo "$n $(grep -o "rc=.*" $f) $(grep -E "^C[0-9]+ " $f | awk "{print \$3\":\"\$4}" | sort -u | paste -sd" " | cut -c1-300)"; done
