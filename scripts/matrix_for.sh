#!/bin/bash
# Usage: matrix_for.sh <label> <patch> [<label> <patch> ...]   - applies each patch to /repo, runs all checks, undoes it.
export GOFLAGS=-mod=mod GOPROXY=off GOSUMDB=off GOTOOLCHAIN=local GOMAXPROCS=2 CGO_ENABLED=0; unset GOWORK
cd /verif
REPO=${XKV_REPO:-/repo}
git -C $REPO diff --quiet || { echo "$REPO is dirty"; exit 2; }
while [ $# -ge 2 ]; do
  s=$1; patch=$2; shift 2; pid=${s%-*}
  if ! git -C $REPO apply "$patch" 2>/dev/null; then git -C $REPO apply -3 "$patch" 2>/dev/null || { echo "$s patch-failed"; git -C $REPO reset -q --hard HEAD; continue; }; fi
  res=$(${XKV_BIN:-bin/xkvlint} -prop matrix -repo $REPO 2>&1)
  git -C $REPO reset -q --hard HEAD
  own=$(echo "$res" | grep "^$pid " | grep -v TOOL-FAILURE | head -3 | sed 's/^/    /')
  others=$(echo "$res" | grep -v "^$pid " | grep -E "^C[0-9]+ " | awk '{print $1}' | sort -u | paste -sd, )
  tf=$(echo "$res" | grep TOOL-FAILURE | head -2)
  if [ -n "$own" ]; then verdict=CAUGHT; elif [ -n "$others" ]; then verdict="caught-by-other($others)"; else verdict=MISSED; fi
  echo "$s $verdict"
  [ -n "$own" ] && echo "$own"
  [ -z "$own" ] && [ -n "$others" ] && echo "$res" | grep -v "^$pid " | head -3 | sed 's/^/    /'
  [ -n "$tf" ] && echo "    $tf"
done
