#!/bin/bash
# Confirms one seeded change produced by an independent sub-agent: applies it to a scratch worktree of
# /repo HEAD, checks build + unchanged suite pass, the demonstration fails with it and passes without it.
# Usage: verify_seed.sh <Cxx> <A|B> [srcdir]    -> writes /verif/seeded/<Cxx>-<A|B>/{patch.diff,demo*,NOTES.md,meta.json}
set -u
PID=$1; AB=$2; SRC=${3:-/tmp/wt-$PID/_seed/$AB}
export GOFLAGS=-mod=mod GOPROXY=off GOSUMDB=off GOTOOLCHAIN=local GOMAXPROCS=4; unset GOWORK
OUT=/verif/seeded/$PID-$AB
WT=/tmp/vs-$PID-$AB
mkdir -p "$OUT"
cp "$SRC"/patch.diff "$SRC"/NOTES.md "$OUT"/ 2>/dev/null
cp "$SRC"/demo* "$OUT"/ 2>/dev/null
git -C /repo worktree remove --force "$WT" 2>/dev/null
git -C /repo worktree add -q --detach "$WT" HEAD || exit 2
cd "$WT" || exit 2
HEADC=$(git rev-parse --short HEAD)
applied=plain
if ! git apply "$OUT/patch.diff" 2>/dev/null; then
  if git apply -3 "$OUT/patch.diff" 2>/dev/null; then applied=3way; else applied=FAILED; fi
fi
build=skip; suite=skip; with=skip; without=skip; names=""
if [ "$applied" != FAILED ]; then
  if go build ./... 2>/tmp/vs-build-$PID-$AB.log; then build=ok; else build=FAILED; fi
  suite=$(/verif/scripts/run_suite.sh "$WT" 2>&1 | head -1)
  DEMO=$(ls "$OUT"/demo*_test.go 2>/dev/null | head -1)
  if [ -n "$DEMO" ]; then
    pkg=$(grep -m1 '^package ' "$DEMO" | awk '{print $2}')
    case "$pkg" in xixi_kv|xixi_kv_test) dir=.;; *) dir=$(echo "$pkg" | sed 's/_test$//');; esac
    cp "$DEMO" "$WT/$dir/zz_seed_demo_test.go"
    names=$(grep -o '^func Test[A-Za-z0-9_]*' "$DEMO" | sed 's/func //' | paste -sd'|')
    if go test ${SEED_RACE:+-race} -vet=off -count=1 -run "^($names)\$" ./$dir >/tmp/vs-with-$PID-$AB.log 2>&1; then with=PASS; else with=FAIL; fi
    # undo the change only (the demonstration is untracked and stays); no git stash: the stash is shared by all worktrees
    git checkout -q -- .
    if go test ${SEED_RACE:+-race} -vet=off -count=1 -run "^($names)\$" ./$dir >/tmp/vs-without-$PID-$AB.log 2>&1; then without=PASS; else without=FAIL; fi
  fi
fi
confirmed=false
if [ "$build" = ok ] && [ "$suite" = "passed 63 failed 0" ] && [ "$with" = FAIL ] && [ "$without" = PASS ]; then confirmed=true; fi
python3 - "$OUT/meta.json" <<PY
import json,sys
json.dump({"seed":"$PID-$AB","property":"$PID","repo_head":"$HEADC","patch_applied":"$applied","build":"$build","suite_with_change":"$suite",
 "demo_tests":"$names","demo_with_change":"$with","demo_without_change":"$without","confirmed":$( [ $confirmed = true ] && echo True || echo False ),
 "ran":["git apply patch.diff (scratch worktree of /repo HEAD)","go build ./...","scripts/run_suite.sh (baseline suite, 63 tests)","go test ${SEED_RACE:+-race }-run demo (with change)","git checkout -- . ; go test -run demo (without change)"]},open(sys.argv[1],'w'),indent=1)
PY
cd /; git -C /repo worktree remove --force "$WT"; rm -rf "$WT"
echo "$PID-$AB applied=$applied build=$build suite=[$suite] with=$with without=$without confirmed=$confirmed"
