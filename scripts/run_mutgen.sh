#!/bin/bash
# Runs every mechanical variant produced by tool/cmd/mutgen through all twenty checks (one load each) and records, per
# variant, whether the variant type-checks and which (property, rule) pairs fail. Development aid (DESIGN 10).
# Usage: run_mutgen.sh <dir with variant json> <results.jsonl> [parallel]
export GOFLAGS=-mod=mod GOPROXY=off GOSUMDB=off GOTOOLCHAIN=local GOMAXPROCS=2 CGO_ENABLED=0; unset GOWORK
D=$1; R=$2; P=${3:-6}; BIN=${XKV_BIN:-/verif/bin/xkvlint}
cp $BIN $D/.xkvlint
ls $D/*.json | xargs -P $P -I{} sh -c '[ -f {}.out ] || { nice '$D'/.xkvlint -prop matrix -repo ${XKV_REPO:-/repo} -overlay {} > {}.tmp 2>&1; echo "rc=$?" >> {}.tmp; mv {}.tmp {}.out; }'
python3 - "$D" "$R" <<'PY'
import json,sys,glob,re
out=open(sys.argv[2],'w')
for f in sorted(glob.glob(sys.argv[1]+'/*.json')):
    m=json.load(open(f)); o=open(f+'.out').read()
    rc=re.search(r'rc=(\d+)',o).group(1)
    pairs=sorted({(l.split()[0],l.split()[2]) for l in o.splitlines() if re.match(r'^C\d+ (VIOLATED|UNDECIDED)',l)})
    st='caught' if pairs else ('survived' if rc=='0' else 'uncompilable-or-tool-failure')
    tf=[l for l in o.splitlines() if 'TOOL-FAILURE' in l or 'role ' in l][:1]
    out.write(json.dumps({"id":m["id"],"kind":m["kind"],"file":m["file"],"line":m["line"],"func":m["func"],"text":m["text"],"status":st,"rc":rc,"pairs":[p+":"+r for p,r in pairs],"fail":tf})+"\n")
PY
