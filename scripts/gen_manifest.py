#!/usr/bin/env python3
"""Regenerates /verif/MANIFEST.json from the table below (claimed properties) + properties.jsonl."""
import json, os
V = os.path.dirname(os.path.dirname(os.path.abspath(__file__)))
props = [json.loads(l) for l in open(os.path.join(V, 'properties.jsonl'))]
base = json.load(open('/root/.vp/BASELINE.json'))

COMMON_NOTE = ("Trusted base: go/types + go/ssa + VTA call graph (x/tools v0.29.0), the rule implementations in /verif/tool, "
               "and the frozen dependency/OS facts printed under coverage.tables/assumptions in the evidence. "
               "Decides only the structural S-clauses named in level_claimed.text; the behavioural B-clauses listed in DESIGN.md section 3 "
               "(value equality, arithmetic at every offset, history/schedule/crash-point quantification) are NOT decided. "
               "No code from /repo is executed.")

# id -> (technique, text, design_ref)
CLAIMS = {
 "C13": ("path-sensitive typestate (clean/dirty) over SSA CFGs with callee summaries, error facts and option specialisation",
         "For every path of Put/Delete (SyncStrategy=Always and =Threshold), Batch.Commit (Sync batch), DB.Sync, DB.Close and each ReadWriter "
         "implementation's Sync/Close: every success return is reached only after the written bytes passed an OS durability primitive "
         "((*os.File).Sync / mmap Flush), the threshold counter is increased by every write, reset only after a flush and compared with "
         "BytesPerSync before returning, and the active-file field is never replaced while dirty. Exhaustive over paths and implementations; "
         "this is the whole mechanism of the property except the OS contract.", "3/C13, 2.3"),
 "C08": ("lockset / lock-protocol analysis (path-sensitive, interprocedural summaries, fresh-vs-shared contexts) + write-once table rule",
         "Decides the lock discipline the property's mechanism list names, on every path: each index update reachable from Put/Delete/batch flush "
         "holds the database writer lock continuously since its log append (LK3); an index read that decides an append lies in the same writer "
         "section (LK4); every shard container call is made under that shard's lock in a mode compatible with the writes-through-receiver summary "
         "of all three index implementations (LK7); published positions are never modified and rotated files never leave the file map while open "
         "(TB2). Linearizability of histories itself is not decided.", "3/C08, 2.2"),
 "C09": ("static race / lock-protocol analysis: Eraser-style lockset on all paths (not observed ones), atomic-consistency scan, lock-order graph, batch typestate, snapshot value-flow",
         "For every public entry point (DB, Iterator, Batch in both protocol states, the background merge goroutine, the datatype layer for pairing): "
         "every access to an inferred mutable DB/Batch field through a shared base holds the owner lock in the needed mode (LK1); no field mixes "
         "sync/atomic and plain access (LK2); no lock is released unheld or re-acquired while held, entry lockset = exit lockset on every path, "
         "NewBatch/Commit preserve the protocol invariant and a committed batch performs no effect (LK5/LK8); lock order acyclic (LK6); shard "
         "lock modes (LK7); merge flag test-and-set in one section (LK4); ListKeys/Fold/NewIterator build their result from one snapshot (VF6). "
         "Races inside DataFile/MMap internals, all run-time panics and liveness are not decided.", "3/C09, 2.2"),
 "C16": ("path-sensitive typestate (directory lock) over Open/Close incl. closures and defers; dominance of FS mutations by the held edge",
         "On every path of Open: the lock is taken with the non-blocking TryLock, every failure return is reached unlocked, the success return "
         "locked with the lock stored in the DB, the not-held edge returns ErrDatabaseIsUsing, and no file-system mutation primitive is reachable "
         "before the lock is held; Close releases on every return. Inter-process races and flock(2) semantics are trusted.", "3/C16, 2.3"),
}

checks = []
for p in props:
    pid = p['id']
    if pid not in CLAIMS:
        continue
    tech, text, ref = CLAIMS[pid]
    checks.append({
        "property_id": pid,
        "quick_cmd": "./check %s quick" % pid,
        "thorough_cmd": "./check %s thorough" % pid,
        "evidence_file": "evidence/%s.json" % pid,
        "replay_cmd_template": "./check %s --replay {path}" % pid,
        "engine": "xkvlint",
        "level_claimed": {"category": "other", "text": text, "design_ref": "DESIGN.md " + ref},
        "level_note": COMMON_NOTE,
        "technique": "static analysis: " + tech,
    })
m = {
 "version": 1,
 "setup_cmd": "cd /verif/tool && GOFLAGS=-mod=mod GOPROXY=off GOSUMDB=off GOTOOLCHAIN=local GOWORK=off CGO_ENABLED=0 go build -o ../bin/xkvlint ./cmd/xkvlint",
 "hooks": {"guard": "verif", "enable": "none needed: static analysis reads the default build of /repo; no hook code exists in /repo",
           "baseline_off_cmd": base["cmd"], "source_commits": [], "add_only": True},
 "engines": [{"name": "xkvlint", "path": "tool/", "serves_properties": sorted(CLAIMS),
              "kind_free_text": "repository-specific static analyser over go/packages + go/ssa + VTA/CHA call graphs (x/tools v0.29.0): path typestate, locksets, value flow, retention, codec agreement, guards, tables"}],
 "checks": checks,
 "notes": "Static analysis only (DESIGN.md). quick = all rules of the property on linux/amd64 with the VTA graph; thorough = the same rules on linux/amd64 and linux/386 with VTA and CHA graphs plus the property's self-validation variants (mutants/*.json, analysed through an in-memory overlay, never run). Exit 2 = tool failure (no verdict).",
 "not_applicable": [{"property_id": p['id'], "reason": "check not built yet (implementation in progress, see DESIGN.md section 9)"} for p in props if p['id'] not in CLAIMS],
}
json.dump(m, open(os.path.join(V, 'MANIFEST.json'), 'w'), indent=1)
print("claimed", len(checks), "not_applicable", len(m["not_applicable"]))
