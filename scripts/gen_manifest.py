#!/usr/bin/env python3
"""Regenerates /verif/MANIFEST.json from the table below (claimed properties) + properties.jsonl."""
import json, os
V = os.path.dirname(os.path.dirname(os.path.abspath(__file__)))
props = [json.loads(l) for l in open(os.path.join(V, 'properties.jsonl'))]
base = json.load(open('/root/.vp/BASELINE.json'))

COMMON_NOTE = ("Trusted base: go/types + go/ssa + VTA call graph (x/tools v0.29.0), the rule implementations in /verif/tool, "
               "and the frozen dependency/OS facts printed under coverage.tables/assumptions in the evidence. "
               "Decides only the structural S-clauses named in level_claimed.text; the behavioural B-clauses listed in DESIGN.md section 3 "
               "(value equality, arithmetic at every offset, history/schedule/crash-point quantification) are NOT decided. "
               "No code from /repo is executed.")

# id -> (technique, text, design_ref)
CLAIMS = {
 "C11": ("writer/reader agreement: codec-sequence extraction, header-layout tables, exhaustive evaluation of extracted threshold predicates, dominance rules",
         "Decides 'the writer's and the reader's tables agree': record and hint codecs have identical field sequences, widths, signedness and fixed prefix "
         "(CD1); chunk writer and decoder use the same header layout, tiling [0,7), checksum over everything after the sum (CD2); the writer's pad "
         "predicate and the sequential reader's skip predicate have equal truth sets over the whole domain [0,32768) (CD3, exhaustive constant folding of "
         "the extracted formulas); payload fits the 16-bit length field (CD5); every writing DataFile method advances the logical size on success (CD7); "
         "one Write call per append (WR1); writer emits exactly the declared chunk types, both readers stop on the same set and validate the "
         "Full/First-then-Middle/Last sequence (CT); pad test per record and tail test after every record end (CD3b/c); clean EOF, EOF by size only, decode "
         "window (BD2, EOF1, BD4); block offsets are multiplied in 64 bits (WD1); the in-block cursor stays below the block size, opens at the physical size and is threaded through the batch writer (CD8, CD9, CD10); both sides charge one header per chunk and every chunk is capped by its block (CD11, CD12); pooled buffers are released once and not used afterwards (POOL3, POOL4). The round trip over all (offset,length) pairs is arithmetic and is not decided (no solver).", "3/C11, 2.6"),
 "C12": ("dominating-guard facts (bounds, sign), CRC-gating dominance, who-may-call, per-property error-discipline (PS8)",
         "Decides: in the pre-checksum decoder every access to the input is dominated by a length guard and the stored-length-derived bound cannot wrap "
         "(BD1); unsigned conversion of fileSize-offset is guarded inside the loop in both readers (BD2); payload leaves the decoder only on the "
         "checksum-equal edge, the checksum covers input[4:end], ReadWriter.Read is invoked only by the chunk readers which decode what they read (BD3); "
         "the decoder sees only the bytes just read (BD4); errors of every call that reaches a read are propagated, never swallowed (PS8); content never means end of log - no decoder returns io.EOF under a condition computed from its input, scans end only on io.EOF (EOF1, EOF2); chunk-type sequence validated (CT); inside the back-ends no error is turned into success (PS8 backend-read); an ignored error behind an empty branch is seen (PS8). Value equality "
         "under corruption and content that passes CRC-32 are not decided.", "3/C12, 2.7"),
 "C13": ("path-sensitive typestate (clean/dirty) over SSA CFGs with callee summaries, error facts and option specialisation",
         "For every path of Put/Delete (SyncStrategy=Always and =Threshold), Batch.Commit (Sync batch), DB.Sync, DB.Close and each ReadWriter "
         "implementation's Sync/Close: every success return is reached only after the written bytes passed an OS durability primitive "
         "((*os.File).Sync / mmap Flush), the threshold counter is increased by every write, reset only after a flush and compared with "
         "BytesPerSync before returning, and the active-file field is never replaced while dirty; the option values these path rules specialise on are immutable after construction (CFG1). Exhaustive over paths and implementations; "
         "this is the whole mechanism of the property except the OS contract.", "3/C13, 2.3"),
 "C01": ("value-provenance (def-use over SSA through extracts, phis, local cells, closure parameters) + path typestate",
         "Decides the structural mechanism 'append then point the index at that position': at every ShardedIndex.Put of the engine (Put, batch flush, "
         "replay, hint load) the position is the one returned by the appending / flushing / decoding call made for the record carrying exactly that key "
         "(VF1); a successful tombstone append in Delete is always followed by the index delete of the same key (PS-DEL); positional reads of the DB API "
         "dispatch on pos.Fid (VF2); every append is preceded by the size check with rotation on overflow (PS7); no active-file alias is used across a "
         "rotation (VF7); rotation registers the outgoing file (RO1); pooled records are reset (POOL); Get results are fresh (RT2); plus the frame group (writer/reader agreement, cursor bounds CD8/CD9, 64-bit offsets WD1, EOF rules, buffer single release POOL3) and the batch group (tagging, staging, BT1-BT5); the record handed on carries the call's key and value (VF0); looked-up positions are nil-tested (NIL1); no error is wrapped on its nil edge (ERR1); pooled objects are not used after release (POOL4). Byte equality, chunk arithmetic and all operation sequences are not decided.", "3/C01, 2.4"),
 "C02": ("value-provenance + dominance rules over the replay loop, batch tagging, pool invariant; guard facts for EOF; codec agreement",
         "Decides necessary structural conditions of restart: every record a batch frames (staged and seal) carries the batch id (VF3), recovery applies "
         "tagged records only on the Type==BatchFinished edge, removes the applied entry and keeps its pending map across files (VF3c/e/f), replayed "
         "positions pair with their keys (VF1), pooled records are reset (POOL), both chunk readers guard the unsigned size conversion inside the loop "
         "(BD2), reader errors abort Open (PS8), MMap.Close truncates to the logical size before closing (TR1), record/hint codecs agree (CD1); recovery never looks at the size limit (CF2); Close closes every file, completely, before it drops the map (CL1, CL1b); file names sort like ids (FN1); plus the frame, batch and merge rule groups. "
         "Equality of the two dumps over histories and configurations is not decided.", "3/C02"),
 "C04": ("value-provenance (batch-id tagging), path typestates (seal ordering, Sync-batch durability), stale-alias rule",
         "Decides: staged records and the seal carry Batch.batchID before framing (VF3a/b); recovery applies tagged records only under their seal, "
         "across files (VF3c/e/f); Merge untags rewritten records (VF3d); in Commit the staged flush precedes the seal and every writing success "
         "return follows a successful seal write (PS6); with BatchOptions.Sync every success return of Commit is clean including the seal (PS1); the "
         "seal goes to the current active file, not a stale alias (VF7); flush positions pair with staged records (VF1); a file is flushed before rotation (PS3: multi-file batches); staged slice and lookup map change together, flush loop complete, single release (BT2-BT4, POOL2). All-or-nothing at every crash "
         "instant and uniqueness of batch ids are not decided.", "3/C04"),
 "C05": ("path typestate over Batch.Put (record type), lockset batch protocol (LK8), file-id dispatch, retention analysis of Batch parameters",
         "Decides: Batch.Get's fallback read uses the file pos.Fid names (VF2); at every success return of Batch.Put the staged record is typed Normal "
         "(fresh from the reset pool or re-typed after lookup) (BT1, POOL); every exported Batch method preserves the protocol invariant "
         "(uncommitted <=> DB writer lock held) and a committed batch performs no effect (LK8/LK5); the staged slice only grows by append or is reset (SO1); "
         "Batch.Put/Delete/Get do not retain caller slices in staged records (RT1); a staged record is in the lookup map iff it is in the staged slice, buckets grow (BT4, BT4b); the staged size is charged, reset and compared before every staging, overflow flushes (BT5); staged records carry key and value (VF0); the rotated-file lookup is on the right edge of a live file-id test (VF2). Equality with a layered reference map is not decided.", "3/C05"),
 "C08": ("lockset / lock-protocol analysis (path-sensitive, interprocedural summaries, fresh-vs-shared contexts) + write-once table rule",
         "Decides the lock discipline the property's mechanism list names, on every path: each index update reachable from Put/Delete/batch flush "
         "holds the database writer lock continuously since its log append (LK3); an index read that decides an append lies in the same writer "
         "section (LK4); every shard container call is made under that shard's lock in a mode compatible with the writes-through-receiver summary "
         "of all three index implementations (LK7); published positions are never modified and rotated files never leave the file map while open "
         "(TB2); a pooled record is released once (POOL2) and the logical size only moves after a successful write (CD7: live view = recovered view after an I/O error). Linearizability of histories itself is not decided.", "3/C08, 2.2"),
 "C09": ("static race / lock-protocol analysis: Eraser-style lockset on all paths (not observed ones), atomic-consistency scan, lock-order graph, batch typestate, snapshot value-flow",
         "For every public entry point (DB, Iterator, Batch in both protocol states, the background merge goroutine, the datatype layer for pairing): "
         "every access to an inferred mutable DB/Batch field through a shared base holds the owner lock in the needed mode (LK1); no field mixes "
         "sync/atomic and plain access (LK2); no lock is released unheld or re-acquired while held, entry lockset = exit lockset on every path, "
         "NewBatch/Commit preserve the protocol invariant and a committed batch performs no effect (LK5/LK8); lock order acyclic (LK6); shard "
         "lock modes (LK7); merge flag test-and-set in one section (LK4); ListKeys/Fold/NewIterator build their result from one snapshot (VF6); "
         "every method call on the active file holds the lock (LK10); the lock-free read path uses private buffers (LK11) and the I/O back-ends lock their own mutable state (LK13); pooled records and byte buffers are released once (POOL2, POOL3); scratch DBs are isolated (LK9). "
         "Races inside DataFile internals beyond LK11/LK13, all run-time panics and liveness are not decided.", "3/C09, 2.2"),
 "C15": ("interprocedural retention / freshness analysis of byte slices (alias propagation through sub-slices, appends, stored-then-loaded fields, carrier objects; kill by later or deferred overwrite) into the btree/skiplist dependencies",
         "Decides the ownership property almost whole: for every []byte parameter of DB.Put/Delete/Get and Batch.Put/Delete/Get no alias is stored into "
         "memory that outlives the call, through library callees, all three index implementations and the dependency containers' SSA (RT1, RT3); every "
         "[]byte returned by DB.Get, Batch.Get, Iterator.Value and passed to Fold's callback originates from an allocation made during the call (RT2); "
         "pooled records are reset before reuse and released once, byte buffers likewise (POOL, POOL2, POOL3). Trusted: classification of append/copy/string conversions, body-less functions.", "3/C15, 2.5"),
 "C16": ("path-sensitive typestate (directory lock) over Open/Close incl. closures and defers; dominance of FS mutations by the held edge",
         "On every path of Open: the lock is taken with the non-blocking TryLock, every failure return is reached unlocked, the success return "
         "locked with the lock stored in the DB, the not-held edge returns ErrDatabaseIsUsing, and no file-system mutation primitive is reachable "
         "before the lock is held; Close releases on every return; nothing is deleted by a name taken from a directory listing, which could be the lock file (RM1). Inter-process races and flock(2) semantics are trusted.", "3/C16, 2.3"),
 "C17": ("accounting value-flow pairing at every index update + size-check typestate + guarded-by for the counters",
         "Decides the pairing that keeps total-reclaim = sum of indexed sizes: at every index Put the new position's Size is charged to the total counter "
         "and the superseded position to reclaim under its non-nil test; at every index Delete the tombstone is charged to both and the superseded "
         "position to reclaim (VF4; Put, Delete, batch flush, replay, hint load); every index implementation reports the superseded position (TB3b); writer and restart scan compute the same record size (CD11); every append of a mutating entry point (incl. batch flush and seal) is "
         "preceded by activeFile.Size()+estimate > DataFileSize with rotation on overflow (PS7); the counters are accessed under the lock (LK1). The "
         "numeric identity itself is not decided.", "3/C17"),
 "C03": ("structural necessary conditions only: single-write rule, FS-mutation ownership table, flush typestates, guard facts, EOF-by-size rule",
         "THIN. The deciding behaviour (which mapping a cut-off directory image re-opens to) is NOT decided. Decided necessary conditions: one Write call per "
         "append, outside loops (WR1); file-system mutation primitives only in their owners, no O_TRUNC, O_APPEND for the standard log, Truncate only in MMap "
         "(TB1); every Sync implementation reaches an OS flush and the active file is flushed before rotation (PS2, PS3); no panic on a cut tail in the "
         "pre-checksum path (BD1, BD2, BD4); end of log decided by sizes only and records returned only after their last chunk (EOF1); recovery keeps "
         "pending batch records across files (VF3); reader errors propagate (PS8).", "3/C03"),
 "C06": ("framing/ordering/guard rules over Merge and the adoption function (dominance, natural-loop exits, value provenance), per-property error discipline",
         "Decides: every file kind is written through the chunk framer it is read with (CD4); Merge reports every error (PS8); a record is rewritten only if "
         "the index points exactly at it in Fid, BlockID and Offset (MG3); output ids stay strictly below the first non-participating id incl. equality (MG1); "
         "the marker id is the one captured with the participating-file snapshot (MG2); rewritten records are untagged (VF3d); marker created after hint and "
         "all output files are closed, leftovers removed marker-first (PS5a/f/j), hint file created before the scan and never removed (PS5i); scans end only on io.EOF (EOF2); adoption gated, restartable, complete before cleanup, same names (PS5c-g); merge flag "
         "test-and-set in one section and cleared only by its owner (LK4); replay skips strictly below the first-unhinted id (RP1). Equality of mappings across adoption shapes is not decided.", "3/C06"),
 "C07": ("ordering rules over Merge and the adoption function: dominance, natural-loop exit analysis, deferred-call scan, Stat-gating",
         "Decides the structural skeleton of crash safety of merge/adoption: marker last, after durable closes of hint and every output file (PS5a, PS2); "
         "leftovers of a crashed merge removed before reuse (PS5f); every adoption mutation dominated by the marker-id != 0 edge (PS5c); originals removed only "
         "while a not-yet-adopted rewritten file still exists (PS5d); merge directory removed only after the rename loops ran to completion, never deferred, "
         "loops left only by their condition or an error (PS5e); files adopted under their own names (PS5g); marker id provenance (MG2); framed marker (CD4); one Merge at a time (merge flag, LK4); removal targets constructed, not listed (RM1); adoption tolerates already-removed originals (PS5k); everything Merge creates lies in its scratch directory (PS5l, MP1). "
         "The state recovered from each intermediate directory image is not decided.", "3/C07"),
 "C10": ("type-shape / ownership tables for snapshot iterators, writes-through-receiver summaries, heap-order typestate, snapshot value-flow",
         "Decides: the three shard-iterator types own their containers (fresh allocation or Clone) (TB5); index items and positions are immutable after "
         "construction (TB2, TB2c) so shared item pointers cannot change under an iterator; observers are read-only in all implementations (TB5b); the merged "
         "iterator re-establishes heap order after moving cursors on every path of Rewind/Seek/Next (HP1), never loses a shard cursor (HP2) and keeps each in one container (HP3); the database iterator delegates every call and filters by prefix after every move, with the right polarity (IT1, IT1b, IT2); seek predicates are inclusive (SK1); movers of all implementations move, both directions alike (TB5c, TB5d); ListKeys/Fold/NewIterator use one snapshot and Fold reads by the snapshot position (VF6); "
         "iterator construction holds the shard lock in a sufficient mode (LK7). Sortedness, completeness, Seek/prefix semantics and cursor arithmetic are "
         "value dependent and not decided.", "3/C10"),
 "C14": ("sibling-agreement rules: per-implementation retention verdicts, dispatch exhaustiveness, back-end durability parity, configuration taint",
         "THIN. Relational over pairs of runs - not decided. Decided sibling-agreement conditions: all index implementations copy the key (RT3); both "
         "dispatchers cover every declared constant (TB3); both I/O back-ends flush in Sync and before close (PS2); snapshot ownership parity (TB5, TB2c); "
         "IndexType/ShardNum/FileIOType flow only into constructors, no other branch tests them (CF1); options of an open DB / live batch are never written (CFG1); heap order independent of shard count (HP1); recovery "
         "independent of how a batch was split across files (VF3e); the batch overflow paths keep staging intact (batch group BT1-BT4); Merge liveness compares the whole position (MG3); recovery ignores the size limit (CF2); index implementations agree on mutating and reporting the superseded position (TB3b); Close closes every file under either back-end (CL1, CL1b); file names sort like ids (FN1).", "3/C14"),
 "C18": ("value provenance of hint entries + typestate (one hint per rewrite) + codec agreement + adoption naming",
         "Decides: the hinted position is result #0 of the rewriting call of the same record (sizes: writer and scan charge one header per chunk, CD11) and the key is that record's Key, written to the file opened with "
         "the hint suffix, exactly one hint per successful rewrite (VF5); hint codec agreement (CD1); the hint loader inserts key and position of one decoded "
         "record, charges its size, and the key is not an alias of a reused buffer (VF1, VF4, RT2); rewritten files are adopted under the same id and suffix "
         "the hint names (PS5g). Equality of hint-built and scan-built indexes is not decided.", "3/C18"),
 "C19": ("lock-protocol pairing in the datatype layer, metadata codec agreement, type-tag table, batch tagging",
         "THIN. Reply equality with a reference model is NOT decided. Decided: on every path of every DataTypeService method each NewBatch is followed by "
         "Commit, with no database call that takes the lock in between (LK5); metadata encoder/decoder agree incl. the List-only tail (CD1); each command family "
         "passes its own tag to the lookup, which returns the wrong-type error on the mismatch edge and reads no other stored field before the tag matched (TB4); existence is decided by the engine error, not by the value (DT1); the four list sites follow one half-open window convention and both cursors start equal (LIST1); the stored length follows the window (LIST2); size changes are written back and paired with their element operation (DT4); encoders write every field (DT2); the score codec keeps 64 bits (FLT1); structure updates are batches whose records and seal "
         "are tagged and replayed under their seal (VF3).", "3/C19"),
 "C20": ("MMap size-reset typestate, backup argument/lock table, copy-completeness rule, error discipline of the copy",
         "Decides: an MMap method truncates to the logical size only when unmapped and invalidates the mapping bound (TB6); every MMap method copes with the "
         "unmapped state (TB6b) and touches mapping state only under the MMap lock (LK13: the source stays usable); Merge leaves originals in place and rewrites untagged (PS5, VF3d); the scratch directory is a sibling named after the data directory (MP1); every success return of Backup follows the copy (CP2); no error is wrapped on its nil edge (ERR1); Backup resets the active and every rotated file; its size resets and copy "
         "are dominated by the database WRITER lock; source = DirPath, destination = parameter, lock file excluded (TB7); the walk callback skips an entry "
         "only for the root / an exclusion match (CP1); copy errors propagate (PS8). Equality of the copy with the source's mapping is not decided.", "3/C20"),
}

checks = []
for p in props:
    pid = p['id']
    if pid not in CLAIMS:
        continue
    tech, text, ref = CLAIMS[pid]
    checks.append({
        "property_id": pid,
        "quick_cmd": "./check %s quick" % pid,
        "thorough_cmd": "./check %s thorough" % pid,
        "evidence_file": "evidence/%s.json" % pid,
        "replay_cmd_template": "./check %s --replay {path}" % pid,
        "engine": "xkvlint",
        "level_claimed": {"category": "other", "text": text, "design_ref": "DESIGN.md " + ref},
        "level_note": COMMON_NOTE,
        "technique": "static analysis: " + tech,
    })
m = {
 "version": 1,
 "setup_cmd": "cd /verif/tool && GOFLAGS=-mod=mod GOPROXY=off GOSUMDB=off GOTOOLCHAIN=local GOWORK=off CGO_ENABLED=0 go build -o ../bin/xkvlint ./cmd/xkvlint",
 "hooks": {"guard": "verif", "enable": "none needed: static analysis reads the default build of /repo; no hook code exists in /repo",
           "baseline_off_cmd": base["cmd"], "source_commits": [], "add_only": True},
 "engines": [{"name": "xkvlint", "path": "tool/", "serves_properties": sorted(CLAIMS),
              "kind_free_text": "repository-specific static analyser over go/packages + go/ssa + VTA/CHA call graphs (x/tools v0.29.0): path typestate, locksets, value flow, retention, codec agreement, guards, tables"}],
 "checks": checks,
 "notes": "Static analysis only (DESIGN.md). quick = all rules of the property on linux/amd64 with the VTA graph; thorough = the same rules on linux/amd64 and linux/386 with VTA and CHA graphs plus the property's self-validation variants (mutants/*.json, analysed through an in-memory overlay, never run). Exit 2 = tool failure (no verdict).",
 "not_applicable": [{"property_id": p['id'], "reason": "not claimed"} for p in props if p['id'] not in CLAIMS],
}
json.dump(m, open(os.path.join(V, 'MANIFEST.json'), 'w'), indent=1)
print("claimed", len(checks), "not_applicable", len(m["not_applicable"]))
