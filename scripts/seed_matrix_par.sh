#!/bin/bash
# Parallel variant of seed_matrix.sh for the bulk matrix: each worker owns a scratch worktree of /repo HEAD under /tmp
# (removed at the end), applies one seed at a time there, runs all twenty checks in one load, undoes it.
# Same binary, same analysis as seed_matrix.sh; /repo itself is not touched. Usage: seed_matrix_par.sh [workers] ; SEED_SET=A-H
export GOFLAGS=-mod=mod GOPROXY=off GOSUMDB=off GOTOOLCHAIN=local GOMAXPROCS=2 CGO_ENABLED=0; unset GOWORK
cd /verif
W=${1:-4}; OUT=/verif/seeded/MATRIX.txt; T=$(mktemp -d /tmp/mxout.XXXX)
BIN=$T/xkvlint; cp ${XKV_BIN:-bin/xkvlint} $BIN
ls -d seeded/C*-[${SEED_SET:-A-H}] | sort > $T/list
for k in $(seq 1 $W); do
 (
  WT=/tmp/mx-wt-$k; git -C /repo worktree remove --force $WT 2>/dev/null; rm -rf $WT; git -C /repo worktree add -q --detach $WT HEAD || exit 2
  awk -v k=$k -v w=$W 'NR%w==k%w' $T/list | while read d; do
    s=$(basename $d); pid=${s%-*}; o=$T/$s.txt
    grep -q '"confirmed": true' $d/meta.json 2>/dev/null || { echo "$s unconfirmed" > $o; continue; }
    if ! git -C $WT apply /verif/$d/patch.diff 2>/dev/null; then git -C $WT apply -3 /verif/$d/patch.diff 2>/dev/null || { echo "$s patch-failed" > $o; git -C $WT reset -q --hard HEAD; continue; }; fi
    res=$($BIN -prop matrix -repo $WT 2>&1)
    git -C $WT reset -q --hard HEAD
    own=$(echo "$res" | grep "^$pid " | grep -v TOOL-FAILURE | head -3 | sed 's/^/    /')
    others=$(echo "$res" | grep -v "^$pid " | grep -E "^C[0-9]+ " | awk '{print $1}' | sort -u | paste -sd, )
    tf=$(echo "$res" | grep TOOL-FAILURE | head -2)
    if [ -n "$own" ]; then verdict=CAUGHT; elif [ -n "$others" ]; then verdict="caught-by-other($others)"; else verdict=MISSED; fi
    { echo "$s $verdict"; [ -n "$own" ] && echo "$own"; [ -z "$own" ] && [ -n "$others" ] && echo "$res" | grep -v "^$pid " | head -3 | sed 's/^/    /'; [ -n "$tf" ] && echo "    $tf"; } > $o
  done
  git -C /repo worktree remove --force $WT; rm -rf $WT
 ) &
done
wait
: > $OUT; for d in $(cat $T/list); do cat $T/$(basename $d).txt >> $OUT 2>/dev/null; done
rm -rf $T; git -C /repo worktree prune
grep -E "^C[0-9]+-[A-Z] " $OUT | awk '{print $2}' | sed 's/(.*//' | sort | uniq -c
