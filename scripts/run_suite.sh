#!/bin/sh
# Runs /repo's pinned test suite (the BASELINE command, guard off) and prints pass/fail counts.
# Usage: scripts/run_suite.sh [repo-dir]   (default /repo)
R=${1:-/repo}
export GOFLAGS=-mod=mod GOPROXY=off GOSUMDB=off GOTOOLCHAIN=local
unset GOWORK
cd "$R" || exit 2
OUT=$(mktemp)
go test -mod=mod -json -vet=off -count=1 -timeout 25m ./... > "$OUT" 2>&1
python3 - "$OUT" <<'PY'
import json,sys
p=f=0; failed=[]
for l in open(sys.argv[1]):
    try: e=json.loads(l)
    except Exception: continue
    if e.get('Test') and e.get('Action') in('pass','fail'):
        if e['Action']=='pass': p+=1
        else: f+=1; failed.append(e['Package']+'::'+e['Test'])
print('passed',p,'failed',f)
for x in failed: print('  FAIL',x)
sys.exit(1 if f or p<63 else 0)
PY
rc=$?
rm -f "$OUT"
exit $rc
