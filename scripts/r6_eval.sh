#!/bin/bash
# Round-6 evaluation of one property's sub-agent output: confirms seeds L, M (verify_seed.sh), confirms controls R1, R2
# (build + suite must pass), and runs all twenty checks in one load on each of the four, in scratch worktrees of /repo HEAD.
# Usage: r6_eval.sh <Cxx> [binary]   -> /tmp/r6/res/<Cxx>-<X>.{matrix,ctl}.txt, seeded/<Cxx>-<L|M>/, seeded/controls/<Cxx>-<R1|R2>/
P=$1; BIN=${2:-/verif/bin/xkvlint}; TAG=${3:-cur}
export GOFLAGS=-mod=mod GOPROXY=off GOSUMDB=off GOTOOLCHAIN=local GOMAXPROCS=2 CGO_ENABLED=0; unset GOWORK
SRC=/tmp/wt6-$P
for X in L M; do
  [ -f /verif/seeded/$P-$X/meta.json ] || /verif/scripts/verify_seed.sh $P $X $SRC/_seed/$X > /tmp/r6/res/$P-$X.verify.txt 2>&1
done
for X in R1 R2; do
  D=/verif/seeded/controls/$P-$X; mkdir -p $D; cp $SRC/_ctl/$X/patch.diff $SRC/_ctl/$X/NOTES.md $D/ 2>/dev/null
done
for X in L M R1 R2; do
  case $X in L|M) PATCH=/verif/seeded/$P-$X/patch.diff;; *) PATCH=/verif/seeded/controls/$P-$X/patch.diff;; esac
  WT=/tmp/ev-$P-$X; git -C /repo worktree remove --force $WT 2>/dev/null; rm -rf $WT
  git -C /repo worktree add -q --detach $WT HEAD || continue
  if git -C $WT apply $PATCH 2>/dev/null || git -C $WT apply -3 $PATCH 2>/dev/null; then
    case $X in R1|R2)
      if [ ! -f /verif/seeded/controls/$P-$X/meta.json ]; then
        b=ok; (cd $WT && go build ./... 2>/dev/null) || b=FAILED
        s=$(/verif/scripts/run_suite.sh $WT 2>&1 | head -1)
        python3 -c "import json;json.dump({'control':'$P-$X','property':'$P','build':'$b','suite_with_change':'$s','confirmed':('$b'=='ok' and '$s'=='passed 63 failed 0'),'ran':['git apply patch.diff (scratch worktree of /repo HEAD)','go build ./...','scripts/run_suite.sh (baseline suite, 63 tests)']},open('/verif/seeded/controls/$P-$X/meta.json','w'),indent=1)"
      fi;;
    esac
    XKV_REPO=$WT $BIN -prop matrix -repo $WT > /tmp/r6/res/$P-$X.$TAG.txt 2>&1; echo "rc=$?" >> /tmp/r6/res/$P-$X.$TAG.txt
  else
    echo "patch-failed" > /tmp/r6/res/$P-$X.$TAG.txt
  fi
  git -C /repo worktree remove --force $WT 2>/dev/null; rm -rf $WT
done
echo "$P done"
